"""./vf --replay <file>: re-run a stored counterexample against the real, unpatched code"""
import json
import sys

from .run import harness_mod

d = json.load(open(sys.argv[1]))
h = harness_mod(d["property"])
res = h.replay(d["ob"], d["model"])
print(json.dumps(res, indent=1, default=str))
if res.get("reproduced"):
    print(f"VIOLATION property={d['property']} replay={sys.argv[1]}")
    sys.exit(1)
sys.exit(0)
