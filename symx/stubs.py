"""symx.stubs -- small typed stand-ins for beyond objects that the symbolic runs need (dates as real seconds,
duck-typed state carrier).  Each stub is listed in the evidence of the checks that use it."""
import numpy as np

from .core import R, SB, Dual


def _lift(x):
    return x if isinstance(x, (R, Dual)) else R.lift(x)


def _r(x):
    from .core import R
    return x if hasattr(x, "floor") else R.lift(x)


class SymTD:
    """timedelta stand-in: exact real seconds"""
    def __init__(self, secs):
        self.secs = _lift(secs)

    def total_seconds(self):
        return self.secs

    # the fields of datetime.timedelta: days, seconds (0 <= s < 86400, whole), microseconds (the rest)
    @property
    def days(self):
        return (_r(self.secs) / 86400).floor()

    @property
    def seconds(self):
        return (_r(self.secs) - 86400 * self.days).floor()

    @property
    def microseconds(self):
        return (_r(self.secs) - 86400 * self.days - self.seconds) * 1000000

    def __truediv__(self, k):
        if isinstance(k, SymTD):
            return self.secs / k.secs
        return SymTD(self.secs / k)

    def __mul__(self, k):
        return SymTD(self.secs * k)

    __rmul__ = __mul__

    def __neg__(self):
        return SymTD(-self.secs)

    def __add__(self, o):
        if isinstance(o, SymTD):
            return SymTD(self.secs + o.secs)
        return NotImplemented

    def __sub__(self, o):
        if isinstance(o, SymTD):
            return SymTD(self.secs - o.secs)
        return NotImplemented

    def __abs__(self):
        return SymTD(abs(self.secs))

    def _c(self, o, op):
        return op(self.secs, o.secs)

    def __lt__(self, o): return self._c(o, lambda a, b: a < b)
    def __le__(self, o): return self._c(o, lambda a, b: a <= b)
    def __gt__(self, o): return self._c(o, lambda a, b: a > b)
    def __ge__(self, o): return self._c(o, lambda a, b: a >= b)
    def __eq__(self, o): return self._c(o, lambda a, b: a == b) if isinstance(o, SymTD) else False
    def __hash__(self): return id(self)


class SymDate:
    """Date stand-in: instant as exact real seconds from an arbitrary origin (scale-free)"""
    def __init__(self, t):
        self.t = _lift(t)

    def __sub__(self, o):
        if isinstance(o, SymDate):
            return SymTD(self.t - o.t)
        if isinstance(o, SymTD):
            return SymDate(self.t - o.secs)
        return NotImplemented

    def __add__(self, o):
        if isinstance(o, SymTD):
            return SymDate(self.t + o.secs)
        return NotImplemented

    __radd__ = __add__

    def _c(self, o, op):
        return op(self.t, o.t)

    def __lt__(self, o): return self._c(o, lambda a, b: a < b)
    def __le__(self, o): return self._c(o, lambda a, b: a <= b)
    def __gt__(self, o): return self._c(o, lambda a, b: a > b)
    def __ge__(self, o): return self._c(o, lambda a, b: a >= b)
    def __eq__(self, o): return self._c(o, lambda a, b: a == b) if isinstance(o, SymDate) else False
    def __hash__(self): return id(self)

    # what DatedInterp reads (any affine function of the instant would do)
    _mjd = property(lambda self: self.t)

    def __repr__(self):
        return f"SymDate({self.t!r})"


class Carrier(np.ndarray):
    """object-dtype state array with the attributes beyond's functions read (date, frame, form, maneuvers ...).
    When `form` is a real beyond Form object, copy(form=...) walks the real Form graph through Form.__call__ and
    element access by name (kep.a, sphe.r, kep.nu ...) follows the real param_names / alias table."""
    _ATTRS = ("date", "frame", "form", "maneuvers", "propagator", "_extra")

    def __array_finalize__(self, obj):
        for k in Carrier._ATTRS:
            if k not in self.__dict__:
                self.__dict__[k] = getattr(obj, k, None) if obj is not None and hasattr(obj, "__dict__") else None

    def _clone_meta(self, new):
        for k in Carrier._ATTRS:
            new.__dict__[k] = self.__dict__.get(k)
        return new

    def copy(self, form=None, frame=None, same=False):
        new = self._clone_meta(np.ndarray.copy(self).view(type(self)))
        if frame is not None and _name(frame) != _name(self.frame) and form is not None:
            # frame first (in cartesian), then form -- same order as StateVector.copy
            return self.copy(frame=frame).copy(form=form)
        if form is not None and self.form is not None and _name(form) != _name(self.form):
            if hasattr(self.form, "steps"):
                from beyond.orbits.forms import get_form
                target = get_form(_name(form))
                arr = self.form(self, target)
                new = self._clone_meta(np.asarray(arr, dtype=object).view(type(self)))
                new.__dict__["form"] = target
            else:
                raise NotImplementedError(f"Carrier.copy(form={form}) from {self.form}")
        if frame is not None and _name(frame) != _name(self.frame):
            conv = (self._extra or {}).get("frame_convert")
            if conv is not None:
                new = conv(new, frame)
            elif hasattr(self.frame, "transform"):
                # the real Frame.transform of beyond (what the StateVector.frame setter calls)
                if isinstance(frame, str):
                    from beyond.frames.frames import get_frame
                    frame = get_frame(frame)
                keep = new.form
                new = self.frame.transform(new, frame)
                new.__dict__["frame"] = frame
                if keep is not None:
                    new.__dict__["form"] = keep
            else:
                raise NotImplementedError(f"Carrier.copy(frame={frame}) from {self.frame}")
            if form is not None:
                return new.copy(form=form)
        return new

    # ---- frame / form: reading is plain; *assigning* converts the coordinates in place, as StateVector's setters do (the
    # constructors and copy() above write self.__dict__ directly)
    @property
    def frame(self):
        return self.__dict__.get("frame")

    @frame.setter
    def frame(self, new):
        cur = self.__dict__.get("frame")
        if cur is not None and new is not None and _name(cur) != _name(new) and hasattr(cur, "transform"):
            conv = self.copy(frame=new)
            np.ndarray.__setitem__(self, slice(None), np.asarray(conv, dtype=object))
            new = conv.__dict__["frame"]
        self.__dict__["frame"] = new

    @property
    def form(self):
        return self.__dict__.get("form")

    @form.setter
    def form(self, new):
        cur = self.__dict__.get("form")
        if cur is not None and new is not None and _name(cur) != _name(new) and hasattr(cur, "steps"):
            conv = self.copy(form=new)
            np.ndarray.__setitem__(self, slice(None), np.asarray(conv, dtype=object))
            new = conv.__dict__["form"]
        self.__dict__["form"] = new

    def __getattr__(self, name):
        if name.startswith("__") or name in Carrier._ATTRS:
            raise AttributeError(name)
        form = self.__dict__.get("form")
        names = getattr(form, "param_names", None)
        if names:
            alt = getattr(type(form), "alt", {})
            key = alt.get(name, name)
            if key in names:
                return self[names.index(key)]
            if name in names:
                return self[names.index(name)]
        raise AttributeError(name)


def _name(f):
    return getattr(f, "name", f)


def carrier(vals, date=None, frame=None, form="cartesian", maneuvers=(), **extra):
    a = np.empty(len(vals), dtype=object)
    a[:] = list(vals)
    a = a.view(Carrier)
    a.date, a.frame, a.form, a.maneuvers = date, frame, form, list(maneuvers)
    a.propagator = None
    a._extra = extra or None
    return a


class FrameStub:
    """frame with a centre body carrying symbolic mu (what forms / Infos / propagators read)"""
    def __init__(self, name="EME2000", mu=None, **body):
        self.name = name

        class _NS:
            pass
        self.center = _NS()
        self.center.name = "Earth"
        self.center.body = _NS()
        self.center.body.mu = self.center.body.µ = mu
        for k, v in body.items():
            setattr(self.center.body, k, v)

    def __str__(self):
        return self.name
