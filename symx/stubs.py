"""symx.stubs -- small typed stand-ins for beyond objects that the symbolic runs need (dates as real seconds,
duck-typed state carrier).  Each stub is listed in the evidence of the checks that use it."""
import numpy as np

from .core import R, SB, Dual


def _lift(x):
    return x if isinstance(x, (R, Dual)) else R.lift(x)


class SymTD:
    """timedelta stand-in: exact real seconds"""
    def __init__(self, secs):
        self.secs = _lift(secs)

    def total_seconds(self):
        return self.secs

    def __truediv__(self, k):
        if isinstance(k, SymTD):
            return self.secs / k.secs
        return SymTD(self.secs / k)

    def __mul__(self, k):
        return SymTD(self.secs * k)

    __rmul__ = __mul__

    def __neg__(self):
        return SymTD(-self.secs)

    def __add__(self, o):
        if isinstance(o, SymTD):
            return SymTD(self.secs + o.secs)
        return NotImplemented

    def __sub__(self, o):
        if isinstance(o, SymTD):
            return SymTD(self.secs - o.secs)
        return NotImplemented

    def __abs__(self):
        return SymTD(abs(self.secs))

    def _c(self, o, op):
        return op(self.secs, o.secs)

    def __lt__(self, o): return self._c(o, lambda a, b: a < b)
    def __le__(self, o): return self._c(o, lambda a, b: a <= b)
    def __gt__(self, o): return self._c(o, lambda a, b: a > b)
    def __ge__(self, o): return self._c(o, lambda a, b: a >= b)
    def __eq__(self, o): return self._c(o, lambda a, b: a == b) if isinstance(o, SymTD) else False
    def __hash__(self): return id(self)


class SymDate:
    """Date stand-in: instant as exact real seconds from an arbitrary origin (scale-free)"""
    def __init__(self, t):
        self.t = _lift(t)

    def __sub__(self, o):
        if isinstance(o, SymDate):
            return SymTD(self.t - o.t)
        if isinstance(o, SymTD):
            return SymDate(self.t - o.secs)
        return NotImplemented

    def __add__(self, o):
        if isinstance(o, SymTD):
            return SymDate(self.t + o.secs)
        return NotImplemented

    __radd__ = __add__

    def _c(self, o, op):
        return op(self.t, o.t)

    def __lt__(self, o): return self._c(o, lambda a, b: a < b)
    def __le__(self, o): return self._c(o, lambda a, b: a <= b)
    def __gt__(self, o): return self._c(o, lambda a, b: a > b)
    def __ge__(self, o): return self._c(o, lambda a, b: a >= b)
    def __eq__(self, o): return self._c(o, lambda a, b: a == b) if isinstance(o, SymDate) else False
    def __hash__(self): return id(self)

    def __repr__(self):
        return f"SymDate({self.t!r})"


class Carrier(np.ndarray):
    """object-dtype state array with the attributes beyond's functions read (date, frame, form, maneuvers ...)"""
    def __array_finalize__(self, obj):
        for k in ("date", "frame", "form", "maneuvers", "propagator", "_extra"):
            if not hasattr(self, k):
                setattr(self, k, getattr(obj, k, None))

    def copy(self, form=None, frame=None, same=False):
        new = np.ndarray.copy(self).view(type(self))
        for k in ("date", "frame", "form", "maneuvers", "propagator", "_extra"):
            setattr(new, k, getattr(self, k, None))
        if form is not None and self.form is not None and _name(form) != _name(self.form):
            conv = getattr(self, "_convert", None) or (self._extra or {}).get("convert")
            if conv is None:
                raise NotImplementedError(f"Carrier.copy(form={form}) from {self.form}")
            arr = conv(self, _name(self.form), _name(form))
            new = np.asarray(arr, dtype=object).view(type(self))
            for k in ("date", "frame", "maneuvers", "propagator", "_extra"):
                setattr(new, k, getattr(self, k, None))
            new.form = form
        return new


def _name(f):
    return getattr(f, "name", f)


def carrier(vals, date=None, frame=None, form="cartesian", maneuvers=(), **extra):
    a = np.empty(len(vals), dtype=object)
    a[:] = list(vals)
    a = a.view(Carrier)
    a.date, a.frame, a.form, a.maneuvers = date, frame, form, list(maneuvers)
    a.propagator = None
    a._extra = extra or None
    return a
