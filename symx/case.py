"""symx.case -- 'real function vs independently written reference' obligations over the R domain.

A Case names its symbolic inputs, a precondition, `run(env, v)` (calls the repository code) and `ref(env, v)` (the
oracle, written in the harness).  Symbolically both are executed on R values (forking on comparisons); one validity
query per output component and per path.  For replay the *same* run/ref are executed on floats with the unpatched
modules, so a counterexample is confirmed on the real code before it is reported.
"""
import importlib
import math

import numpy as np
import z3

from . import core, npx, solve
from .core import CTX, R, SB, Dual, PI, explore, neq


class Ang:
    """marks an output compared as an angle (through cos and sin)"""
    def __init__(self, v):
        self.v = v


class Mod2pi:
    """an output equal to the reference modulo 2 pi: symbolically the value *before* the code's `% 2 pi` is compared
    exactly (and the reduced value is in [0, 2 pi) by construction of the mod encoding); concretely compared as angles"""
    def __init__(self, v):
        self.v = v


class Holds:
    """an output that is a condition which must hold (symbolically an SB, concretely a bool); the reference side is ignored"""
    def __init__(self, c):
        self.c = c


class Env:
    def __init__(self, symbolic):
        self.symbolic = symbolic
        if symbolic:
            self.np = npx.NP()
            self.pi = PI
        else:
            self.np = np
            self.pi = math.pi
        for k in npx._FUNCS:
            setattr(self, k, getattr(self.np, k))

    def mod(self, name, **extra):
        if self.symbolic:
            return npx.load(name, extra or None)
        return importlib.import_module(name)

    def vec(self, *xs):
        return np.array(list(xs), dtype=object if self.symbolic else float)

    def const(self, x):
        return R.const(x) if self.symbolic else float(x)

    def frac(self, a, b):
        from fractions import Fraction
        return R.const(Fraction(a, b)) if self.symbolic else a / b


def angle_input(name, lo="0"):
    """angle atom with quadrant facts linking its value variable to (c, s); lo='0' -> [0,2pi), lo='-pi' -> (-pi,pi]"""
    a = R.angle(name)
    v = a.n
    c, s = CTX.atom(name)
    c, s = c.n, s.n
    P = core.PI_T
    if lo == "0":
        CTX.pre += [v >= 0, v < 2 * P,
                    z3.Implies(v < P, s >= 0), z3.Implies(v > P, s <= 0),
                    z3.Implies(v == 0, c == 1), z3.Implies(v == P, c == -1),
                    z3.Implies(z3.Or(2 * v < P, 2 * v > 3 * P), c > 0),
                    z3.Implies(z3.And(2 * v > P, 2 * v < 3 * P), c < 0),
                    z3.Implies(s == 0, z3.Or(v == 0, v == P)),
                    ]
    elif lo == "-pi":
        CTX.pre += [v > -P, v <= P,
                    z3.Implies(v > 0, s >= 0), z3.Implies(v < 0, s <= 0),
                    z3.Implies(v == 0, c == 1), z3.Implies(v == P, c == -1),
                    z3.Implies(z3.And(2 * v < P, 2 * v > -P), c > 0),
                    z3.Implies(z3.Or(2 * v > P, 2 * v < -P), c < 0),
                    z3.Implies(s == 0, z3.Or(v == 0, v == P)),
                    ]
    elif lo == "free":
        pass        # no range, hence no quadrant facts (angles that stand for times get the zero-angle fact, see `timeof`)
    else:
        raise ValueError(lo)
    return a


class Case:
    def __init__(self, name, inputs, run, ref, pre=None, timeout=60, tol=1e-6, signature=None, desc="",
                 maxpaths=64, hints=None, abs_tol=1e-9, maxdepth=None, extra_assumptions=None, use_nf=True, extra_points=None):
        self.use_nf = use_nf
        self.extra_points = extra_points or []
        self.maxdepth = maxdepth
        self.extra_assumptions = extra_assumptions
        self.name, self.inputs, self.run, self.ref, self.pre = name, inputs, run, ref, pre
        self.timeout, self.tol, self.desc, self.maxpaths, self.hints = timeout, tol, desc, maxpaths, hints
        self.signature = signature or name
        self.abs_tol = abs_tol

    # ---- symbolic side
    def _mk_inputs(self):
        v = {}
        timed = []
        for spec in self.inputs:
            name, kind = spec[0], spec[1]
            opts = spec[2] if len(spec) > 2 else {}
            if kind == "real":
                v[name] = core.var(name)
            elif kind == "pos":
                v[name] = core.var(name)
                CTX.pre.append(v[name].n > 0)
            elif kind == "int":
                v[name] = R.of(z3.ToReal(z3.Int(name)))
            elif kind == "angle":
                v[name] = angle_input(name, opts.get("lo", "0"))
            elif kind == "hyp":
                v[name] = R.hangle(name)
            elif kind == "timeof":
                # t such that rate*t is the angle atom opts['angle']
                th = v[opts["angle"]]
                rate = v[opts["rate"]]
                v[name] = th / rate
                # code under test decides on the *value* of times (t == 0, t < tm): the time 0 is the angle 0
                c_, s_ = CTX.atom(opts["angle"])
                CTX.pre.append(z3.Implies(th.n == 0, z3.And(c_.n == 1, s_.n == 0)))
                # ... and two equal times are the same angle (cos and sin are functions of the value)
                for th2, c2, s2 in timed:
                    CTX.pre.append(z3.Implies(th.n == th2.n, z3.And(c_.n == c2.n, s_.n == s2.n)))
                timed.append((th, c_, s_))
            else:
                raise ValueError(kind)
        return v

    def _setup(self):
        CTX.reduce = self.use_nf
        self._v = self._mk_inputs()
        if self.pre:
            for c in self.pre(self._v):
                CTX.assume(c)
        if self.hints:
            CTX.hints = list(self.hints(self._v))

    def var_names(self):
        out = []
        for spec in self.inputs:
            name, kind = spec[0], spec[1]
            if kind in ("real", "pos", "int"):
                out.append(name)
            elif kind == "angle":
                out += [f"c_{name}", f"s_{name}", f"val_{name}"]
            elif kind == "hyp":
                out += [f"ch_{name}", f"sh_{name}", f"val_{name}"]
        return out + ["PI"]

    def obligations(self):
        obs = []
        npaths = 0

        def body():
            env = Env(True)
            try:
                out = self.run(env, self._v)
            except (core.Infeasible, core.PathBound):
                raise
            except Exception as e:  # noqa -- the code under test (or the engine) raised on this path: decided by replay
                return ("__raised__", e), None
            return out, self.ref(env, self._v, out)

        core.BOUND_HITS[0] = 0
        for pc, (out, ref) in explore(body, maxpaths=self.maxpaths, setup=self._setup, maxdepth=self.maxdepth):
            npaths += 1
            if isinstance(out, tuple) and len(out) == 2 and out[0] == "__raised__":
                e = out[1]
                obs.append(solve.make_ob(f"{self.name}/p{npaths}/raises", [z3.BoolVal(True)], extra=pc, vars=self.var_names(),
                                         timeout=self.timeout, replay={"case": self.name, "component": "__raises__"},
                                         desc=f"{self.name}: the code raises {type(e).__name__}: {str(e)[:200]} on this path"))
                continue
            if self.extra_assumptions:
                pc = list(pc) + [c.t if isinstance(c, SB) else c for c in self.extra_assumptions(self._v, out)]
            comps = list(_components(out, ref))
            comps = [(cn, a if isinstance(a, Holds) else R.lift(a), b if isinstance(a, Holds) else R.lift(b), ia)
                     for cn, a, b, ia in comps]
            for cname, a, b, is_ang in comps:
                nm = f"{self.name}/p{npaths}/{cname}"
                rp = {"case": self.name, "component": cname}
                marks = []
                if isinstance(a, Holds):
                    goals = [z3.Not(a.c.t if isinstance(a.c, SB) else z3.BoolVal(bool(a.c)))]
                    nf = False
                elif is_ang:
                    m1, m2 = [], []
                    goals = [neq(a.cos(), b.cos(), mark=m1), neq(a.sin(), b.sin(), mark=m2)]
                    nf = all(bool(m) or z3.is_false(g) for m, g in zip((m1, m2), goals))
                else:
                    goals = [neq(a, b, mark=marks)]
                    nf = bool(marks)
                ob = solve.make_ob(nm, goals, extra=pc, vars=self.var_names(), timeout=self.timeout,
                                   desc=self.desc or f"{self.name}: code == reference on component {cname}",
                                   replay=rp)
                ob["nf_closed"] = bool(nf) and not ob.get("trivial")
                ob["pins"] = self._pins()
                obs.append(ob)
            over = []
            for cname, a, b, is_ang in comps:
                if isinstance(a, Holds):
                    over += [a.c.t] if isinstance(a.c, SB) else []
                else:
                    over += [neq(a.cos(), b.cos())] if is_ang else [neq(a, b)]
            tw = solve.twin(f"{self.name}/p{npaths}/twin", extra=pc, over=over, timeout=self.timeout)
            tw["pins"] = self._pins()          # a path condition found satisfiable under a partial concretisation is satisfiable
            obs.append(tw)
        return obs, {"paths": npaths, "log": CTX.log[-20:], "unwinding_bound_hits": core.BOUND_HITS[0]}

    def _pins(self):
        """counterexample-search heuristic for obligations the solver leaves undecided: partial concretisations of the real/int
        inputs (all but the last one or two), under which the query is re-asked; `sat` there is a genuine counterexample of the
        original obligation (and is replayed like any other), `unsat` there says nothing"""
        names = [(spec[0], spec[1]) for spec in self.inputs if spec[1] in ("real", "pos", "int")]
        if len(names) < 2:
            return []
        out = []
        for variant, free in ((0, 1), (1, 1), (2, 2)):
            pin = {}
            for i, (n, kind) in enumerate(names[:len(names) - free]):
                if kind == "int":
                    pin[n] = str(1 + (i + variant) % 3)
                else:
                    pin[n] = ["%d" % (i + 1), "%d/%d" % (7 * i + 3, 5), "%d/%d" % (13 * (i + 1) + i * i, 11)][variant]
            out.append(pin)
        return out

    # ---- concrete side
    def concrete_inputs(self, model):
        v = {}
        for spec in self.inputs:
            name, kind = spec[0], spec[1]
            opts = spec[2] if len(spec) > 2 else {}
            if kind == "int":
                v[name] = int(model.get(name, 0))
            elif kind in ("real", "pos"):
                v[name] = _f(model.get(name, 1.0 if kind == "pos" else 0.0))
            elif kind == "angle":
                c, s = _f(model.get(f"c_{name}", 1.0)), _f(model.get(f"s_{name}", 0.0))
                a = math.atan2(s, c)
                if opts.get("lo", "0") == "0":
                    a %= 2 * math.pi
                elif opts.get("lo") == "free" and f"val_{name}" in model:
                    # an unrestricted angle: its value (which orders the times derived from it) and its (cos, sin) point are
                    # independent in the encoding; the replay takes the value, so that the preconditions on times hold
                    a = _f(model[f"val_{name}"])
                v[name] = a
            elif kind == "hyp":
                v[name] = math.asinh(_f(model.get(f"sh_{name}", 0.0)))
            elif kind == "timeof":
                v[name] = v[opts["angle"]] / v[opts["rate"]]
        return v

    def replay(self, model, component=None):
        """run the real code on floats; reproduced iff the obligation's component differs from the reference beyond tol"""
        tried = []
        base = self.concrete_inputs(model)
        cands = [base]
        # secondary points (only consulted when the model point itself does not reproduce): perturbations
        for k in (1, 2, 3):
            p = dict(base)
            for i, (n, val) in enumerate(sorted(base.items())):
                if isinstance(val, float):
                    p[n] = val * (1 + 0.013 * k * (i + 1)) + (0.0007 * k * (i + 1) if abs(val) < 1e-12 else 0)
            for spec in self.inputs:
                if spec[1] == "timeof":
                    p[spec[0]] = p[spec[2]["angle"]] / p[spec[2]["rate"]]
            cands.append(p)
        for ep in self.extra_points:       # harness-supplied concrete points of the counterexample's class (consulted last)
            q = dict(base)
            q.update(ep)
            cands.append(q)
        for idx, v in enumerate(cands):
            env = Env(False)
            try:
                out = self.run(env, dict(v))
                ref = self.ref(env, dict(v), out)
            except Exception as e:  # noqa
                if component == "__raises__":
                    return {"reproduced": True, "signature": f"{self.signature}: raises {type(e).__name__}",
                            "detail": f"{self.name}: the real code raises {e!r} at {v}", "inputs": v}
                tried.append(f"point {idx}: exception {e!r}")
                continue
            if component == "__raises__":
                tried.append(f"point {idx}: no exception")
                continue
            bad = []
            for cname, a, b, is_ang in _components(out, ref):
                if component is not None and cname != component:
                    continue
                if isinstance(a, Holds):
                    if not a.c:
                        bad.append((cname, False, True))
                    continue
                a, b = float(a), float(b)
                if not (math.isfinite(a) and math.isfinite(b)):
                    if not (math.isnan(a) and math.isnan(b)):
                        bad.append((cname, a, b))
                    continue
                if is_ang:
                    d = abs((a - b + math.pi) % (2 * math.pi) - math.pi)
                    if d > 1e-7:
                        bad.append((cname, a, b))
                else:
                    if abs(a - b) > self.tol * max(abs(a), abs(b)) + self.abs_tol:
                        bad.append((cname, a, b))
            if bad:
                return {"reproduced": True, "signature": self.signature,
                        "detail": f"{self.name}: real code != reference at {v}: "
                                  + "; ".join(f"{c}: code={a!r} ref={b!r}" for c, a, b in bad[:4])
                                  + ("" if idx == 0 else f" (model point itself agreed; perturbed point {idx})"),
                        "inputs": v}
            tried.append(f"point {idx}: agree")
        return {"reproduced": False, "signature": self.signature, "detail": "; ".join(tried) + f" inputs={base}"}


def _f(x):
    if isinstance(x, list):
        return x[0] / x[1]
    return float(x)


def _components(out, ref):
    assert set(out) == set(ref), (sorted(out), sorted(ref))
    for k in out:
        yield from _comp1(k, out[k], ref[k])


def _comp1(k, a, b):
    if isinstance(a, Holds):
        yield k, a, b, False
        return
    if isinstance(a, (list, tuple)) or (isinstance(a, np.ndarray) and a.ndim > 0):
        a = a if isinstance(a, np.ndarray) else list(a)
        if isinstance(a, np.ndarray):
            b = np.asarray(b, dtype=object)
            assert a.shape == b.shape, (k, a.shape, b.shape)
            for idx in np.ndindex(a.shape):
                yield from _comp1(f"{k}{list(idx)}", a[idx], b[idx])
        else:
            b = list(b)
            assert len(a) == len(b), (k, len(a), len(b))
            for i, (x, y) in enumerate(zip(a, b)):
                yield from _comp1(f"{k}[{i}]", x, y)
        return
    if isinstance(a, Mod2pi):
        av = a.v
        bv = b.v if isinstance(b, (Mod2pi, Ang)) else b
        if isinstance(av, R):
            yield k, (av.pre if av.pre is not None else av), bv, False
        else:
            yield k, av, bv, True
        return
    is_ang = isinstance(a, Ang) or isinstance(b, Ang)
    a = a.v if isinstance(a, Ang) else a
    b = b.v if isinstance(b, (Ang, Mod2pi)) else b
    yield k, _unw(a), _unw(b), is_ang


def _unw(x):
    if isinstance(x, np.generic):
        return x.item()
    return x


def run_cases(cases):
    """group function body: obligations of several cases"""
    obs, info = [], {"paths": 0, "cases": []}
    for c in cases:
        o, i = c.obligations()
        obs += o
        info["paths"] += i["paths"]
        info["cases"].append({"case": c.name, "paths": i["paths"], "log": i["log"]})
    return obs, info


def replay_cases(cases, ob, model):
    name = ob["replay"]["case"]
    for c in cases:
        if c.name == name:
            return c.replay(model, ob["replay"].get("component"))
    return {"reproduced": False, "signature": "no-such-case", "detail": name}
