"""symx.poly -- sparse polynomial normal form modulo the defining equations of auxiliary variables.

Used by core.neq(): the numerator factors of (a - b) are expanded into sum-of-monomials form and every even power
of a root variable q (q^2 * d = n), every s^2 of a unit-circle atom (s^2 = 1 - c^2) and every sh^2 of a hyperbola atom
(sh^2 = ch^2 - 1) is rewritten.  If a factor reduces to the zero polynomial the goal `a != b` is unsatisfiable under the
definitions (sufficient, not necessary); otherwise the original goal goes to the solver unchanged.  This is an
encoder-level rewrite in the same spirit as z3's own `simplify`; obligations closed this way are counted separately
("discharged_by_normalisation") in the evidence.
"""
from fractions import Fraction as Fr

import z3


class TooBig(Exception):
    pass


LIMIT = 200000


def _mono_mul(a, b):
    if not a:
        return b
    if not b:
        return a
    d = dict(a)
    for v, e in b:
        d[v] = d.get(v, 0) + e
    return tuple(sorted(d.items()))


class P:
    """polynomial: dict monomial -> Fraction; monomial = tuple of (varname, exp) sorted"""
    __slots__ = ("t",)

    def __init__(self, t=None):
        self.t = t or {}

    @staticmethod
    def const(c):
        c = Fr(c)
        return P({(): c}) if c else P()

    @staticmethod
    def var(name):
        return P({((name, 1),): Fr(1)})

    def __add__(self, o):
        d = dict(self.t)
        for m, c in o.t.items():
            n = d.get(m, 0) + c
            if n:
                d[m] = n
            else:
                d.pop(m, None)
        return P(d)

    def __neg__(self):
        return P({m: -c for m, c in self.t.items()})

    def __sub__(self, o):
        return self + (-o)

    def __mul__(self, o):
        if len(self.t) * len(o.t) > LIMIT * 20:
            raise TooBig()
        d = {}
        for m1, c1 in self.t.items():
            for m2, c2 in o.t.items():
                m = _mono_mul(m1, m2)
                n = d.get(m, 0) + c1 * c2
                if n:
                    d[m] = n
                else:
                    d.pop(m, None)
        if len(d) > LIMIT:
            raise TooBig()
        return P(d)

    def scale(self, c):
        return P({m: k * c for m, k in self.t.items()}) if c else P()

    def __pow__(self, k):
        r = P.const(1)
        for _ in range(k):
            r = r * self
        return r

    def is_zero(self):
        return not self.t

    def vars(self):
        return {v for m in self.t for v, _ in m}

    def split(self, name):
        """coefficients by power of variable `name`: dict k -> P"""
        out = {}
        for m, c in self.t.items():
            k = 0
            rest = []
            for v, e in m:
                if v == name:
                    k = e
                else:
                    rest.append((v, e))
            out.setdefault(k, {})[tuple(rest)] = c
        return {k: P(d) for k, d in out.items()}


def to_poly(t, cache=None):
    cache = {} if cache is None else cache
    i = t.get_id()
    if i in cache:
        return cache[i]
    if z3.is_rational_value(t):
        r = P.const(t.as_fraction())
    elif z3.is_const(t) and t.decl().kind() == z3.Z3_OP_UNINTERPRETED:
        r = P.var(str(t))
    else:
        k = t.decl().kind()
        ch = t.children()
        if k == z3.Z3_OP_ADD:
            r = P()
            for c in ch:
                r = r + to_poly(c, cache)
        elif k == z3.Z3_OP_SUB:
            r = to_poly(ch[0], cache)
            for c in ch[1:]:
                r = r - to_poly(c, cache)
        elif k == z3.Z3_OP_UMINUS:
            r = -to_poly(ch[0], cache)
        elif k == z3.Z3_OP_MUL:
            r = P.const(1)
            for c in ch:
                r = r * to_poly(c, cache)
        elif k == z3.Z3_OP_POWER and z3.is_rational_value(ch[1]) and ch[1].as_fraction().denominator == 1 \
                and ch[1].as_fraction() >= 0:
            r = to_poly(ch[0], cache) ** int(ch[1].as_fraction())
        elif k == z3.Z3_OP_DIV and z3.is_rational_value(ch[1]):
            r = to_poly(ch[0], cache).scale(1 / ch[1].as_fraction())
        elif k == z3.Z3_OP_TO_REAL:
            r = to_poly(ch[0], cache)
        else:
            raise TooBig()  # not a polynomial (uninterpreted function application, ite, ...): no reduction
    cache[i] = r
    return r


def reduce_var(p, name, k, num, den):
    """rewrite powers >= k of variable `name` using  name^k * den = num   (multiplying p by a power of den)"""
    parts = p.split(name)
    if not parts or max(parts) < k:
        return p
    K = max(parts) // k
    out = P()
    for e, coef in parts.items():
        j, r = divmod(e, k)
        term = coef * (num ** j) * (den ** (K - j))
        if r:
            term = term * (P.var(name) ** r)
        out = out + term
    return out


def normal_form(p, rules):
    """rules: list of (name, k, num P, den P) applied repeatedly, latest-defined first, until no power >= k remains"""
    for _ in range(50):
        changed = False
        for name, k, num, den in rules:
            vs = p.vars()
            if name not in vs:
                continue
            q = reduce_var(p, name, k, num, den)
            if q is not p:
                p = q
                changed = True
        if not changed:
            return p
        if p.is_zero():
            return p
    return p
