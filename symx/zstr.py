"""symx.zstr -- Z domain for text: symbolic characters (code points as z3 Int), strings of concrete length with symbolic
content and per-character presence (so that deletion by str.translate keeps positions), and symbolic integers.

The repository's string code runs unchanged on these (slicing, translate, replace, strip, startswith, iteration, comparison);
the *interpreting* builtins `int`, `str`, `len`, `sum` are supplied as module-global replacements (`install(module)`).
Branches fork through core.SB under the explore() driver.
"""
import z3

from .core import SB, CTX


def _c(x):
    return x if z3.is_expr(x) else z3.IntVal(x)


class SymInt:
    """symbolic integer; `parts`/`modulus` remember a sum-of-summands (mod m) structure for compositional obligations"""
    def __init__(self, t, parts=None, modulus=None):
        self.t = _c(t)
        self.parts = parts if parts is not None else [self.t]
        self.modulus = modulus

    def _b(self, o, f):
        if isinstance(o, SymInt):
            return SymInt(f(self.t, o.t))
        if isinstance(o, int):
            return SymInt(f(self.t, z3.IntVal(o)))
        return NotImplemented

    def __add__(self, o):
        if self.modulus is None:
            if isinstance(o, SymInt) and o.modulus is None:
                return SymInt(self.t + o.t, self.parts + o.parts)
            if isinstance(o, int):
                return SymInt(self.t + o, self.parts + ([z3.IntVal(o)] if o else []))
        return self._b(o, lambda a, b: a + b)

    def __radd__(self, o):
        if self.modulus is None and isinstance(o, int):
            return SymInt(o + self.t, ([z3.IntVal(o)] if o else []) + self.parts)
        return self._b(o, lambda a, b: b + a)
    def __sub__(self, o): return self._b(o, lambda a, b: a - b)
    def __rsub__(self, o): return self._b(o, lambda a, b: b - a)
    def __mul__(self, o): return self._b(o, lambda a, b: a * b)
    __rmul__ = __mul__
    def __mod__(self, o):
        if isinstance(o, int) and self.modulus is None:
            return SymInt(self.t % o, self.parts, o)
        return self._b(o, lambda a, b: a % b)
    def __floordiv__(self, o): return self._b(o, lambda a, b: a / b)

    def _cmp(self, o, f):
        if isinstance(o, SymInt):
            return SB(f(self.t, o.t))
        if isinstance(o, int):
            return SB(f(self.t, z3.IntVal(o)))
        return NotImplemented

    def __eq__(self, o): return self._cmp(o, lambda a, b: a == b)
    def __ne__(self, o): return self._cmp(o, lambda a, b: a != b)
    def __lt__(self, o): return self._cmp(o, lambda a, b: a < b)
    def __le__(self, o): return self._cmp(o, lambda a, b: a <= b)
    def __gt__(self, o): return self._cmp(o, lambda a, b: a > b)
    def __ge__(self, o): return self._cmp(o, lambda a, b: a >= b)
    def __hash__(self): return id(self)


class SymChar:
    """one character: code point term + presence (False after deletion by translate)"""
    def __init__(self, code, present=None):
        self.code = _c(code)
        self.present = z3.BoolVal(True) if present is None else present

    def is_digit(self):
        return z3.And(self.code >= 48, self.code <= 57)


class SymStr:
    def __init__(self, chars):
        self.chars = list(chars)

    @staticmethod
    def fresh(name, n, alphabet=None):
        cs = []
        for i in range(n):
            v = z3.Int(f"{name}_{i}")
            if alphabet is not None:
                CTX.pre.append(z3.Or([v == ord(a) for a in alphabet]) if len(alphabet) < 8 else _in_alphabet(v, alphabet))
            cs.append(SymChar(v))
        return SymStr(cs)

    @staticmethod
    def lit(s):
        return SymStr([SymChar(ord(c)) for c in s])

    def __len__(self):
        # only defined when no character has been deleted symbolically
        assert all(z3.is_true(c.present) for c in self.chars), "len() of a string with symbolically deleted characters"
        return len(self.chars)

    def __getitem__(self, k):
        assert all(z3.is_true(c.present) for c in self.chars), "indexing after symbolic deletion"
        if isinstance(k, slice):
            return SymStr(self.chars[k])
        return SymStr([self.chars[k]])

    def __iter__(self):
        for c in self.chars:
            yield SymStr([c])

    def __add__(self, o):
        o = o if isinstance(o, SymStr) else SymStr.lit(o)
        return SymStr(self.chars + o.chars)

    def __radd__(self, o):
        return SymStr.lit(o) + self

    def translate(self, table):
        dele = [k for k, v in table.items() if v is None]
        assert len(dele) == len(table), "only deleting translation tables are modelled"
        out = []
        for c in self.chars:
            hit = z3.Or([c.code == k for k in dele]) if dele else z3.BoolVal(False)
            out.append(SymChar(c.code, z3.And(c.present, z3.Not(hit))))
        return SymStr(out)

    def replace(self, a, b):
        assert len(a) == 1 and len(b) == 1, "only single-character replacement is modelled"
        return SymStr([SymChar(z3.If(c.code == ord(a), z3.IntVal(ord(b)), c.code), c.present) for c in self.chars])

    def _strip(self, left, right):
        s = self
        while left and s.chars and z3.is_true(s.chars[0].present) and bool(SB(_is_space(s.chars[0].code))):
            s = SymStr(s.chars[1:])
        while right and s.chars and z3.is_true(s.chars[-1].present) and bool(SB(_is_space(s.chars[-1].code))):
            s = SymStr(s.chars[:-1])
        return s

    def strip(self): return self._strip(True, True)
    def lstrip(self): return self._strip(True, False)
    def rstrip(self): return self._strip(False, True)

    def startswith(self, p):
        if len(self.chars) < len(p):
            return False
        return bool(SB(z3.And([self.chars[i].code == ord(ch) for i, ch in enumerate(p)])))

    def eq_term(self, o):
        o = o if isinstance(o, SymStr) else SymStr.lit(o)
        if len(self.chars) != len(o.chars):
            return z3.BoolVal(False)
        return z3.And([a.code == b.code for a, b in zip(self.chars, o.chars)] + [z3.BoolVal(True)])

    def __eq__(self, o):
        if isinstance(o, (SymStr, str)):
            return SB(self.eq_term(o))
        return False

    def __ne__(self, o):
        if isinstance(o, (SymStr, str)):
            return SB(z3.Not(self.eq_term(o)))
        return True

    def __hash__(self):
        return id(self)

    def concrete(self, model):
        return "".join(chr(int(model.get(str(c.code), 63))) if z3.is_const(c.code) and not z3.is_int_value(c.code)
                       else chr(c.code.as_long()) for c in self.chars)


def _is_space(code):
    return z3.Or(code == 32, code == 9, code == 10, code == 13)


def _in_alphabet(v, alphabet):
    codes = sorted(ord(a) for a in alphabet)
    # ranges
    rs = []
    start = prev = codes[0]
    for c in codes[1:]:
        if c == prev + 1:
            prev = c
            continue
        rs.append((start, prev))
        start = prev = c
    rs.append((start, prev))
    return z3.Or([z3.And(v >= a, v <= b) if a != b else v == a for a, b in rs])


# ---- interpreting builtins (installed as module globals of the code under test)
def sym_int(x, *a):
    if isinstance(x, SymStr):
        assert len(x.chars) == 1, "int() of multi-character symbolic strings is not modelled here"
        c = x.chars[0]
        # a present character must be a digit, else ValueError (as the real int would raise)
        ok = z3.Or(z3.Not(c.present), c.is_digit())
        if not SB(ok):
            raise ValueError("invalid literal for int()")
        return SymInt(z3.If(c.present, c.code - 48, 0))
    if isinstance(x, SymInt):
        return x
    return int(x, *a)


def sym_str(x):
    if isinstance(x, SymInt):
        # decimal rendering of a value known to be a single digit (checked)
        if not SB(z3.And(x.t >= 0, x.t <= 9)):
            raise NotImplementedError("str() of a symbolic integer outside 0..9")
        return SymStr([SymChar(x.t + 48)])
    if isinstance(x, SymStr):
        return x
    return str(x)


def sym_sum(xs, start=0):
    tot = start
    for x in xs:
        tot = tot + x
    return tot


def sym_len(x):
    return len(x)


def install(mod):
    mod.int = sym_int
    mod.str = sym_str
    mod.sum = sym_sum
