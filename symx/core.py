"""symx.core -- symbolic scalar domain R (exact reals with symbolic angles), context, forking driver.

A scalar is  coef * prod(factor^e)  with integer exponents (negative = denominator); factors are z3 real
terms.  Angles carry an additional *angle view*: an integer/rational combination of named angle atoms plus a
rational multiple of pi.  cos/sin of an angle view expand by the addition formulas over the atoms' (c, s)
variables, which satisfy c^2+s^2 = 1.  sqrt and rational powers introduce one non-negative auxiliary root
each.  Nothing here knows about beyond: the repository's functions are executed on these values through the
real numpy (object dtype), see symx.npx.
"""
import math
import re
import time
from fractions import Fraction as Fr

import numpy as np
import z3


# --------------------------------------------------------------------------- context
class Ctx:
    def __init__(self):
        self.reset()

    def reset(self):
        self.cons = []        # defining constraints of auxiliary variables / atoms
        self.n = 0
        self.atoms = {}       # name -> (R cos, R sin)
        self.nz = {}          # key -> term assumed non-zero (denominators)
        self.roots = {}
        self.hints = []       # candidate closed forms for roots (proved before use)
        self.pre = []         # precondition (z3 constraints)
        self.products = {}    # frozenset((key, e)) -> angle R (e.g. n*t registered as an angle)
        self.signcache = {}
        self.log = []         # notes for the evidence file (hints used, signs proved ...)
        self.ufs = {}
        self.hyp = {}         # key(value term) -> (R cosh, R sinh)
        self.rules = []       # rewrite rules (name, k, num term, den term): name^k * den = num
        self.reduce = True
        self.hint_timeout = 8000
        self.nf_closed = 0
        self.nfcache = {}
        self.defines = {}     # constraint id -> explicit set of variable names it defines (for slicing)
        self.inner_queries = 0
        self.inner_time = 0.0
        # forking driver state
        self.prefix = []
        self.trace = []
        self.pc = []
        self.forking = False
        self.maxdepth = None

    def fresh(self, p="t"):
        self.n += 1
        return z3.Real(f"{p}!{self.n}")

    def fresh_int(self, p="k"):
        self.n += 1
        return z3.Int(f"{p}!{self.n}")

    def atom(self, name):
        if name not in self.atoms:
            c, s = z3.Real(f"c_{name}"), z3.Real(f"s_{name}")
            self.atoms[name] = (R.of(c), R.of(s))
            con = c * c + s * s == 1
            self.cons.append(con)
            self.defines[con.get_id()] = {str(c), str(s)}
            self.rules.append((str(s), 2, 1 - c * c, z3.RealVal(1)))
        return self.atoms[name]

    def assume(self, *cs):
        for c in cs:
            if isinstance(c, SB):
                c = c.t
            self.pre.append(c)


CTX = Ctx()


def key(t):
    return t.get_id()


def _fr(x):
    if isinstance(x, np.generic):
        x = x.item()
    if isinstance(x, bool):
        raise TypeError("bool in arithmetic")
    if isinstance(x, (int, Fr)):
        return Fr(x)
    if isinstance(x, float):
        # a float met by the symbolic run is a literal / constant of the source: read it as the decimal it denotes
        # (32.184, 1e-6, 86400.0 ...) -- the exact-real model of the arithmetic the code intends
        if x != x or abs(x) == float("inf"):
            return Fr(x)
        # ... or the simple fraction it was computed from in the source (-2 / 3, 1 / 6, 3 / 32 ...)
        cand = Fr(x).limit_denominator(10 ** 7)
        if x != 0 and abs(cand - Fr(x)) <= abs(Fr(x)) * Fr(1, 2 ** 51) and cand.denominator < 10 ** 5 and \
                Fr(repr(x)).denominator > 10 ** 12:
            return cand
        return Fr(repr(x))
    raise TypeError(type(x))


def _rv(c):
    return z3.RealVal(str(c)) if c.denominator == 1 else z3.RealVal(c.numerator) / z3.RealVal(c.denominator)


PI_T = z3.Real("PI")
PI_BOUNDS = [PI_T > z3.RealVal("3.14"), PI_T < z3.RealVal("3.15")]


# --------------------------------------------------------------------------- symbolic bool
class SB:
    """symbolic truth value; bool() forks under the driver"""
    __slots__ = ("t",)

    def __init__(self, t):
        self.t = t

    def __bool__(self):
        d = CTX
        t = z3.simplify(self.t)
        if z3.is_true(t):
            return True
        if z3.is_false(t):
            return False
        if not d.forking:
            raise RuntimeError("symbolic branch outside explore(): " + str(self.t)[:200])
        i = len(d.trace)
        if d.maxdepth is not None and i >= d.maxdepth:
            raise DepthBound()
        if i < len(d.prefix):
            v = d.prefix[i]
        else:
            v = _feasible(d.pc + [self.t])
            if not v:
                # the True side is infeasible: take False (must be feasible since path is)
                pass
        d.trace.append(v)
        d.pc.append(self.t if v else z3.Not(self.t))
        return v

    def __index__(self):
        return 1 if bool(self) else 0

    def __and__(self, o):
        return SB(z3.And(self.t, _sbt(o)))

    __rand__ = __and__

    def __or__(self, o):
        return SB(z3.Or(self.t, _sbt(o)))

    __ror__ = __or__

    def __invert__(self):
        return SB(z3.Not(self.t))

    def __repr__(self):
        return f"SB({str(self.t)[:80]})"


def _sbt(o):
    if isinstance(o, SB):
        return o.t
    if isinstance(o, (bool, np.bool_)):
        return z3.BoolVal(bool(o))
    if z3.is_expr(o):
        return o
    raise TypeError(type(o))


def _feasible(extra, timeout=10000):
    so = z3.Solver()
    so.set("timeout", timeout)
    goals = list(extra)
    for c in sliced(goals, CTX.pre) + list(CTX.pre):
        so.add(c)
    for c in goals:
        so.add(c)
    t0 = time.time()
    r = str(so.check())
    CTX.inner_queries += 1
    CTX.inner_time += time.time() - t0
    return r != "unsat"


class PathBound(Exception):
    pass


class Infeasible(Exception):
    """raised by harness code to abandon a path (e.g. an `assume` that cannot hold)"""


class DepthBound(Infeasible):
    """the unwinding limit (number of symbolic decisions on one path) was reached: path abandoned and *counted*"""


BOUND_HITS = [0]


def explore(fn, maxpaths=2000, setup=None, maxdepth=None):
    """Run fn() once per feasible path (DFS over SB decisions).  Yields (path_condition, result, ctx_snapshot).
    CTX is reset before every run; `setup()` is called after the reset (declare preconditions there)."""
    stack = [[]]
    n = 0
    while stack:
        prefix = stack.pop()
        CTX.reset()
        CTX.prefix = prefix
        CTX.forking = True
        CTX.maxdepth = maxdepth
        if setup:
            setup()
        try:
            res = fn()
            ok = True
        except DepthBound:
            BOUND_HITS[0] += 1
            ok = False
            res = None
        except Infeasible:
            ok = False
            res = None
        CTX.forking = False
        n += 1
        trace, pc = list(CTX.trace), list(CTX.pc)
        for i in range(len(prefix), len(trace)):
            alt_c = z3.Not(pc[i]) if True else None
            if _feasible(pc[:i] + [alt_c]):
                stack.append(trace[:i] + [not trace[i]])
        if ok:
            yield pc, res
        if n >= maxpaths:
            raise PathBound(f"more than {maxpaths} paths")


# --------------------------------------------------------------------------- scalar
class R:
    __slots__ = ("coef", "f", "lin", "rad", "_abs", "pre")

    def __init__(self, coef, f, lin=None):
        self.coef, self.f, self.lin, self.rad, self.pre = coef, f, lin, None, None

    # ---- construction
    @staticmethod
    def of(t):
        if z3.is_rational_value(t):
            return R(t.as_fraction(), {})
        return R(Fr(1), {key(t): (t, 1)})

    @staticmethod
    def const(x):
        return R(_fr(x), {})

    @staticmethod
    def lift(x):
        if isinstance(x, R):
            return x
        r = getattr(x, "r", None)
        if isinstance(r, R):          # dtmodel.SF / SI wrappers
            return r
        return R.const(x)

    @staticmethod
    def angle(name):
        CTX.atom(name)
        r = R.of(z3.Real(f"val_{name}"))
        r.lin = ({name: Fr(1)}, Fr(0), None)
        return r

    # ---- term views
    def num_den(s):
        n = z3.RealVal(s.coef.numerator)
        d = z3.RealVal(s.coef.denominator)
        for t, e in s.f.values():
            for _ in range(abs(e)):
                if e > 0:
                    n = n * t
                else:
                    d = d * t
        return z3.simplify(n), z3.simplify(d)

    @property
    def n(s):
        return s.num_den()[0]

    @property
    def d(s):
        return s.num_den()[1]

    def term(s):
        """z3 term of the value (with division)"""
        n, d = s.num_den()
        if z3.is_rational_value(d) and d.as_fraction() == 1:
            return n
        return n / d

    def is_const(s):
        return not s.f

    def sign_term(s):
        """a z3 term with the same sign as the value (denominators assumed non-zero)"""
        sg = 1 if s.coef > 0 else (-1 if s.coef < 0 else 0)
        t = None
        for tt, e in s.f.values():
            if e % 2:
                if e < 0:
                    ps = proved_sign(tt)      # denominators of proved sign do not enter the comparison
                    if ps:
                        sg *= ps
                        continue
                t = tt if t is None else t * tt
            elif e > 0:
                # an even power in the numerator is >= 0 but may vanish: keep a square (denominators are non-zero)
                t = tt * tt if t is None else t * tt * tt
        if t is None:
            return z3.RealVal(sg)
        return z3.simplify(t if sg == 1 else z3.RealVal(sg) * t)

    # ---- arithmetic
    def __mul__(s, o):
        if isinstance(o, np.ndarray):
            return NotImplemented
        if isinstance(o, Dual):
            return NotImplemented
        o = R.lift(o)
        if s.rad is not None and o.rad is not None and s.f.keys() == o.f.keys() and s.coef == o.coef == 1:
            return s.rad
        f = dict(s.f)
        for k, (t, e) in o.f.items():
            if k in f:
                ne = f[k][1] + e
                if ne == 0:
                    del f[k]
                else:
                    f[k] = (t, ne)
            else:
                f[k] = (t, e)
        lin = None
        if s.lin is not None and o.lin is None:
            lin = s._scale(o)
        elif o.lin is not None and s.lin is None:
            lin = o._scale(s)
        elif s.lin is not None and o.lin is not None:
            # angle * (pure multiple of pi): pi acts as a plain factor (degrees <-> radians conversions)
            if not o.lin[0] and o.lin[2] is None:
                lin = s._scale(R(o.coef, dict(o.f)))
            elif not s.lin[0] and s.lin[2] is None:
                lin = o._scale(R(s.coef, dict(s.f)))
        c = s.coef * o.coef
        if c == 0:
            return R(Fr(0), {})
        return R(c, f, lin)

    __rmul__ = __mul__

    def inv(s):
        if s.coef == 0:
            raise ZeroDivisionError("symbolic division by constant 0")
        for t, e in s.f.values():
            if e > 0:
                CTX.nz[key(t)] = t
        return R(1 / s.coef, {k: (t, -e) for k, (t, e) in s.f.items()})

    def __truediv__(s, o):
        if isinstance(o, (np.ndarray, Dual)):
            return NotImplemented
        o = R.lift(o)
        return s * o.inv()

    def __rtruediv__(s, o):
        if isinstance(o, (np.ndarray, Dual)):
            return NotImplemented
        return R.lift(o) * s.inv()

    def __neg__(s):
        return R(-s.coef, dict(s.f), s._scale(R(Fr(-1), {})))

    def __pos__(s):
        return s

    # angle view: value = scale * (sum k_i*theta_i + p*pi); lin = (dict, p, scale) with scale an R or None (= 1)
    def _scale(s, k):
        """angle view of s*k (k an R without angle view)"""
        if s.lin is None:
            return None
        d, p, sc = s.lin
        if not k.f:
            if sc is None:
                return ({a: v * k.coef for a, v in d.items()}, p * k.coef, None)
            return ({a: v * k.coef for a, v in d.items()}, p * k.coef, sc)
        nsc = k if sc is None else sc * R(k.coef, k.f)
        nsc = R(nsc.coef, nsc.f)
        if not nsc.f:
            return ({a: v * nsc.coef for a, v in d.items()}, p * nsc.coef, None)
        if nsc.coef != 1:
            d = {a: v * nsc.coef for a, v in d.items()}
            p = p * nsc.coef
            nsc = R(Fr(1), nsc.f)
        return (d, p, nsc)

    def _comb(s, o, sign):
        if s.lin is None or o.lin is None:
            return None
        sa, sb = s.lin[2], o.lin[2]
        if (sa is None) != (sb is None):
            return None
        if sa is not None and not (sa.coef == sb.coef and {k: e for k, (t, e) in sa.f.items()} == {k: e for k, (t, e) in sb.f.items()}):
            return None
        d = dict(s.lin[0])
        for k, v in o.lin[0].items():
            d[k] = d.get(k, 0) + sign * v
            if d[k] == 0:
                del d[k]
        return (d, s.lin[1] + sign * o.lin[1], sa)

    def __add__(s, o, sign=1):
        if isinstance(o, (np.ndarray, Dual)):
            return NotImplemented
        o = R.lift(o)
        lin = s._comb(o, sign)
        if s.coef == 0:
            return R(o.coef * sign, dict(o.f), o._scale(R(Fr(sign), {})))
        if o.coef == 0:
            return R(s.coef, dict(s.f), s.lin)
        keys = set(s.f) | set(o.f)
        common, ra, rb = {}, {}, {}
        for k in keys:
            ta, ea = s.f.get(k, (None, 0))
            tb, eb = o.f.get(k, (None, 0))
            t = ta if ta is not None else tb
            m = min(ea, eb)
            if m != 0:
                common[k] = (t, m)
            if ea - m:
                ra[k] = (t, ea - m)
            if eb - m:
                rb[k] = (t, eb - m)

        def prod(c, fs):
            out = None if c == 1 else _rv(c)
            for tt, e in fs.values():
                for _ in range(e):
                    out = tt if out is None else out * tt
            return z3.RealVal(1) if out is None else out

        if not ra and not rb:
            c = s.coef + sign * o.coef
            return R(c, common, lin) if c != 0 else R(Fr(0), {})
        ssum = z3.simplify(prod(s.coef, ra) + prod(o.coef * sign, rb))
        if z3.is_rational_value(ssum):
            c = ssum.as_fraction()
            return R(c, common, lin) if c != 0 else R(Fr(0), {})
        # normalise the leading sign/constant so that a-b and b-a share the same factor where z3 makes it visible
        f = dict(common)
        k = key(ssum)
        if k in f:
            ne = f[k][1] + 1
            if ne:
                f[k] = (ssum, ne)
            else:
                del f[k]
        else:
            f[k] = (ssum, 1)
        return R(Fr(1), f, lin)

    def __radd__(s, o):
        if isinstance(o, (np.ndarray, Dual)):
            return NotImplemented
        return s.__add__(o)

    def __sub__(s, o):
        if isinstance(o, (np.ndarray, Dual)):
            return NotImplemented
        return s.__add__(o, -1)

    def __rsub__(s, o):
        if isinstance(o, (np.ndarray, Dual)):
            return NotImplemented
        return (-s).__add__(o)

    def __pow__(s, k):
        if isinstance(k, R):
            if k.f:
                raise NotImplementedError("symbolic exponent")
            k = k.coef
        if isinstance(k, np.generic):
            k = k.item()
        if isinstance(k, float):
            k = Fr(k).limit_denominator(1000)
        if isinstance(k, Fr) and k.denominator == 1:
            k = int(k)
        if isinstance(k, int):
            if k == 0:
                return R.const(1)
            if k == 2 and s.rad is not None and s.coef == 1:
                return s.rad
            if k < 0:
                return (s ** (-k)).inv()
            r = R.const(1)
            for _ in range(k):
                r = r * s
            return r
        if isinstance(k, Fr):
            if k.denominator == 2:
                return s.sqrt() ** k.numerator
            return s.root(k.denominator) ** k.numerator
        raise NotImplementedError(k)

    def __rpow__(s, base):
        raise NotImplementedError("symbolic exponent")

    def __mod__(s, o):
        o = R.lift(o)
        if o.lin is not None and o.lin[0] == {} and o.lin[2] is None and s.lin is not None and s.lin[2] is None:
            # angle % (k*pi): identity on the angle view (cos/sin unchanged when k is even)
            if (o.lin[1] / 2).denominator != 1:
                raise NotImplementedError("angle % odd multiple of pi")
            r = R.of(CTX.fresh("mod"))
            r.lin = s.lin
            r.pre = s
            m = o.term()
            CTX.cons += [r.n >= 0, r.n < m]
            return r
        return real_mod(s, o)

    def __rmod__(s, o):
        return R.lift(o).__mod__(s)

    def __abs__(s):
        if s >= 0:
            return s
        return -s

    def __float__(s):
        if not s.f:
            return float(s.coef)
        raise TypeError("float() of a symbolic value")

    INT_RANGE = 8

    def __int__(s):
        """int() truncates towards zero: concretised by forking over the values 0, +-1, ..., +-INT_RANGE (beyond that the path
        is cut and counted as an unwinding-bound hit)"""
        if not s.f:
            return int(s.coef)
        if not CTX.forking:
            raise TypeError("int() of a symbolic value outside explore()")
        if s >= 0:
            for k in range(R.INT_RANGE + 1):
                if s < k + 1:
                    return k
        else:
            for k in range(R.INT_RANGE + 1):
                if s > -(k + 1):
                    return -k
        raise DepthBound(f"int() of a symbolic value beyond +-{R.INT_RANGE}")

    def __hash__(s):
        return id(s)

    # ---- comparisons (fork)
    def _cmp(s, o, op):
        if isinstance(o, (np.ndarray, Dual)):
            return NotImplemented
        try:
            o = R.lift(o)
        except TypeError:
            return NotImplemented
        d = s - o
        if not d.f:
            return SB(z3.BoolVal(bool(op(d.coef, 0))))
        return SB(op(d.sign_term(), 0))

    def __lt__(s, o):
        return s._cmp(o, lambda a, b: a < b)

    def __le__(s, o):
        return s._cmp(o, lambda a, b: a <= b)

    def __gt__(s, o):
        return s._cmp(o, lambda a, b: a > b)

    def __ge__(s, o):
        return s._cmp(o, lambda a, b: a >= b)

    def __eq__(s, o):
        if o is None or isinstance(o, str):
            return False
        return s._cmp(o, lambda a, b: a == b)

    def __ne__(s, o):
        if o is None or isinstance(o, str):
            return True
        return s._cmp(o, lambda a, b: a != b)

    # ---- roots
    def sqrt(s):
        if not s.f:
            c = s.coef
            if c < 0:
                raise ValueError("sqrt of negative constant")
            rn, rd = math.isqrt(c.numerator), math.isqrt(c.denominator)
            if rn * rn == c.numerator and rd * rd == c.denominator:
                return R(Fr(rn, rd), {})
        for cand in CTX.hints:
            if _hint_ok(cand, s):
                CTX.log.append("sqrt hint proved and used: " + _short(cand))
                return cand
        out, rest = {}, {}
        sgn = 1
        for k, (t, e) in s.f.items():
            q, r = divmod(e, 2)
            sg = proved_sign(t) if q else 0
            if q and sg != 0:
                out[k] = (t, q)
                if sg < 0 and q % 2:
                    sgn = -sgn
                if r:
                    rest[k] = (t, 1)
            else:
                rest[k] = (t, e)
        # constant part: pull perfect squares
        c = s.coef
        cn, cd = math.isqrt(abs(c.numerator)), math.isqrt(c.denominator)
        if c > 0 and cn * cn == c.numerator and cd * cd == c.denominator:
            outer = R(Fr(sgn) * Fr(cn, cd), out)
            inner = R(Fr(1), rest)
        else:
            outer = R(Fr(sgn), out)
            inner = R(c, rest)
        if not inner.f and inner.coef == 1:
            return outer
        n, d = inner.num_den()
        kk = z3.simplify(n * z3.Real("__k1") - d * z3.Real("__k2"), som=True).sexpr()
        if kk in CTX.roots:
            return outer * CTX.roots[kk]
        r = None
        if out:
            for cand in CTX.hints:
                if _hint_ok(cand, inner):
                    CTX.log.append("sqrt hint proved and used (inner): " + _short(cand))
                    r = cand
                    break
        if r is None:
            q = CTX.fresh("sq")
            CTX.cons.append(q * q * d == n)
            CTX.cons.append(q >= 0)
            CTX.rules.append((str(q), 2, n, d))
            r = R.of(q)
            r.rad = inner
        CTX.roots[kk] = r
        return outer * r

    def root(s, k):
        """non-negative k-th root of a non-negative value"""
        n, d = s.num_den()
        kk = f"root{k}:" + z3.simplify(n * z3.Real("__k1") - d * z3.Real("__k2"), som=True).sexpr()
        if kk in CTX.roots:
            return CTX.roots[kk]
        q = CTX.fresh(f"rt{k}")
        p = q
        for _ in range(k - 1):
            p = p * q
        CTX.cons.append(p * d == n)
        CTX.cons.append(q >= 0)
        CTX.rules.append((str(q), k, n, d))
        r = R.of(q)
        CTX.roots[kk] = r
        return r

    def cbrt(s):
        return s.root(3)

    # ---- trig on angle views
    def _cs(s):
        if s.lin is None:
            if not s.f and s.coef == 0:
                return R.const(1), R.const(0)
            return opaque_atom(s)
        d, p, sc = s.lin
        if sc is not None:
            return opaque_atom(s)
        q = p * 2
        if q.denominator != 1:
            raise NotImplementedError(f"cos/sin at pi*{p}")
        c, sn = [(1, 0), (0, 1), (-1, 0), (0, -1)][int(q) % 4]
        c, sn = R.const(c), R.const(sn)
        for a, v in sorted(d.items()):
            if v.denominator != 1:
                # half angles: use / create the half atom
                if v.denominator == 2:
                    a, v = half_atom(a), v * 2
                else:
                    raise NotImplementedError(f"fractional multiple {v} of angle {a}")
            ca, sa = CTX.atom(a)
            n = int(v)
            if n < 0:
                sa = -sa
                n = -n
            for _ in range(n):
                c, sn = c * ca - sn * sa, sn * ca + c * sa
        return c, sn

    def cos(s):
        return s._cs()[0]

    def sin(s):
        return s._cs()[1]

    def tan(s):
        c, sn = s._cs()
        return sn / c

    def _newatom(s, kind, c, sn):
        nm = f"{kind}{CTX.n}"
        CTX.n += 1
        CTX.atoms[nm] = (c, sn)
        r = R.of(z3.Real(f"val_{nm}"))
        r.lin = ({nm: Fr(1)}, Fr(0), None)
        return r

    def arccos(s):
        r = s._newatom("acos", s, (1 - s * s).sqrt())
        v = r.n
        CTX.cons += [v >= 0, v <= PI_T]
        return r

    def arcsin(s):
        r = s._newatom("asin", (1 - s * s).sqrt(), s)
        v = r.n
        CTX.cons += [2 * v >= -PI_T, 2 * v <= PI_T]
        return r

    def arctan(s):
        rho = (1 + s * s).sqrt()
        r = s._newatom("atan", 1 / rho, s / rho)
        v = r.n
        CTX.cons += [2 * v > -PI_T, 2 * v < PI_T]
        return r

    def arctan2(y, x):
        x = R.lift(x)
        y = R.lift(y)
        rho = (x * x + y * y).sqrt()
        r = y._newatom("atan2_", x / rho, y / rho)
        v = r.n
        CTX.cons += [v > -PI_T, v <= PI_T]
        return r

    # ---- hyperbolic functions: atoms (ch, sh) on the unit hyperbola ch^2 - sh^2 = 1, ch >= 1, sign(sh) = sign(x)
    def _hyp(s):
        if not s.f and s.coef == 0:
            return R.const(1), R.const(0)
        if len(s.f) == 1 and abs(s.coef) == 1:
            (k, (t, e)), = s.f.items()
            if e == 1 and k in CTX.hyp:
                ch, sh = CTX.hyp[k][:2]
                return (ch, sh) if s.coef == 1 else (ch, -sh)
        n, d = s.num_den()
        kk = "hopq:" + z3.simplify(n * z3.Real("__k1") - d * z3.Real("__k2"), som=True).sexpr()
        if kk not in CTX.roots:
            CTX.n += 1
            ch, sh = z3.Real(f"ch_opq!{CTX.n}"), z3.Real(f"sh_opq!{CTX.n}")
            t = s.term()
            con = z3.And(ch * ch - sh * sh == 1, ch >= 1, z3.Implies(t > 0, sh > 0), z3.Implies(t < 0, sh < 0),
                         z3.Implies(t == 0, sh == 0))
            CTX.cons.append(con)
            CTX.defines[con.get_id()] = {str(ch), str(sh)}
            CTX.rules.append((str(sh), 2, ch * ch - 1, z3.RealVal(1)))
            CTX.roots[kk] = (R.of(ch), R.of(sh))
            CTX.log.append("opaque hyperbolic atom for " + _short(s, 60))
        return CTX.roots[kk]

    def cosh(s):
        return s._hyp()[0]

    def sinh(s):
        return s._hyp()[1]

    def arctanh(s):
        rho = (1 - s * s).sqrt()
        CTX.n += 1
        v = z3.Real(f"val_atanh{CTX.n}")
        CTX.hyp[key(v)] = (1 / rho, s / rho, v)
        return R.of(v)

    def arccosh(s):
        rho = (s * s - 1).sqrt()
        CTX.n += 1
        v = z3.Real(f"val_acosh{CTX.n}")
        CTX.hyp[key(v)] = (s, rho, v)
        CTX.cons.append(v >= 0)
        return R.of(v)

    def arcsinh(s):
        rho = (s * s + 1).sqrt()
        CTX.n += 1
        v = z3.Real(f"val_asinh{CTX.n}")
        CTX.hyp[key(v)] = (rho, s, v)
        return R.of(v)

    def floor(s):
        """floor as an integer-valued R (constant when the solver determines it under the path condition, else an integer
        auxiliary k with k <= x < k + 1, one per distinct argument): dtmodel.rfloor"""
        from . import dtmodel
        return dtmodel.rfloor(s)

    def log(s):
        """natural logarithm as an auxiliary variable with sound (incomplete) facts: sign, the tangent bounds
        1 - 1/x <= log x <= x - 1, and coarse magnitude bounds log x < 0.6932 k for x < 2^k; one variable per distinct argument"""
        if not s.f and s.coef > 0:
            if s.coef == 1:
                return R.const(0)
        n, d = s.num_den()
        kk = "log:" + z3.simplify(n * z3.Real("__k1") - d * z3.Real("__k2"), som=True).sexpr()
        if kk not in CTX.roots:
            CTX.n += 1
            L = z3.Real(f"log!{CTX.n}")
            x = s.term()
            facts = [x > 0, L <= x - 1, L * x >= x - 1, z3.Implies(x >= 1, L >= 0), z3.Implies(x <= 1, L <= 0),
                     z3.Implies(x == 1, L == 0)]
            for k in (1, 4, 10, 30, 100, 1000):
                facts.append(z3.Implies(x < z3.RealVal(2 ** k), L < z3.RealVal("0.6932") * k))
                facts.append(z3.Implies(x * z3.RealVal(2 ** k) > 1, L > -z3.RealVal("0.6932") * k))
            con = z3.And(facts)
            CTX.cons.append(con)
            CTX.defines[con.get_id()] = {str(L)}
            CTX.roots[kk] = R.of(L)
            CTX.log.append("log auxiliary for " + _short(s, 60))
        return CTX.roots[kk]

    @staticmethod
    def hangle(name):
        v = z3.Real(f"val_{name}")
        ch, sh = z3.Real(f"ch_{name}"), z3.Real(f"sh_{name}")
        CTX.hyp[key(v)] = (R.of(ch), R.of(sh), v)
        con = z3.And(ch * ch - sh * sh == 1, ch >= 1, z3.Implies(v > 0, sh > 0), z3.Implies(v < 0, sh < 0),
                     z3.Implies(v == 0, sh == 0))
        CTX.cons.append(con)
        CTX.defines[con.get_id()] = {str(ch), str(sh)}
        CTX.rules.append((str(sh), 2, ch * ch - 1, z3.RealVal(1)))
        return R.of(v)

    def degrees(s):
        return s * 180 / PI

    rad2deg = degrees

    def radians(s):
        return s * PI / 180

    deg2rad = radians

    def conjugate(s):
        return s

    def __repr__(s):
        return "R(" + _short(s) + ")"


def _short(r, n=100):
    fs = "*".join(f"({str(t)[:40]})^{e}" for t, e in r.f.values())
    return f"{r.coef}*{fs}"[:n].replace("\n", " ")


def opaque_atom(x):
    """(cos x, sin x) for a value that has no angle view: one unit-circle atom per distinct term (same term -> same
    atom), with the sound facts  x=0 => (1,0)  and  0<|x|<2pi => cos x < 1"""
    n, d = x.num_den()
    kk = "opq:" + z3.simplify(n * z3.Real("__k1") - d * z3.Real("__k2"), som=True).sexpr()
    if kk not in CTX.roots:
        nm = f"opq{CTX.n}"
        CTX.n += 1
        c, s = z3.Real(f"c_{nm}!{CTX.n}"), z3.Real(f"s_{nm}!{CTX.n}")
        CTX.n += 1
        t = x.term()
        con = z3.And(c * c + s * s == 1,
                     z3.Implies(t == 0, z3.And(c == 1, s == 0)),
                     z3.Implies(z3.And(t != 0, t < 2 * PI_T, t > -2 * PI_T), c < 1),
                     z3.Implies(z3.And(t > 0, t < PI_T), s > 0),
                     z3.Implies(z3.And(t < 0, t > -PI_T), s < 0))
        CTX.cons.append(con)
        CTX.defines[con.get_id()] = {str(c), str(s)}
        CTX.rules.append((str(s), 2, 1 - c * c, z3.RealVal(1)))
        CTX.roots[kk] = (R.of(c), R.of(s))
        CTX.log.append("opaque angle atom for cos/sin of " + _short(x, 60))
    return CTX.roots[kk]


def half_atom(a):
    nm = a + "_half"
    if nm not in CTX.atoms:
        ch, sh = CTX.atom(nm)
        c, s = CTX.atom(a)
        for con in (c.n == ch.n * ch.n - sh.n * sh.n, s.n == 2 * sh.n * ch.n):
            CTX.cons.append(con)
            CTX.defines[con.get_id()] = {str(ch.n), str(sh.n)}
        CTX.rules.append((str(c.n), 1, ch.n * ch.n - sh.n * sh.n, z3.RealVal(1)))
        CTX.rules.append((str(s.n), 1, 2 * sh.n * ch.n, z3.RealVal(1)))
    return nm


def real_mod(s, o):
    """Python float % on reals: s = o*k + r, k integer, 0 <= r < o (o > 0 assumed via sign proof or constant)"""
    sn, sd = s.num_den()
    on, od = o.num_den()
    kk = "mod:" + z3.simplify(sn * z3.Real("__k1") - sd * z3.Real("__k2"), som=True).sexpr() + "|" + \
         z3.simplify(on * z3.Real("__k1") - od * z3.Real("__k2"), som=True).sexpr()
    if kk in CTX.roots:
        return CTX.roots[kk]
    k = CTX.fresh_int("k")
    r = CTX.fresh("mod")
    # s = o*k + r  <=>  sn*od = sd*(on*k + r*od)
    CTX.cons += [sn * od == sd * (on * z3.ToReal(k) + r * od), r >= 0, r * od < on]
    res = R.of(r)
    res.pre = s          # value before the reduction (harnesses compare pre-mod values exactly)
    CTX.roots[kk] = res
    return res


def _hint_ok(cand, target):
    g1 = neq(cand * cand, target)
    g2 = cand.sign_term() < 0
    if z3.is_false(g1) and not cand.f:
        return cand.coef >= 0
    so = z3.Solver()
    so.set("timeout", CTX.hint_timeout)
    for c in sliced([g1, g2], CTX.pre) + list(CTX.pre):
        so.add(c)
    so.add(z3.Or(g1, g2))
    t0 = time.time()
    r = str(so.check())
    CTX.inner_queries += 1
    CTX.inner_time += time.time() - t0
    return r == "unsat"


def proved_sign(t):
    """+1 / -1 when the solver proves the sign of t under the precondition and the defining constraints, else 0"""
    k = key(t)
    if k in CTX.signcache:
        return CTX.signcache[k][1]
    res = 0
    for sg, bad in ((1, t <= 0), (-1, t >= 0)):
        so = z3.Solver()
        so.set("timeout", 10000)
        for c in sliced([bad], CTX.pre) + list(CTX.pre):
            so.add(c)
        so.add(bad)
        t0 = time.time()
        r = str(so.check())
        CTX.inner_queries += 1
        CTX.inner_time += time.time() - t0
        if r == "unsat":
            res = sg
            break
    CTX.signcache[k] = (t, res)
    if res:
        CTX.log.append(f"sign proved {'+' if res > 0 else '-'}: {str(t)[:60]}")
    return res


def neq(a, b, mark=None):
    """z3 constraint 'a != b' (denominators non-zero by side conditions).
    Without `mark` (internal hint / sign queries) a numerator factor whose normal form modulo the root / atom
    definitions is zero short-circuits to False.  With `mark` (a list; used for obligations) the formula is returned
    unreduced so that the solver decides it, and mark gets True appended when the normal form closes it as well."""
    d = R.lift(a) - R.lift(b)
    if d.coef == 0:
        return z3.BoolVal(False)
    n = z3.RealVal(1)
    for t, e in d.f.values():
        if e > 0:
            if CTX.reduce and _reduces_to_zero(t):
                CTX.nf_closed += 1
                if mark is None:
                    return z3.BoolVal(False)
                mark.append(True)
            n = n * t  # t^e != 0 <=> t != 0
    if not d.f:
        return z3.BoolVal(True)
    return z3.simplify(n) != 0


def eq(a, b):
    return z3.Not(neq(a, b))


def _reduces_to_zero(t):
    """normal form of t modulo the root / atom definitions is the zero polynomial (sufficient for t == 0)"""
    from . import poly
    k = (t.get_id(), len(CTX.rules))
    if k in CTX.nfcache:
        return CTX.nfcache[k][1]
    res = False
    try:
        cache = {}
        rules = [(nm, kk, poly.to_poly(n, cache), poly.to_poly(d, cache)) for nm, kk, n, d in reversed(CTX.rules)]
        p = poly.normal_form(poly.to_poly(t, cache), rules)
        res = p.is_zero()
    except poly.TooBig:
        res = False
    CTX.nfcache[k] = (t, res)     # keep the term alive: z3 reuses ids of collected ASTs
    return res


_VARS_CACHE = {}


def _vars(t, acc=None):
    """names of the uninterpreted constants of t (memoised per top-level term; the term is kept alive with its entry
    because z3 reuses AST ids after garbage collection)"""
    i0 = t.get_id()
    hit = _VARS_CACHE.get(i0)
    if hit is None or not hit[0].eq(t):
        out = set()
        stack = [t]
        seen = set()
        while stack:
            u = stack.pop()
            i = u.get_id()
            if i in seen:
                continue
            seen.add(i)
            if z3.is_const(u) and u.decl().kind() == z3.Z3_OP_UNINTERPRETED:
                out.add(str(u))
            stack.extend(u.children())
        if len(_VARS_CACHE) > 200000:
            _VARS_CACHE.clear()
        hit = _VARS_CACHE[i0] = (t, frozenset(out))
    if acc is None:
        return set(hit[1])
    acc |= hit[1]
    return acc


def _aux(v):
    return "!" in v


def _num(v):
    m = re.search(r"(\d+)$", v)
    return int(m.group(1)) if m else -1


def sliced(goals, extra=()):
    """cone of influence: the defining constraints of every auxiliary variable / atom that (transitively)
    occurs in the goals; sound for unsat because dropping constraints weakens the antecedent"""
    need = set()
    for g in list(goals) + list(extra):
        _vars(g, need)
    cons = []
    for c in CTX.cons:
        vs = _vars(c)
        aux = [v for v in vs if _aux(v)]
        df = CTX.defines.get(c.get_id())
        if df is None:
            df = {max(aux, key=_num)} if aux else set()
        cons.append((c, vs, df))
    used = [False] * len(cons)
    changed = True
    while changed:
        changed = False
        for k, (c, vs, df) in enumerate(cons):
            if used[k]:
                continue
            if (df & need) or (not df and (vs & need) and all(v in need or v == "PI" for v in vs)):
                used[k] = True
                need |= vs
                changed = True
    out = [c for k, (c, vs, df) in enumerate(cons) if used[k]]
    out += [t != 0 for t in CTX.nz.values() if _vars(t) <= need]
    if "PI" in need:
        out += PI_BOUNDS
    return out


PI = R.of(PI_T)
PI.lin = ({}, Fr(1), None)


def var(name):
    return R.of(z3.Real(name))


# --------------------------------------------------------------------------- dual numbers (d/dt)
class Dual:
    """value + time derivative, both R; flows through the same numpy object arrays"""
    __slots__ = ("v", "d")

    def __init__(self, v, d=0):
        self.v = R.lift(v)
        self.d = R.lift(d)

    @staticmethod
    def lift(x):
        return x if isinstance(x, Dual) else Dual(x, 0)

    def __add__(s, o):
        if isinstance(o, np.ndarray):
            return NotImplemented
        o = Dual.lift(o)
        return Dual(s.v + o.v, s.d + o.d)

    __radd__ = __add__

    def __sub__(s, o):
        if isinstance(o, np.ndarray):
            return NotImplemented
        o = Dual.lift(o)
        return Dual(s.v - o.v, s.d - o.d)

    def __rsub__(s, o):
        if isinstance(o, np.ndarray):
            return NotImplemented
        o = Dual.lift(o)
        return Dual(o.v - s.v, o.d - s.d)

    def __mul__(s, o):
        if isinstance(o, np.ndarray):
            return NotImplemented
        o = Dual.lift(o)
        return Dual(s.v * o.v, s.v * o.d + s.d * o.v)

    __rmul__ = __mul__

    def __truediv__(s, o):
        if isinstance(o, np.ndarray):
            return NotImplemented
        o = Dual.lift(o)
        return Dual(s.v / o.v, (s.d * o.v - s.v * o.d) / (o.v * o.v))

    def __rtruediv__(s, o):
        if isinstance(o, np.ndarray):
            return NotImplemented
        return Dual.lift(o) / s

    def __neg__(s):
        return Dual(-s.v, -s.d)

    def __pos__(s):
        return s

    def __pow__(s, k):
        if isinstance(k, (int, np.integer)):
            k = int(k)
            if k == 0:
                return Dual(1, 0)
            return Dual(s.v ** k, k * s.v ** (k - 1) * s.d)
        if isinstance(k, float):
            k = Fr(k).limit_denominator(1000)
        p = s.v ** k
        return Dual(p, k * p / s.v * s.d)

    def __mod__(s, o):
        return Dual(s.v % o, s.d)

    def sqrt(s):
        r = s.v.sqrt()
        return Dual(r, s.d / (2 * r))

    def cos(s):
        return Dual(s.v.cos(), -s.v.sin() * s.d)

    def sin(s):
        return Dual(s.v.sin(), s.v.cos() * s.d)

    def tan(s):
        c = s.v.cos()
        return Dual(s.v.sin() / c, s.d / (c * c))

    def arctan2(y, x):
        x = Dual.lift(x)
        y = Dual.lift(y)
        return Dual(y.v.arctan2(x.v), (x.v * y.d - y.v * x.d) / (x.v * x.v + y.v * y.v))

    def arcsin(s):
        return Dual(s.v.arcsin(), s.d / (1 - s.v * s.v).sqrt())

    def arccos(s):
        return Dual(s.v.arccos(), -s.d / (1 - s.v * s.v).sqrt())

    def arctan(s):
        return Dual(s.v.arctan(), s.d / (1 + s.v * s.v))

    def _cmp(s, o, op):
        o = Dual.lift(o)
        return op(s.v, o.v)

    def __lt__(s, o):
        return s._cmp(o, lambda a, b: a < b)

    def __le__(s, o):
        return s._cmp(o, lambda a, b: a <= b)

    def __gt__(s, o):
        return s._cmp(o, lambda a, b: a > b)

    def __ge__(s, o):
        return s._cmp(o, lambda a, b: a >= b)

    def __abs__(s):
        if s.v >= 0:
            return s
        return -s

    def __hash__(s):
        return id(s)

    def __repr__(s):
        return f"Dual({s.v!r}, {s.d!r})"


# --------------------------------------------------------------------------- uninterpreted functions
def uf(name, *args):
    """uninterpreted real function applied to R arguments"""
    k = (name, len(args))
    if k not in CTX.ufs:
        CTX.ufs[k] = z3.Function(name, *([z3.RealSort()] * (len(args) + 1)))
    return R.of(CTX.ufs[k](*[R.lift(a).term() for a in args]))
