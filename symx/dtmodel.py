"""symx.dtmodel -- exact-real stand-ins for float / int / datetime / timedelta so that beyond.dates.date runs symbolically.

SF (a float subclass) and SI (an int subclass) wrap an R value, pass `isinstance(x, float/int)` checks and route all
arithmetic (incl. // % divmod with Python's floor semantics) to the exact real domain.  STD / SDT model
datetime.timedelta / datetime.datetime as exact real seconds (the microsecond rounding of the real classes is *not*
modelled: statements "to the microsecond" hold in this model iff they hold exactly).
"""
import datetime as _dt

import z3

from . import core
from .core import R, SB, CTX


def rfloor(x):
    """floor of a real-valued R as an integer-valued R (memoised)"""
    x = R.lift(x)
    if not x.f:
        import math
        return R.const(math.floor(x.coef))
    if _integral(x):
        return x
    n, d = x.num_den()
    kk = "floor:" + z3.simplify(n * z3.Real("__k1") - d * z3.Real("__k2"), som=True).sexpr()
    if kk in CTX.roots:
        return CTX.roots[kk]
    const = _const_floor(x)
    if const is not None:
        CTX.roots[kk] = const
        return const
    k = CTX.fresh_int("fl")
    t = x.term()
    con = z3.And(z3.ToReal(k) <= t, t < z3.ToReal(k) + 1)
    CTX.cons.append(con)
    CTX.defines[con.get_id()] = {str(k)}
    r = R.of(z3.ToReal(k))
    CTX.roots[kk] = r
    return r


def _integral_term(t):
    if z3.is_rational_value(t):
        return t.as_fraction().denominator == 1
    if z3.is_app(t):
        k = t.decl().kind()
        if k == z3.Z3_OP_TO_REAL:
            return True
        if k in (z3.Z3_OP_ADD, z3.Z3_OP_SUB, z3.Z3_OP_MUL, z3.Z3_OP_UMINUS):
            return all(_integral_term(c) for c in t.children())
    return False


def _integral(x):
    if x.coef.denominator != 1:
        return False
    return all(e > 0 and _integral_term(t) for t, e in x.f.values())


def _const_floor(x):
    """if the solver proves k <= x < k+1 for a constant k under the precondition and definitions, return k"""
    t = x.term()
    so = z3.Solver()
    so.set("timeout", 3000)
    cs = core.sliced([t == t], CTX.pre) + list(CTX.pre) + list(CTX.pc)
    for c in cs:
        so.add(c)
    if str(so.check()) != "sat":
        return None
    try:
        v = so.model().eval(t, model_completion=True)
        import math
        from fractions import Fraction
        k0 = math.floor(v.as_fraction()) if z3.is_rational_value(v) else math.floor(float(v.approx(10).as_fraction()))
    except Exception:  # noqa
        return None
    so.add(z3.Or(t < k0, t >= k0 + 1))
    CTX.inner_queries += 2
    if str(so.check()) == "unsat":
        CTX.log.append(f"floor determined: {k0}")
        return R.const(k0)
    return None


def _r(x):
    if isinstance(x, (SF, SI)):
        return x.r
    if isinstance(x, R):
        return x
    if isinstance(x, bool):
        raise TypeError("bool")
    return R.lift(x)


def _wrap(r, integral):
    return SI(r) if integral else SF(r)


class _Num:
    def _bin(self, o, f, integral=None):
        if isinstance(o, (STD, SDT)):
            return NotImplemented
        try:
            b = _r(o)
        except TypeError:
            return NotImplemented
        res = f(self.r, b)
        both_int = isinstance(self, SI) and (isinstance(o, (SI,)) or (isinstance(o, int) and not isinstance(o, bool)))
        return _wrap(res, both_int if integral is None else integral)

    def __add__(self, o): return self._bin(o, lambda a, b: a + b)
    def __radd__(self, o): return self._bin(o, lambda a, b: b + a)
    def __sub__(self, o): return self._bin(o, lambda a, b: a - b)
    def __rsub__(self, o): return self._bin(o, lambda a, b: b - a)
    def __mul__(self, o): return self._bin(o, lambda a, b: a * b)
    def __rmul__(self, o): return self._bin(o, lambda a, b: b * a)
    def __truediv__(self, o): return self._bin(o, lambda a, b: a / b, integral=False)
    def __rtruediv__(self, o): return self._bin(o, lambda a, b: b / a, integral=False)
    def __floordiv__(self, o): return self._bin(o, lambda a, b: rfloor(a / b), integral=True)
    def __rfloordiv__(self, o): return self._bin(o, lambda a, b: rfloor(b / a), integral=True)
    def __mod__(self, o): return self._bin(o, lambda a, b: a - b * rfloor(a / b))
    def __rmod__(self, o): return self._bin(o, lambda a, b: b - a * rfloor(b / a))

    def __divmod__(self, o):
        return self // o, self % o

    def __rdivmod__(self, o):
        return o // self, o % self

    def __neg__(self): return _wrap(-self.r, isinstance(self, SI))
    def __pos__(self): return self
    def __abs__(self): return _wrap(abs(self.r), isinstance(self, SI))

    def __pow__(self, k): return _wrap(self.r ** k, isinstance(self, SI) and isinstance(k, int) and k >= 0)

    def _cmp(self, o, f):
        try:
            return f(self.r, _r(o))
        except TypeError:
            return NotImplemented

    def __lt__(self, o): return self._cmp(o, lambda a, b: a < b)
    def __le__(self, o): return self._cmp(o, lambda a, b: a <= b)
    def __gt__(self, o): return self._cmp(o, lambda a, b: a > b)
    def __ge__(self, o): return self._cmp(o, lambda a, b: a >= b)
    def __eq__(self, o): return self._cmp(o, lambda a, b: a == b)
    def __ne__(self, o): return self._cmp(o, lambda a, b: a != b)
    def __hash__(self): return id(self)
    def __bool__(self): return bool(self.r != 0)
    def __repr__(self): return f"{type(self).__name__}({self.r!r})"
    __str__ = __repr__
    def __format__(self, spec): return repr(self)


class SF(_Num, float):
    def __new__(cls, r):
        obj = float.__new__(cls, 0.0)
        obj.r = R.lift(r) if not isinstance(r, (SF, SI)) else r.r
        return obj


class SI(_Num, int):
    def __new__(cls, r):
        obj = int.__new__(cls, 0)
        obj.r = R.lift(r) if not isinstance(r, (SF, SI)) else r.r
        return obj

    def __index__(self):
        raise TypeError("symbolic integer used as an index")


def sym_int(x, *a):
    """int(): truncation toward zero"""
    if isinstance(x, SI):
        return x
    if isinstance(x, (SF, R)):
        r = _r(x)
        if _integral(r):
            return SI(r)
        fl = rfloor(r)
        if (r >= 0) or (fl == r):
            return SI(fl)
        return SI(fl + 1)
    return int(x, *a)


def sym_float(x):
    if isinstance(x, (SF, SI)):
        return SF(x.r)
    if isinstance(x, R):
        return SF(x)
    return float(x)


def sym_ceil(x):
    if isinstance(x, (SF, SI, R)):
        return SF(-rfloor(-_r(x)))
    import math
    return math.ceil(x)


def sym_sin(x):
    if isinstance(x, (SF, SI, R)):
        return SF(_r(x).sin())
    import math
    return math.sin(x)


def sym_radians(x):
    if isinstance(x, (SF, SI, R)):
        return SF(_r(x) * core.PI / 180)
    import math
    return math.radians(x)


# --------------------------------------------------------------------------- timedelta / datetime
class STD:
    """datetime.timedelta as exact real seconds"""
    def __init__(self, days=0, seconds=0, microseconds=0, milliseconds=0, minutes=0, hours=0, weeks=0):
        self.secs = (_r(days) * 86400 + _r(seconds) + _r(microseconds) / 1000000 + _r(milliseconds) / 1000
                     + _r(minutes) * 60 + _r(hours) * 3600 + _r(weeks) * 604800)

    @staticmethod
    def of(secs):
        t = STD()
        t.secs = _r(secs)
        return t

    def total_seconds(self):
        """exact by default; with CTX.round_total_seconds the result carries one relative rounding error |delta| <= 2^-52
        (the real method divides integer microseconds by 10^6 in binary64), the same delta for the same timedelta object"""
        if getattr(CTX, "round_total_seconds", False) and self.secs.f:
            d = getattr(self, "_delta", None)
            if d is None:
                dv = CTX.fresh("ulp")
                CTX.pre += [dv <= z3.RealVal(2) ** -52, dv >= -(z3.RealVal(2) ** -52)]
                d = self._delta = R.of(dv)
            return SF(self.secs * (1 + d))
        return SF(self.secs)

    @property
    def days(self):
        return SI(rfloor(self.secs / 86400))

    @property
    def seconds(self):
        rem = self.secs - rfloor(self.secs / 86400) * 86400
        return SI(rfloor(rem))

    @property
    def microseconds(self):
        rem = self.secs - rfloor(self.secs / 86400) * 86400
        return SF((rem - rfloor(rem)) * 1000000)      # exact fractional part, in microseconds (not rounded)

    def __add__(self, o):
        if isinstance(o, STD):
            return STD.of(self.secs + o.secs)
        return NotImplemented

    def __sub__(self, o):
        if isinstance(o, STD):
            return STD.of(self.secs - o.secs)
        return NotImplemented

    def __neg__(self): return STD.of(-self.secs)
    def __abs__(self): return STD.of(abs(self.secs))

    def __mul__(self, k):
        if isinstance(k, STD):
            return NotImplemented
        return STD.of(self.secs * _r(k))

    __rmul__ = __mul__

    def __truediv__(self, o):
        if isinstance(o, STD):
            return SF(self.secs / o.secs)
        return STD.of(self.secs / _r(o))

    def __floordiv__(self, o):
        if isinstance(o, STD):
            return SI(rfloor(self.secs / o.secs))
        return STD.of(rfloor(self.secs / _r(o)))

    def __mod__(self, o):
        return STD.of(self.secs - o.secs * rfloor(self.secs / o.secs))

    def _c(self, o, f):
        if isinstance(o, STD):
            return f(self.secs, o.secs)
        return NotImplemented

    def __lt__(self, o): return self._c(o, lambda a, b: a < b)
    def __le__(self, o): return self._c(o, lambda a, b: a <= b)
    def __gt__(self, o): return self._c(o, lambda a, b: a > b)
    def __ge__(self, o): return self._c(o, lambda a, b: a >= b)
    def __eq__(self, o): return self._c(o, lambda a, b: a == b) if isinstance(o, STD) else False
    def __ne__(self, o): return self._c(o, lambda a, b: a != b) if isinstance(o, STD) else True
    def __hash__(self): return id(self)
    def __bool__(self): return bool(self.secs != 0)
    def __repr__(self): return f"STD({self.secs!r})"


_T0 = _dt.datetime(1858, 11, 17)


class SDT:
    """datetime.datetime (naive) as exact real seconds since 1858-11-17 (MJD origin)"""
    tzinfo = None

    def __init__(self, *args, **kw):
        if len(args) >= 3 and all(isinstance(a, int) and not isinstance(a, SI) for a in args):
            self.t = R.const((_dt.datetime(*args, **kw) - _T0) // _dt.timedelta(microseconds=1)) / 1000000
        elif len(args) == 1:
            self.t = _r(args[0])
        else:
            raise TypeError("SDT(year, month, day, ...) or SDT(seconds)")

    def __sub__(self, o):
        if isinstance(o, SDT):
            return STD.of(self.t - o.t)
        if isinstance(o, STD):
            return SDT(self.t - o.secs)
        return NotImplemented

    def __add__(self, o):
        if isinstance(o, STD):
            return SDT(self.t + o.secs)
        return NotImplemented

    __radd__ = __add__

    def _c(self, o, f):
        return f(self.t, o.t) if isinstance(o, SDT) else NotImplemented

    def __lt__(self, o): return self._c(o, lambda a, b: a < b)
    def __le__(self, o): return self._c(o, lambda a, b: a <= b)
    def __gt__(self, o): return self._c(o, lambda a, b: a > b)
    def __ge__(self, o): return self._c(o, lambda a, b: a >= b)
    def __eq__(self, o): return self._c(o, lambda a, b: a == b) if isinstance(o, SDT) else False
    def __hash__(self): return id(self)
    def isoformat(self): return "<symbolic datetime>"
    def __repr__(self): return f"SDT({self.t!r})"

    def utcoffset(self):
        return None

    def replace(self, **kw):
        return self


class _IntMeta(type):
    def __instancecheck__(cls, x):
        return isinstance(x, int)

    def __call__(cls, x=0, *a):
        return sym_int(x, *a)


class IntProxy(metaclass=_IntMeta):
    """stands for the builtin `int` as a module global: int(x) truncates symbolically, isinstance(x, int) still works"""


def install_date_module(mod):
    """replace the module globals of beyond.dates.date that interpret numbers / dates"""
    mod.int = IntProxy
    mod.float = float            # isinstance(x, (float, int)) must keep working with the real classes
    mod.sin = sym_sin
    mod.radians = sym_radians
    mod.ceil = sym_ceil
    mod.datetime = SDT
    mod.timedelta = STD
    mod.divmod = lambda a, b: (a // b, a % b) if isinstance(a, (_Num, STD)) or isinstance(b, (_Num, STD)) else divmod(a, b)
    mod.Date.MJD_T0 = SDT(R.const(0))
