"""symx.run -- orchestrates one check:  ./vf <ID> quick|thorough

 parent:   for every obligation group of harness/<id>.py start a *builder* process that symbolically executes the
           repository functions (imported from /repo's working tree) and emits obligations as SMT-LIB2;
           every obligation is decided in its own solver process (16 at a time, hard timeout);
           sat on a validity obligation -> model replayed on the real, unpatched code in a fresh process;
           evidence/<id>.json is rewritten; exit 0 / 1 (VIOLATION) / 3 (harness error).
"""
import concurrent.futures as cf
import hashlib
import importlib
import inspect
import json
import os
import shutil
import subprocess
import sys
import tempfile
import time
import traceback

ROOT = os.path.dirname(os.path.dirname(os.path.abspath(__file__)))
JOBS = int(os.environ.get("VF_JOBS", "16"))
EXIT_VIOLATION, EXIT_HARNESS = 1, 3


def harness_mod(pid):
    return importlib.import_module("harness." + pid.lower())


def src_hash(spec):
    try:
        modname, _, qual = spec.partition(":")
        obj = importlib.import_module(modname)
        for part in qual.split(".") if qual else []:
            obj = getattr(obj, part)
        if isinstance(obj, property):
            obj = obj.fget
        obj = getattr(obj, "__func__", obj)
        obj = getattr(obj, "__wrapped__", obj)
        src = inspect.getsource(obj)
        return hashlib.sha256(src.encode()).hexdigest()[:16]
    except Exception as e:  # noqa
        return "unavailable:" + type(e).__name__


# --------------------------------------------------------------------------- child entry points
def build_main(pid, tier, group, outfile):
    sys.setrecursionlimit(20000)
    h = harness_mod(pid)
    t0 = time.time()
    out = {"group": group, "obs": [], "info": {}, "error": None}
    try:
        fn = h.groups(tier)[group]
        res = fn()
        if isinstance(res, tuple):
            obs, info = res
        else:
            obs, info = res, {}
        from .core import CTX
        for ob in obs:
            ob["group"] = group
        out["obs"] = obs
        info.setdefault("inner_queries", CTX.inner_queries)
        info.setdefault("inner_time_s", round(CTX.inner_time, 2))
        out["info"] = info
    except BaseException as e:  # noqa
        out["error"] = "".join(traceback.format_exception(type(e), e, e.__traceback__))[-3000:]
    out["build_s"] = round(time.time() - t0, 2)
    with open(outfile, "w") as f:
        json.dump(out, f)


def replay_main(pid, obfile):
    h = harness_mod(pid)
    d = json.load(open(obfile))
    try:
        res = h.replay(d["ob"], d["model"])
    except BaseException as e:  # noqa
        res = {"reproduced": False, "signature": "replay-crash", "detail": "".join(
            traceback.format_exception(type(e), e, e.__traceback__))[-2000:]}
    print("\n@@REPLAY " + json.dumps(res, default=str))


# --------------------------------------------------------------------------- parent
def _sub(args, timeout):
    env = dict(os.environ)
    env["PYTHONPATH"] = (os.environ["VF_REPO"] + os.pathsep if os.environ.get("VF_REPO") else "") + ROOT + os.pathsep + env.get("PYTHONPATH", "")
    env.setdefault("PYTHONHASHSEED", "0")
    return subprocess.run([sys.executable, "-W", "ignore", "-m", "symx.run"] + args, capture_output=True, text=True,
                          timeout=timeout, cwd=ROOT, env=env)


def load_known(pid):
    p = os.path.join(ROOT, "known_findings.json")
    if not os.path.exists(p):
        return []
    return [f for f in json.load(open(p)).get("findings", []) if f.get("property") == pid]


def main(pid, tier):
    from . import solve
    t_start = time.time()
    seed = int(os.environ.get("VERIF_SEED", "0") or 0)
    h = harness_mod(pid)
    groups = list(h.groups(tier).keys())
    only = os.environ.get("VF_ONLY")          # developer option: run a subset of the groups (evidence goes to a scratch dir)
    if only:
        import re
        groups = [g for g in groups if re.search(only, g)]
        os.environ.setdefault("VF_EVIDENCE_DIR", tempfile.mkdtemp(prefix="vf_only_ev_"))
    tmp = tempfile.mkdtemp(prefix=f"vf_{pid}_")
    results = []      # (ob, res)
    build_info = {}
    harness_errors = []
    build_timeout = getattr(h, "BUILD_TIMEOUT", {"quick": 600, "thorough": 3000})[tier]
    try:
        with cf.ThreadPoolExecutor(max_workers=JOBS) as pool:
            def build(g):
                out = os.path.join(tmp, f"g_{g}.json")
                try:
                    r = _sub(["--build", pid, tier, g, out], build_timeout)
                except subprocess.TimeoutExpired:
                    return g, {"error": f"builder timeout after {build_timeout}s", "obs": [], "info": {}}
                if not os.path.exists(out):
                    return g, {"error": "builder died: " + (r.stderr or r.stdout)[-2000:], "obs": [], "info": {}}
                return g, json.load(open(out))

            futs_b = [pool.submit(build, g) for g in groups]
            futs_s = {}
            for fb in cf.as_completed(futs_b):
                g, d = fb.result()
                build_info[g] = {"build_s": d.get("build_s"), "n_obs": len(d["obs"]), **d.get("info", {})}
                if d.get("error"):
                    harness_errors.append(f"group {g}: {d['error']}")
                    continue
                for ob in d["obs"]:
                    futs_s[pool.submit(solve.solve_one, ob, tmp)] = ob
            for fs in cf.as_completed(list(futs_s)):
                results.append((futs_s[fs], fs.result()))

        # ------------------------------------------------------------------ second chance for undecided obligations
        # (counterexample search under partial concretisations supplied by the harness; only `sat` is used)
        def second(item):
            ob, res = item
            for pin in ob.get("pins") or []:
                extra = "\n".join(f"(assert (= {n} {_smt_num(val)}))" for n, val in pin.items() if f" {n} " in ob["smt2"])
                ob2 = dict(ob, smt2=ob["smt2"] + "\n" + extra, timeout=min(15, ob["timeout"]))
                r2 = solve.solve_one(ob2, tmp)
                if r2["status"] == "sat":
                    r2["reason"] = "found under a partial concretisation of the inputs"
                    r2["time"] = round(res["time"] + r2["time"], 3)
                    return ob, r2
            return ob, res
        undecided = [i for i, (ob, res) in enumerate(results)
                     if res["status"] not in ("sat", "unsat") and ob.get("pins") and not ob.get("nf_closed")]
        if undecided:
            with cf.ThreadPoolExecutor(max_workers=JOBS) as pool:
                for i, new in zip(undecided, pool.map(second, [results[i] for i in undecided])):
                    results[i] = new

        # ------------------------------------------------------------------ verdicts
        known = load_known(pid)
        discharged, inconclusive, violations, known_hits, twins_ok = [], [], [], [], 0
        replays_done = 0
        nf_only = []

        def do_replay(item):
            ob, res = item
            rf = os.path.join(tmp, "replay_%d.json" % (abs(hash(ob["name"])) % 10**9))
            json.dump({"ob": {k: v for k, v in ob.items() if k != "smt2"}, "model": res["model"]}, open(rf, "w"))
            try:
                r = _sub(["--replay", pid, rf], 600)
                line = [l for l in r.stdout.splitlines() if l.startswith("@@REPLAY ")]
                return json.loads(line[-1][9:]) if line else {"reproduced": False, "signature": "replay-crash",
                                                              "detail": (r.stderr or r.stdout)[-1500:]}
            except subprocess.TimeoutExpired:
                return {"reproduced": False, "signature": "replay-timeout", "detail": ""}

        ordered = sorted(results, key=lambda x: x[0]["name"])
        sat_items = [(ob, res) for ob, res in ordered if ob["expect"] == "unsat" and res["status"] == "sat"]
        with cf.ThreadPoolExecutor(max_workers=JOBS) as pool:
            reps = list(pool.map(do_replay, sat_items))
        rep_of = {ob["name"]: rep for (ob, _), rep in zip(sat_items, reps)}
        for ob, res in ordered:
            st = res["status"]
            if ob["expect"] == "sat":
                if st == "sat":
                    twins_ok += 1
                elif st == "unsat":
                    harness_errors.append(f"vacuity twin {ob['name']} is unsat: harness assumptions inconsistent")
                else:
                    inconclusive.append((ob, res))
                continue
            if st == "unsat":
                discharged.append((ob, res))
            elif st != "sat" and ob.get("nf_closed"):
                res["status"] = "unsat"
                res["by"] = "normal-form"
                nf_only.append(ob["name"])
                discharged.append((ob, res))
            elif st == "sat":
                if ob.get("nf_closed"):
                    harness_errors.append(f"{ob['name']}: solver says sat but the polynomial normal form closes the goal "
                                          "(normaliser and solver disagree)")
                rep = rep_of[ob["name"]]
                replays_done += 1
                if rep.get("reproduced"):
                    sig = rep.get("signature", ob["name"])
                    hit = [k for k in known if k.get("status", "open") == "open" and k["signature"] == sig]
                    if hit:
                        known_hits.append((ob, res, rep, hit[0]))
                    else:
                        violations.append((ob, res, rep))
                else:
                    harness_errors.append(f"counterexample of {ob['name']} did not reproduce on the real code "
                                          f"(encoding/stub wrong?): {rep.get('detail', '')[:600]} model={res['model']}")
            else:
                inconclusive.append((ob, res))

        # ------------------------------------------------------------------ report
        rc = 0
        seen = set()
        for ob, res, rep, k in known_hits:
            if k["signature"] in seen:
                continue
            seen.add(k["signature"])
            print(f"KNOWN-FINDING: property={pid} {k['what']} [{k['signature']}]")
        os.makedirs(os.path.join(ROOT, "replays", pid), exist_ok=True)
        for ob, res, rep in violations:
            blob = {"property": pid, "obligation": ob["name"], "desc": ob.get("desc"), "model": res["model"],
                    "replay": rep, "ob": {k: v for k, v in ob.items() if k != "smt2"}}
            hsh = hashlib.sha256(json.dumps(blob, sort_keys=True, default=str).encode()).hexdigest()[:12]
            path = os.path.join(ROOT, "replays", pid, f"{hsh}.json")
            json.dump(blob, open(path, "w"), indent=1, default=str)
            print(f"VIOLATION property={pid} replay={path}")
            print(f"  obligation {ob['name']}: {rep.get('detail', '')[:400]}")
            rc = EXIT_VIOLATION
        for e in harness_errors:
            print("HARNESS-ERROR:", e[:1500])
        if harness_errors and rc == 0:
            rc = EXIT_HARNESS

        solver_time = round(sum(r["time"] for _, r in results), 2)
        n_solver = sum(1 for ob, r in discharged if not ob.get("trivial") and r.get("by") != "normal-form")
        n_nontrivial = n_solver + twins_ok
        total_paths = sum((i.get("paths") or 0) for i in build_info.values() if isinstance(i.get("paths"), int))
        samples = []
        for ob, res in (discharged[:3] + [x[:2] for x in known_hits[:2]] + inconclusive[:2]):
            samples.append({"obligation": ob["name"], "desc": ob.get("desc", ""), "status": res["status"],
                            "solver_s": res["time"], "constraints": ob.get("n_constraints"),
                            "smt2_bytes": len(ob.get("smt2") or "")})
        ev = {
            "property_id": pid, "tier": tier, "seed": seed, "level": "model_checking",
            "coverage": {
                "evaluations": len(results),
                "distinct_nontrivial": n_nontrivial,
                "rule": "one evaluation = one obligation (validity obligation or vacuity/reachability twin) generated from the "
                        "current /repo source by symbolic execution; non-trivial = an obligation decided by an actual solver run: "
                        "a validity obligation whose negated goal did not normalise to false syntactically and that the solver "
                        "answered unsat, or a twin that the solver answered sat; obligation names are unique",
                "states": max(1, total_paths),
                "transitions": max(1, len(results)),
                "traces_validated_against_impl": replays_done,
                "states_meaning": "states = feasible symbolic paths explored through the repository functions (summed over groups); "
                                  "transitions = obligations evaluated; traces_validated = counterexamples replayed on the real code",
                "samples": samples,
                "obligations": sum(1 for ob, _ in results if ob["expect"] == "unsat"),
                "discharged": len(discharged),
                "discharged_syntactically": sum(1 for ob, _ in discharged if ob.get("trivial")),
                "discharged_by_solver_and_normal_form": sum(1 for ob, r in discharged if ob.get("nf_closed") and r.get("by") != "normal-form"),
                "discharged_by_normal_form_only_solver_inconclusive": nf_only,
                "inconclusive": [{"obligation": ob["name"], "status": res["status"], "solver_s": res["time"],
                                  "reason": res.get("reason", "")[:200]} for ob, res in inconclusive],
                "vacuity_twins_sat": twins_ok,
                "counterexamples_replayed": replays_done,
                "known_findings_matched": sorted(seen),
                "functions_encoded": {f: src_hash(f) for f in getattr(h, "FUNCS", [])},
                "bounds": h.bounds(tier) if hasattr(h, "bounds") else {},
                "stubs": getattr(h, "STUBS", []),
                "outside_claim": getattr(h, "OUTSIDE", []),
                "groups": build_info,
                "solver": "z3 %s (wheel), one process per query" % _z3v(),
                "solver_time_s": solver_time,
                "slowest_queries": [{"obligation": ob["name"], "solver_s": res["time"]} for ob, res in
                                    sorted(results, key=lambda x: -x[1]["time"])[:5]],
                "exhaustive": False,
            },
            "assumptions": getattr(h, "ASSUMPTIONS", []),
            "wall_s": round(time.time() - t_start, 2),
            "violations": len(violations),
        }
        if hasattr(h, "evidence_extra"):
            ev["coverage"].update(h.evidence_extra(tier, results))
        evdir = os.environ.get("VF_EVIDENCE_DIR") or os.path.join(ROOT, "evidence")
        os.makedirs(evdir, exist_ok=True)
        json.dump(ev, open(os.path.join(evdir, f"{pid}.json"), "w"), indent=1, default=str)
        print(f"{pid} {tier}: {len(discharged)} discharged ({n_solver} by solver), {len(inconclusive)} inconclusive, "
              f"{twins_ok} twins sat, {len(known_hits)} known-finding hits, {len(violations)} violations, "
              f"{len(harness_errors)} harness errors; solver {solver_time}s, wall {ev['wall_s']}s")
        for ob, res in inconclusive:
            print(f"  inconclusive: {ob['name']} [{res['status']} {res['time']}s] {res.get('reason', '')[:160]}")
        slow = sorted(results, key=lambda x: -x[1]["time"])[:5]
        print("  slowest: " + ", ".join(f"{ob['name']} {res['time']}s" for ob, res in slow if res["time"] > 1))
        print("  builders: " + ", ".join(f"{g} {i.get('build_s')}s" for g, i in sorted(build_info.items(), key=lambda x: -(x[1].get("build_s") or 0))[:5]))
        return rc
    finally:
        shutil.rmtree(tmp, ignore_errors=True)


def _smt_num(v):
    v = str(v)
    if "/" in v:
        a, b = v.split("/")
        return f"(/ {float(a):.1f} {float(b):.1f})"
    return f"{float(v):.1f}" if "." not in v else v


def _z3v():
    try:
        import z3
        return z3.get_version_string()
    except Exception:  # noqa
        return "?"


if __name__ == "__main__":
    a = sys.argv[1:]
    if a[0] == "--build":
        build_main(*a[1:5])
    elif a[0] == "--replay":
        replay_main(a[1], a[2])
    else:
        sys.exit(main(a[0].upper(), a[1] if len(a) > 1 else os.environ.get("VERIF_TIER", "quick")))
