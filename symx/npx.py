"""symx.npx -- thin proxy around the real numpy so that repository functions run on object arrays of symbolic
scalars.  Only *module globals* of the imported repository modules are replaced; sources are never touched."""
import importlib
import sys
import types

import numpy as _np

from .core import R, PI, Dual, SB


def _obj(x):
    a = _np.array(x, dtype=object)
    return a


def _sym_scalar(e):
    return isinstance(e, (R, Dual)) or isinstance(getattr(e, "r", None), R)


class IntObj(_np.ndarray):
    """object array standing for an *integer-dtype* numpy array (what np.array makes of a sequence of Python ints): values
    assigned into it are truncated toward zero, as numpy does when it casts floats into an integer array"""
    def __setitem__(self, k, val):
        def tr(e):
            r = getattr(e, "r", e)
            return int(r) if isinstance(r, R) else (int(e) if isinstance(e, (float, _np.floating)) else e)
        if isinstance(val, (list, tuple, _np.ndarray)):
            val = [tr(e) for e in val]
        else:
            val = tr(val)
        _np.ndarray.__setitem__(self, k, val)


def _method(name):
    def f(*a, **kw):
        x = a[0]
        if isinstance(x, (list, tuple)) and any(_sym_scalar(e) for e in x):
            # a sequence holding symbolic scalars: elementwise, as numpy would do on the converted array
            return _obj([f(e, *a[1:]) for e in x])
        if isinstance(x, _np.ndarray) and x.dtype == object and x.ndim == 1 and any(isinstance(getattr(e, "r", None), R) for e in x):
            return _obj([f(e, *a[1:]) for e in x])
        if isinstance(getattr(x, "r", None), R) and not isinstance(x, (R, Dual)):     # dtmodel.SF / SI
            return getattr(x.r, name)(*a[1:])
        if isinstance(x, _np.ndarray):
            return getattr(_np, name)(*a, **kw)
        if isinstance(x, (R, Dual)):
            return getattr(x, name)(*a[1:])
        if name == "arctan2" and isinstance(a[1], (R, Dual)):
            return type(a[1]).lift(x).arctan2(a[1])
        if isinstance(x, (int, float, _np.generic)):
            # concrete argument inside symbolic execution: keep exact where possible
            return getattr(R.const(x), name)(*a[1:]) if name in ("sqrt",) else getattr(_np, name)(*a, **kw)
        return getattr(_np, name)(*a, **kw)
    f.__name__ = name
    return f


def det3(m):
    return (m[0][0] * (m[1][1] * m[2][2] - m[1][2] * m[2][1])
            - m[0][1] * (m[1][0] * m[2][2] - m[1][2] * m[2][0])
            + m[0][2] * (m[1][0] * m[2][1] - m[1][1] * m[2][0]))


class _Linalg:
    def __init__(self):
        self.inv_hook = None

    @staticmethod
    def norm(x, *a, **kw):
        x = _np.asarray(x, dtype=object)
        if a or kw:
            axis = kw.get("axis", a[1] if len(a) > 1 else None)
            if axis is not None:
                sq = (x * x).sum(axis=axis)
                out = _np.empty(sq.shape, dtype=object)
                for i in _np.ndindex(sq.shape):
                    out[i] = _sqrt(sq[i])
                return out
        tot = 0
        for v in x.flat:
            tot = tot + v * v
        return _sqrt(tot)

    def inv(self, m):
        """exact inverse: 3x3 by cofactors; 6x6 block lower-triangular [[A,0],[B,A']] (what utils.matrix.expand builds)"""
        if self.inv_hook is not None:
            return self.inv_hook(m)
        m = _np.asarray(m, dtype=object)
        if m.shape == (3, 3):
            return inv3(m)
        if m.shape == (6, 6) and all(_is_zero(x) for x in m[:3, 3:].flat):
            a, b, d = m[:3, :3], m[3:, :3], m[3:, 3:]
            ai, di = inv3(a), inv3(d)
            out = _np.empty((6, 6), dtype=object)
            out[...] = 0
            out[:3, :3] = ai
            out[3:, 3:] = di
            if not all(_is_zero(x) for x in b.flat):
                out[3:, :3] = -(di @ b @ ai)
            return out
        raise NotImplementedError("np.linalg.inv on a symbolic matrix of shape %r" % (m.shape,))

    @staticmethod
    def det(m):
        assert m.shape == (3, 3)
        return det3(m)


def _is_zero(x):
    if isinstance(x, R):
        return x.coef == 0
    if isinstance(x, Dual):
        return x.v.coef == 0 and x.d.coef == 0
    return x == 0


def inv3(m):
    d = det3(m)
    c = _np.empty((3, 3), dtype=object)
    for i in range(3):
        for j in range(3):
            r = [k for k in range(3) if k != i]
            q = [k for k in range(3) if k != j]
            minor = m[r[0]][q[0]] * m[r[1]][q[1]] - m[r[0]][q[1]] * m[r[1]][q[0]]
            c[j, i] = (minor if (i + j) % 2 == 0 else -minor) / d
    return c


def _sqrt(v):
    if isinstance(v, (R, Dual)):
        return v.sqrt()
    return R.const(v).sqrt()


class NP:
    """proxy: attribute access falls through to numpy"""
    pi = PI
    ndarray = _np.ndarray
    newaxis = _np.newaxis

    def __init__(self):
        self.linalg = _Linalg()

    def __getattr__(self, k):
        return getattr(_np, k)

    @staticmethod
    def array(x, dtype=None, **kw):
        def flat(y):
            for e in y:
                if isinstance(e, (list, tuple)):
                    yield from flat(e)
                else:
                    yield e
        if dtype is None and isinstance(x, (list, tuple)) and x:
            items = list(flat(x))
            if items and all(isinstance(e, int) and not isinstance(e, bool) for e in items) \
                    and any(isinstance(getattr(e, "r", None), R) for e in items):
                # all Python ints (some symbolic), flat or nested: numpy would infer an integer dtype
                return _np.array([list(r) if isinstance(r, tuple) else r for r in x], dtype=object).view(IntObj)
        return _np.array(x, dtype=object)

    @staticmethod
    def asarray(x, dtype=None, **kw):
        return _np.asarray(x, dtype=object)

    @staticmethod
    def zeros(shape, dtype=None):
        if dtype in (bool, int):
            return _np.zeros(shape, dtype=dtype)
        a = _np.empty(shape, dtype=object)
        a[...] = 0
        return a

    @staticmethod
    def ones(shape, dtype=None):
        a = _np.empty(shape, dtype=object)
        a[...] = 1
        return a

    @staticmethod
    def identity(n, dtype=None):
        if dtype in (bool, int):
            return _np.identity(n, dtype=dtype)
        a = _np.empty((n, n), dtype=object)
        a[...] = 0
        for i in range(n):
            a[i, i] = 1
        return a

    eye = identity

    @staticmethod
    def zeros_like(x, dtype=None):
        a = _np.empty(_np.shape(x), dtype=object)
        a[...] = 0
        return a

    @staticmethod
    def diag(x, *a):
        return _np.diag(_np.asarray(x, dtype=object), *a)

    @staticmethod
    def cross(a, b, **kw):
        a = _np.asarray(a, dtype=object)
        b = _np.asarray(b, dtype=object)
        return _np.array([a[1] * b[2] - a[2] * b[1], a[2] * b[0] - a[0] * b[2], a[0] * b[1] - a[1] * b[0]], dtype=object)

    @staticmethod
    def dot(a, b):
        return _np.dot(_np.asarray(a, dtype=object), _np.asarray(b, dtype=object))

    @staticmethod
    def concatenate(xs, **kw):
        return _np.concatenate([_np.asarray(x, dtype=object) for x in xs], **kw)

    @staticmethod
    def sign(x):
        if isinstance(getattr(x, "r", None), R):      # dtmodel.SF / SI
            x = x.r
        if isinstance(x, (R, Dual)):
            if x > 0:
                return 1
            if x < 0:
                return -1
            return 0
        return _np.sign(x)

    @staticmethod
    def abs(x):
        if isinstance(x, (R, Dual)):
            return abs(x)
        return _np.abs(x)

    fabs = abs

    @staticmethod
    def isclose(a, b, rtol=1e-05, atol=1e-08):
        if isinstance(a, (R, Dual)) or isinstance(b, (R, Dual)):
            a, b = R.lift(a), R.lift(b)
            return abs(a - b) <= atol + rtol * abs(b)
        return _np.isclose(a, b, rtol=rtol, atol=atol)


for _k in ("cos sin tan arccos arcsin arctan arctan2 sqrt cbrt degrees radians deg2rad rad2deg sinh cosh arctanh arccosh arcsinh log floor").split():
    setattr(NP, _k, staticmethod(_method(_k)))

_FUNCS = ("cos sin tan arccos arcsin arctan arctan2 sqrt cbrt degrees radians deg2rad rad2deg sinh cosh arctanh arccosh arcsinh log floor").split()


def load(modname, extra=None):
    """(re)import a repository module from /repo's working tree and replace numeric module globals"""
    mod = importlib.import_module(modname)
    npx = NP()
    for k in _FUNCS:
        cur = getattr(mod, k, None)
        if cur is not None and not isinstance(cur, types.ModuleType) and (isinstance(cur, _np.ufunc) or
                                                                          getattr(cur, "__module__", None) in ("math", "numpy")
                                                                          or getattr(cur, "__name__", None) == k):
            # numeric functions only (a module-level `log = logging.getLogger(...)` is not one)
            setattr(mod, k, _method(k))
    if hasattr(mod, "np"):
        mod.np = npx
    if hasattr(mod, "pi"):
        mod.pi = PI
    if hasattr(mod, "norm") and callable(getattr(mod, "norm")):
        mod.norm = npx.linalg.norm
    if hasattr(mod, "linalg") and getattr(mod, "linalg") is _np.linalg:
        mod.linalg = npx.linalg
    for k in ("array", "zeros", "identity", "cross", "dot", "sign"):
        if getattr(mod, k, None) is getattr(_np, k):
            setattr(mod, k, getattr(npx, k))
    if extra:
        for k, v in extra.items():
            setattr(mod, k, v)
    mod.__symx_np__ = npx
    return mod


def vec(*xs):
    return _np.array(list(xs), dtype=object)
