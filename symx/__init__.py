import os
import sys

# VF_REPO=<dir>: analyse another checkout of the repository (a seeded scratch worktree) instead of /repo.  The repository is
# installed in /venv in development mode, whose .pth entry is placed in front of PYTHONPATH, hence the explicit insert.
if os.environ.get("VF_REPO"):
    sys.path.insert(0, os.environ["VF_REPO"])
