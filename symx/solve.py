"""symx.solve -- obligations as SMT-LIB2 text, decided in worker processes under a hard timeout."""
import json
import os
import subprocess
import sys
import tempfile
import time

import z3

from . import core
from .core import CTX, sliced


def _collect_decls(s):
    return s.sexpr()


def make_ob(name, goals, extra=(), vars=(), expect="unsat", timeout=60, solver="z3", desc="", replay=None,
            slice_=True, raw_constraints=None, tags=()):
    """Obligation: (precondition & path condition & definitions) ==> not any(goals).
    goals: list of z3 Bool terms -- the *negated* property (a disjunction of ways to be wrong)."""
    goals = [g for g in goals]
    simp = [z3.simplify(g) for g in goals]
    if expect == "unsat" and all(z3.is_false(g) for g in simp):
        return dict(name=name, smt2=None, trivial=True, expect=expect, desc=desc, vars=list(vars),
                    replay=replay, timeout=timeout, solver=solver, tags=list(tags))
    s = z3.Solver()
    extra = [e.t if isinstance(e, core.SB) else e for e in extra]
    if raw_constraints is not None:
        cons = list(raw_constraints)
    elif slice_:
        cons = sliced(goals, list(extra) + list(CTX.pre))
    else:
        cons = list(CTX.cons) + [t != 0 for t in CTX.nz.values()] + core.PI_BOUNDS
    for c in cons:
        s.add(c)
    for c in CTX.pre:
        s.add(c)
    for c in extra:
        s.add(c)
    s.add(z3.Or(goals) if len(goals) != 1 else goals[0])
    return dict(name=name, smt2=s.sexpr(), trivial=False, expect=expect, desc=desc, vars=list(vars),
                replay=replay, timeout=timeout, solver=solver, n_constraints=len(cons) + len(CTX.pre) + len(extra),
                tags=list(tags))


def twin(name, extra=(), vars=(), timeout=60, desc="reachability/vacuity twin: assumptions must be satisfiable",
         over=()):
    """the harness' assumptions (incl. all definitions that the real obligations use) must be satisfiable"""
    s = z3.Solver()
    extra = [e.t if isinstance(e, core.SB) else e for e in extra]
    cons = sliced(list(over), list(extra) + list(CTX.pre)) if over else \
        list(CTX.cons) + [t != 0 for t in CTX.nz.values()] + core.PI_BOUNDS
    for c in cons + list(CTX.pre) + list(extra):
        s.add(c)
    return dict(name=name, smt2=s.sexpr(), trivial=False, expect="sat", desc=desc, vars=list(vars), replay=None,
                timeout=timeout, solver="z3", n_constraints=len(cons), tags=["twin"])


# --------------------------------------------------------------------------- worker side
def _val(v):
    if z3.is_int_value(v):
        return v.as_long()
    if z3.is_rational_value(v):
        f = v.as_fraction()
        return [f.numerator, f.denominator] if f.denominator != 1 else f.numerator
    if z3.is_algebraic_value(v):
        return float(v.approx(20).as_fraction())
    if z3.is_true(v):
        return True
    if z3.is_false(v):
        return False
    if z3.is_string_value(v):
        return v.as_string()
    if z3.is_fp(v):
        return str(v)
    return str(v)


def worker_main(path):
    ob = json.load(open(path))
    t0 = time.time()
    out = {"status": "unknown", "model": {}, "time": 0.0, "reason": ""}
    try:
        if ob.get("solver", "z3") == "z3":
            # 16 workers share 62 GB: a query that needs more than its share is reported inconclusive, not OOM-killed
            z3.set_param("memory_max_size", int(os.environ.get("VF_Z3_MEM_MB", "3500")))
            s = z3.Solver()
            s.set("timeout", int(ob["timeout"] * 1000))
            s.from_string(ob["smt2"])
            r = s.check()
            out["status"] = str(r)
            if str(r) == "unknown":
                out["reason"] = s.reason_unknown()
            if str(r) == "sat":
                m = s.model()
                names = set(ob.get("vars") or [])
                for d in m.decls():
                    if d.arity() == 0 and (not names or d.name() in names):
                        out["model"][d.name()] = _val(m[d])
        else:
            raise RuntimeError("worker handles z3 only")
    except Exception as e:  # noqa
        out["status"] = "error"
        out["reason"] = repr(e)[:500]
    out["time"] = round(time.time() - t0, 3)
    print(json.dumps(out))


def _run_cvc5(ob, tmpdir):
    p = os.path.join(tmpdir, f"q{os.getpid()}_{abs(hash(ob['name'])) % 10**8}.smt2")
    with open(p, "w") as f:
        if "(set-logic" not in ob["smt2"]:
            f.write("(set-logic ALL)\n")
        f.write(ob["smt2"])
        if "(check-sat)" not in ob["smt2"]:
            f.write("\n(check-sat)\n")
        if ob.get("vars"):
            f.write("(get-value (" + " ".join(ob["vars"]) + "))\n")
    t0 = time.time()
    args = ["cvc5", "--produce-models", f"--tlimit={int(ob['timeout'] * 1000)}"] + ob.get("cvc5_args", []) + [p]
    try:
        r = subprocess.run(args, capture_output=True, text=True, timeout=ob["timeout"] + 10)
        txt = r.stdout.strip()
        first = txt.splitlines()[0] if txt else ""
        st = first if first in ("sat", "unsat", "unknown") else "unknown"
        if "(error" in txt or "error" in r.stderr.lower():
            st = "error" if st not in ("sat", "unsat") or "(error" in txt.splitlines()[0] else st
        return {"status": st, "model_text": txt[len(first):].strip()[:4000], "model": {}, "time": round(time.time() - t0, 3),
                "reason": r.stderr.strip()[:300]}
    except subprocess.TimeoutExpired:
        return {"status": "timeout", "model": {}, "time": round(time.time() - t0, 3), "reason": "hard timeout"}
    finally:
        try:
            os.unlink(p)
        except OSError:
            pass


def solve_one(ob, tmpdir):
    """run one obligation in a child process; hard-kill after timeout + margin"""
    if ob.get("force_status"):
        return {"status": ob["force_status"], "model": {}, "time": 0.0, "reason": "front end reported an inconclusive verdict"}
    if ob.get("trivial"):
        return {"status": ob["expect"], "model": {}, "time": 0.0, "reason": "goal normalised to false syntactically"}
    if ob.get("solver") == "cvc5":
        return _run_cvc5(ob, tmpdir)
    fd, p = tempfile.mkstemp(suffix=".json", dir=tmpdir)
    with os.fdopen(fd, "w") as f:
        json.dump({k: ob[k] for k in ("smt2", "vars", "timeout", "solver")}, f)
    t0 = time.time()
    try:
        r = subprocess.run([sys.executable, "-m", "symx.solve", p], capture_output=True, text=True,
                           timeout=ob["timeout"] + 15, cwd=os.path.dirname(os.path.dirname(os.path.abspath(__file__))))
        try:
            return json.loads(r.stdout.strip().splitlines()[-1])
        except Exception:
            return {"status": "error", "model": {}, "time": round(time.time() - t0, 3),
                    "reason": (r.stderr or r.stdout)[-400:]}
    except subprocess.TimeoutExpired:
        return {"status": "timeout", "model": {}, "time": round(time.time() - t0, 3), "reason": "hard timeout"}
    finally:
        try:
            os.unlink(p)
        except OSError:
            pass


if __name__ == "__main__":
    worker_main(sys.argv[1])
