"""C02 -- frame conversions are consistent rigid motions with correct kinematics (DESIGN.md section C02; the numerical content
of the IAU series is outside)."""
import importlib
import itertools
import math
import types

import numpy as np
import z3

from symx import core, solve
from harness import c02m
from symx.case import Case, Holds, Ang, run_cases, replay_cases
from symx.core import R, Dual, CTX, SB, var, PI, explore
from symx.npx import det3
from symx.stubs import carrier, SymDate, FrameStub

PROPERTY = "C02"
FUNCS = ["beyond.utils.matrix:rot1", "beyond.utils.matrix:rot2", "beyond.utils.matrix:rot3", "beyond.utils.matrix:expand",
         "beyond.frames.orient:Orientation.convert_to", "beyond.frames.orient:Orientation.PEF_to_TOD",
         "beyond.frames.orient:Orientation.TIRF_to_CIRF", "beyond.frames.orient:LocalOrbitalOrientation._to_parent",
         "beyond.frames.center:Center.convert_to", "beyond.frames.center:Center._to_parent", "beyond.frames.frames:Frame.transform",
         "beyond.frames.frames:orbit2frame", "beyond.frames.iau1980:_sideral", "beyond.frames.iau1980:rate", "beyond.frames.iau2010:rate",
         "beyond.frames.iau1980:_precesion", "beyond.frames.iau1980:precesion", "beyond.frames.iau1980:_nutation",
         "beyond.frames.iau1980:nutation", "beyond.frames.iau1980:equinox", "beyond.frames.iau1980:sideral",
         "beyond.frames.iau1980:_earth_orientation", "beyond.frames.iau1980:earth_orientation",
         "beyond.frames.iau2010:_sideral", "beyond.frames.iau2010:sideral", "beyond.frames.iau2010:_earth_orientation",
         "beyond.frames.iau2010:earth_orientation", "beyond.frames.iau2010:_planets", "beyond.frames.iau2010:_xysxy2",
         "beyond.frames.iau2010:_xys", "beyond.frames.iau2010:precesion_nutation"]
STUBS = ["path composition: every <A>_to_<B> provider of the real orientation graph -> typed formal rotation (generator of the free "
         "groupoid); np.linalg.inv -> formal inverse; products reduce words", "kinematics: iau1980/2010.sideral -> the real rot3 of a "
         "time-dependent angle (dual number), rate -> (0, 0, w)", "orbit-attached frame: reference orbit -> object-dtype Carrier; "
         "np.linalg.inv -> exact cofactor inverse", "date -> object with a symbolic julian_century for the GMST polynomial",
         "models: Date -> DStub exposing symbolic julian_century / d / jd per scale and symbolic EOP values; the 106-row (1980) and "
         "1600-row (2000) series tables -> 1-3 rows of symbolic coefficients; for the matrix-arrangement cases the angle providers "
         "(_precesion, _nutation, _sideral, _earth_orientation, _xys) -> symbolic angles; cos/sin of a polynomial argument -> one "
         "unit-circle atom per distinct argument term"]
ASSUMPTIONS = ["exact reals", "providers are arbitrary rotations for the path-composition clause (holds for any content of the IAU models)"]
OUTSIDE = ["the numbers inside the 106-row and 1600-row IERS series tables (no independent copy offline; the series *evaluation* is "
           "checked on symbolic tables) and therefore the numerical 1980-vs-2010 agreement < 0.1 arcsec; the EOP file readers (C03)",
           "the reference constants of the models are transcribed from Vallado / IERS Conventions by the harness author",
           "EOP missing policy (C03)"]
ORIENTS = ["EME2000", "MOD", "TOD", "TEME", "PEF", "ITRF", "TIRF", "CIRF", "GCRF", "G50"]


def _name(f):
    return getattr(f, "name", f)


def bounds(tier):
    return {"orientations": len(ORIENTS), "triples": "all 1000 ordered triples (symbolic indices)"}


def mat(env):
    return env.mod("beyond.utils.matrix") if env.symbolic else importlib.import_module("beyond.utils.matrix")


# --------------------------------------------------------------------------- (a) elementary rotations
def rot_case(k):
    ins = [("a", "angle", {"lo": "free"}), ("b", "angle", {"lo": "free"})]

    def run(env, v):
        m = mat(env)
        rot = getattr(m, f"rot{k}")
        A, B, AB = rot(v["a"]), rot(v["b"]), rot(v["a"] + v["b"])
        Z = rot(v["a"] * 0) if env.symbolic else rot(0.0)
        return {"orth": A @ A.T, "det": det3(A), "compose": A @ B - AB, "zero": Z, "inverse": rot(-v["a"]) - A.T,
                "axis_fixed": list(A[k - 1]), "passive": list(A @ _unit(env, k, v["a"]))}

    def ref(env, v, out):
        I = env.np.identity(3)
        Z = env.np.zeros((3, 3))
        ax = [0, 0, 0]
        ax[k - 1] = 1
        i, j = [(1, 2), (2, 0), (0, 1)][k - 1]
        e = [0, 0, 0]
        e[i] = 1
        return {"orth": I, "det": 1, "compose": Z, "zero": I, "inverse": Z, "axis_fixed": ax, "passive": e}
    return Case(f"rot{k}", ins, run, ref, timeout=60, tol=1e-9, abs_tol=1e-9,
                desc=f"rot{k}: proper rotation about axis {k} (orthonormal, det +1, rot(a) rot(b) = rot(a+b), rot(0) = I, rot(-a) = rot(a)^T) "
                     "in the passive (frame rotation) convention")


def _unit(env, k, a):
    """the vector that a passive rotation by a about axis k brings onto the first of the two other axes"""
    i, j = [(1, 2), (2, 0), (0, 1)][k - 1]
    v = [0, 0, 0]
    v[i] = env.cos(a)
    v[j] = env.sin(a)
    return env.vec(*v)


# --------------------------------------------------------------------------- (b) velocity = time derivative of position
def kinematic_case(which):
    """the real provider (PEF_to_TOD / TIRF_to_CIRF) + expand: converted velocity = d/dt of converted position when the sidereal
    angle grows at the rate returned by rate(); and the way back (matrix inverse) undoes it"""
    ins = [("th", "angle", {"lo": "free"}), ("w", "pos")] + [(k, "real") for k in ("x", "y", "z", "vx", "vy", "vz")]
    modname = "beyond.frames.iau1980" if which == "PEF_to_TOD" else "beyond.frames.iau2010"
    a, b = which.split("_to_")

    def run(env, v):
        if not env.symbolic:
            return run_conc(env, v)
        m = mat(env)
        ori = env.mod("beyond.frames.orient")
        iau = env.mod(modname)
        theta = Dual(v["th"], v["w"])
        if which == "PEF_to_TOD":
            iau.sideral = lambda date, model="mean", eop_correction=True, **k: m.rot3(-theta)
        else:
            iau.sideral = lambda date: m.rot3(-theta)
        iau.rate = lambda date: env.np.array([0, 0, v["w"]])
        M, rate = getattr(ori.Orientation, which)(getattr(ori, a), None)
        Mv = np.array([[x.v if isinstance(x, Dual) else x for x in row] for row in M], dtype=object)
        M6 = m.expand(Mv, rate)
        r = [Dual(v["x"], v["vx"]), Dual(v["y"], v["vy"]), Dual(v["z"], v["vz"])]
        moved = [sum(M[i][j] * r[j] for j in range(3)) for i in range(3)]          # position in the target frame, as a function of time
        moved = [x if isinstance(x, Dual) else Dual(x, 0) for x in moved]
        state = env.vec(v["x"], v["y"], v["z"], v["vx"], v["vy"], v["vz"])
        out6 = M6 @ state
        inv = env.np.linalg.inv(M6)
        back = inv @ out6
        return {"pos": [out6[i] - moved[i].v for i in range(3)], "vel": [out6[3 + i] - moved[i].d for i in range(3)],
                "back": [back[i] - state[i] for i in range(6)]}

    def run_conc(env, v):
        from beyond.frames import orient
        from beyond.dates import Date
        from beyond.utils.matrix import expand
        d0 = Date(2016, 5, 5, 12)
        h = 0.5
        pos = np.array([v["x"], v["y"], v["z"]], dtype=float) * 1e6 + np.array([7e6, 0, 0])
        vel = np.array([v["vx"], v["vy"], v["vz"]], dtype=float) * 1e3
        A, B = getattr(orient, a), getattr(orient, b)

        def conv(date, p):
            return (A.convert_to(date, B) @ np.concatenate([p, vel]))
        from datetime import timedelta
        c0 = conv(d0, pos)
        cp = conv(d0 + timedelta(seconds=h), pos + vel * h)
        cm = conv(d0 - timedelta(seconds=h), pos - vel * h)
        num = (cp[:3] - cm[:3]) / (2 * h)
        back = B.convert_to(d0, A) @ c0
        return {"pos": [0.0] * 3, "vel": list((c0[3:] - num) / 7e3), "back": list((back - np.concatenate([pos, vel])) / 7e6)}

    def ref(env, v, out):
        return {"pos": [0] * 3, "vel": [0] * 3, "back": [0] * 6}
    return Case(f"kinematics/{which}", ins, run, ref, timeout=90, tol=0, abs_tol=1e-6,
                desc=f"{which}: with the rotation provided by the real code and the rate vector it returns, the converted velocity is the "
                     "time derivative of the converted position (Earth-rotation coupling: sign and axis), and the inverse conversion undoes it")


def gmst_rate_case():
    """the Earth-rotation rate constant equals the time derivative of the code's own GMST polynomial to 1e-9 rad/s over 1973-2018"""
    ins = [("t", "real")]

    def pre(v):
        return [v["t"] > -0.27, v["t"] < 0.18]

    def run(env, v):
        iau = env.mod("beyond.frames.iau1980") if env.symbolic else importlib.import_module("beyond.frames.iau1980")

        class D:
            eop = types.SimpleNamespace(lod=0)

            def change_scale(self, s):
                return types.SimpleNamespace(julian_century=(Dual(v["t"], 1) if env.symbolic else float(v["t"])))
        w = iau.rate(D())[2]
        if env.symbolic:
            th = iau._sideral(D(), model="mean")                 # degrees; derivative per Julian century
            dth = th.d
            CTX.assume(core.PI_T > z3.RealVal("3.14159265358"), core.PI_T < z3.RealVal("3.14159265359"))
            rad_per_s = dth * PI / 180 / (36525 * 86400)
            diff = rad_per_s - w
            return {"rate_matches_gmst_slope": Holds((diff < 1e-9) & (diff > -1e-9))}
        h = 1e-6
        D1 = type("D1", (), {"eop": D.eop, "change_scale": lambda self, s: types.SimpleNamespace(julian_century=float(v["t"]) + h)})
        D0 = type("D0", (), {"eop": D.eop, "change_scale": lambda self, s: types.SimpleNamespace(julian_century=float(v["t"]) - h)})
        d = ((iau._sideral(D1()) - iau._sideral(D0()) + 180) % 360 - 180) / (2 * h)
        return {"rate_matches_gmst_slope": Holds(abs(math.radians(d) / (36525 * 86400) - w) < 1e-8)}

    def ref(env, v, out):
        return {"rate_matches_gmst_slope": None}
    return Case("gmst_rate", ins, run, ref, pre=pre, timeout=60,
                desc="iau1980.rate (lod = 0) equals d/dt of the code's own GMST polynomial to 1e-9 rad/s for every date of 1973-2018")


def rate_vector_case(modname):
    ins = [("lod", "real")]

    def run(env, v):
        iau = env.mod(modname) if env.symbolic else importlib.import_module(modname)
        D = types.SimpleNamespace(eop=types.SimpleNamespace(lod=v["lod"]))
        return {"rate": list(iau.rate(D))}

    def ref(env, v, out):
        return {"rate": [0, 0, env.const(7.292115146706979e-5) * (1 - v["lod"] / 1000 / 86400)]}
    return Case(f"rate_vector/{modname.split('.')[-1]}", ins, run, ref, timeout=30, tol=1e-12, abs_tol=1e-15,
                desc=f"{modname}.rate: the Earth-rotation vector is along +z with magnitude w0 (1 - LOD[ms]/86400000)")


# --------------------------------------------------------------------------- (c) path independence on the real orientation graph
class G:
    """reduced word in the free groupoid generated by the providers: tuple of (name, +1/-1)"""
    def __init__(self, word, src, dst):
        self.word, self.src, self.dst = tuple(word), src, dst

    def __matmul__(self, o):           # self after o
        if not isinstance(o, G):
            return NotImplemented
        if o.word == () and o.src is None:
            return self
        if self.word == () and self.src is None:
            return o
        assert o.dst == self.src, ("ill-typed product", o.dst, self.src)
        w = list(o.word)
        for g in self.word:
            if w and w[-1][0] == g[0] and w[-1][1] == -g[1]:
                w.pop()
            else:
                w.append(g)
        return G(w, o.src, self.dst)

    def inv(self):
        return G([(n, -s) for n, s in reversed(self.word)], self.dst, self.src)


def paths_group():
    from harness.c20 import choice, CHOSEN, DOMAINS
    ori = importlib.import_module("beyond.frames.orient")
    names = [n for n in dir(ori.Orientation) if "_to_" in n and n.split("_to_")[0] in ORIENTS and n.split("_to_")[1] in ORIENTS]
    for n in names:
        a, b = n.split("_to_")
        setattr(ori.Orientation, n, (lambda a, b, n: (lambda self, date: (G([(n, 1)], a, b), None)))(a, b, n))
    ori.expand = lambda m, rate=None: m
    ori.np = types.SimpleNamespace(identity=lambda k: G((), None, None), linalg=types.SimpleNamespace(inv=lambda g: g.inv()))
    paths, bad = [], []

    def setup():
        CHOSEN.clear()

    def body():
        ia, ib, ic = choice("A", len(ORIENTS)), choice("B", len(ORIENTS)), choice("C", len(ORIENTS))
        A, B, C = (getattr(ori, ORIENTS[k]) for k in (ia, ib, ic))
        err = None
        try:
            ab, bc, ac, ba = A.convert_to(None, B), B.convert_to(None, C), A.convert_to(None, C), B.convert_to(None, A)
            comp = bc @ ab if (ia != ib and ib != ic) else (bc if ia == ib else ab)
            w = lambda g: g.word if isinstance(g, G) else ()
            if ia != ib and ib != ic and ia != ic and w(comp) != w(ac):
                err = f"{ORIENTS[ia]}->{ORIENTS[ib]}->{ORIENTS[ic]} differs from {ORIENTS[ia]}->{ORIENTS[ic]}: {w(comp)} vs {w(ac)}"
            if ia != ib and w(ba @ ab) != ():
                err = f"{ORIENTS[ia]}->{ORIENTS[ib]}->{ORIENTS[ia]} is not the identity: {w(ba @ ab)}"
            if ia != ib and (ab.src, ab.dst) != (ORIENTS[ia], ORIENTS[ib]):
                err = f"conversion {ORIENTS[ia]}->{ORIENTS[ib]} is typed {ab.src}->{ab.dst}"
        except Exception as e:  # noqa
            err = f"{type(e).__name__}: {e}"
        return (ORIENTS[ia], ORIENTS[ib], ORIENTS[ic]), err

    for pc, (trip, err) in explore(body, maxpaths=5000, setup=setup):
        paths.append(z3.And(list(CTX.pre) + list(pc)))
        if err:
            bad.append((trip, err, z3.And(list(pc)) if pc else z3.BoolVal(True)))
    obs = []
    s = z3.Solver()
    for nm in "ABC":
        x = z3.Int(nm)
        s.add(x >= 0, x < len(ORIENTS))
    s.add(z3.Not(z3.Or(paths)))
    obs.append(dict(name="paths/exhaustive", smt2=s.sexpr(), trivial=False, expect="unsat", vars=["A", "B", "C"], timeout=300, solver="z3",
                    desc=f"the {len(paths)} explored paths cover every ordered triple of the {len(ORIENTS)} built-in orientations",
                    replay={"kind": "paths"}, n_constraints=len(paths), tags=["coverage"]))
    for k, (trip, err, pc) in enumerate(bad[:20]):
        s = z3.Solver()
        s.add(pc)
        obs.append(dict(name=f"paths/violation{k}", smt2=s.sexpr(), trivial=False, expect="unsat", vars=["A", "B", "C"], timeout=30,
                        solver="z3", desc=f"orientation path {trip}: {err}", replay={"kind": "paths", "triple": list(trip), "err": err},
                        n_constraints=1, tags=["history"]))
    if not bad:
        s = z3.Solver()
        s.add(z3.BoolVal(False))
        obs.append(dict(name="paths/all_ok", smt2=s.sexpr(), trivial=False, expect="unsat", vars=[], timeout=10, solver="z3",
                        desc="for every ordered triple A, B, C of built-in orientations and arbitrary provider contents: convert(A,C) = "
                             "convert(B,C) convert(A,B) and convert(B,A) convert(A,B) = I (reduced words in the free groupoid on the "
                             "providers), every conversion typed source->target", replay={"kind": "paths"}, n_constraints=1, tags=["summary"]))
    tw = z3.Solver()
    tw.add(z3.Int("A") >= 0)
    obs.append(dict(name="paths/twin", smt2=tw.sexpr(), trivial=False, expect="sat", vars=[], timeout=10, solver="z3", desc="twin",
                    replay=None, n_constraints=1, tags=["twin"]))
    return obs, {"paths": len(paths), "providers": names}


# --------------------------------------------------------------------------- (d) orbit-attached frames
RV = ["rx", "ry", "rz", "vx", "vy", "vz"]
XS = ["x", "y", "z", "ux", "uy", "uz"]
_cnt = itertools.count()


def orbitframe_case(orientation, offcentre=False, home_name="EME2000", parent_home=False):
    """offcentre: the reference orbit is expressed in a frame whose centre is displaced from the Earth's centre by a constant
    vector (as an orbit given in a station frame or in another orbit-attached frame would be)"""
    ins = [(k, "real") for k in RV + XS] + ([(k, "real") for k in ("ox", "oy", "oz")] if offcentre else []) + \
          ([("psi", "angle", {"lo": "free"})] if home_name != "EME2000" else [])

    def pre(v):
        r = [v["rx"], v["ry"], v["rz"]]
        vel = [v["vx"], v["vy"], v["vz"]]
        h = [r[1] * vel[2] - r[2] * vel[1], r[2] * vel[0] - r[0] * vel[2], r[0] * vel[1] - r[1] * vel[0]]
        return [h[0] * h[0] + h[1] * h[1] + h[2] * h[2] > 0]

    def run(env, v):
        name = f"vfo{next(_cnt)}"
        if env.symbolic:
            fr = env.mod("beyond.frames.frames")
            for mname in ("beyond.utils.matrix", "beyond.frames.orient", "beyond.frames.center", "beyond.frames.local",
                          "beyond.orbits.forms"):
                env.mod(mname)
            forms = importlib.import_module("beyond.orbits.forms")
            home = getattr(fr, home_name)
            if home_name == "MOD":
                # the rotation MOD -> EME2000 is an arbitrary rotation about z for this clause (its content is models80/*)
                iau = env.mod("beyond.frames.iau1980")
                importlib.import_module("beyond.frames.orient").iau1980 = iau
                iau.precesion = lambda date: mat(env).rot3(v["psi"])
            if offcentre:
                cen = importlib.import_module("beyond.frames.center")
                ori = importlib.import_module("beyond.frames.orient")
                c0 = cen.Center(name + "c", body=cen.Earth.body)
                c0.add_link(cen.Earth, ori.EME2000, env.vec(v["ox"], v["oy"], v["oz"], 0, 0, 0))
                home = fr.Frame(name + "f", ori.EME2000, c0, False)
            ref_orb = carrier([v[k] for k in RV], date=SymDate(0), frame=home, form=forms.CART)
            # parent_home: the frame is attached to the (off-centre) frame of the reference orbit, whose name differs from the
            # name of its orientation (as for an orbit-attached inertial frame, an equatorial station frame, a body frame)
            new = fr.orbit2frame(name, ref_orb, orientation=orientation, **({"parent": home} if parent_home else {}))
            probe = carrier([v[k] for k in XS], date=SymDate(0), frame=fr.EME2000, form=forms.CART)
            in_frame = probe.copy(frame=new)
            back = in_frame.copy(frame=fr.EME2000)
            own = ref_orb.copy(frame=new)
            out = {"own_state_at_origin": list(own), "round_trip": [back[i] - probe[i] for i in range(6)]}
            if home_name != "EME2000":
                # the frame keeps working, and the user's reference state is left alone, after the frame has been used
                again = ref_orb.copy(frame=new)
                same = _name(ref_orb.frame) == home_name and all((ref_orb[i] - v[RV[i]]).coef == 0 for i in range(6))
                out["own_state_again"] = list(again)
                out["reference_untouched"] = Holds(SB(z3.BoolVal(bool(same))))
            if orientation is not None and not offcentre and home_name == "EME2000":
                rel = [v[XS[i]] - v[RV[i]] for i in range(3)]
                out["norm_preserved"] = sum(in_frame[i] * in_frame[i] for i in range(3)) - sum(x * x for x in rel)
                # the frame's axes are the local triad of the reference orbit (independent construction shared with C17)
                from harness import c17
                A = c17.axes(env, {k: v[k] for k in RV}, orientation)
                out["axes"] = [in_frame[i] - sum(A[i][j] * rel[j] for j in range(3)) for i in range(3)]
            return out
        from beyond.frames import frames as fr
        from beyond.orbits import StateVector
        from beyond.dates import Date
        d = Date(2020, 1, 1)
        sc = lambda xs: [xs[0] * 1e6 + 7e6, xs[1] * 1e6, xs[2] * 1e6, xs[3] * 1e3, xs[4] * 1e3 + 7.5e3, xs[5] * 1e3]
        home = home_name
        if offcentre:
            from beyond.frames import center as cen, orient as ori
            c0 = cen.Center(name + "c", body=cen.Earth.body)
            c0.add_link(cen.Earth, ori.EME2000, np.array([v["ox"] * 1e6, v["oy"] * 1e6, v["oz"] * 1e6, 0, 0, 0]))
            home = fr.Frame(name + "f", ori.EME2000, c0, False)
        ref_orb = StateVector(sc([v[k] for k in RV]), d, "cartesian", home)
        new = fr.orbit2frame(name, ref_orb, orientation=orientation, exists_warning=False, **({"parent": home} if parent_home else {}))
        probe = StateVector(sc([v[k] for k in XS]), d, "cartesian", "EME2000")
        in_frame = probe.copy(frame=new)
        back = in_frame.copy(frame="EME2000")
        own = ref_orb.copy(frame=new)
        out = {"own_state_at_origin": list(np.array(own) / 7e6), "round_trip": list((np.array(back) - np.array(probe)) / 7e6)}
        if home_name != "EME2000":
            again = ref_orb.copy(frame=new)
            same = ref_orb.frame.name == home_name and np.allclose(np.array(ref_orb), sc([v[k] for k in RV]), rtol=1e-12, atol=1e-6)
            out["own_state_again"] = list(np.array(again) / 7e6)
            out["reference_untouched"] = Holds(bool(same))
        if orientation is not None and not offcentre and home_name == "EME2000":
            rel = np.array(probe[:3]) - np.array(ref_orb[:3])
            out["norm_preserved"] = float(np.array(in_frame[:3]) @ np.array(in_frame[:3]) - rel @ rel) / 49e12
            from beyond.frames.local import to_local
            A = to_local(orientation, np.array(ref_orb), expanded=False)
            out["axes"] = list((np.array(in_frame[:3]) - A @ rel) / 7e6)
        return out

    def ref(env, v, out):
        r = {"own_state_at_origin": [0] * 6, "round_trip": [0] * 6}
        if home_name != "EME2000":
            r["own_state_again"] = [0] * 6
            r["reference_untouched"] = None
        if orientation is not None and not offcentre and home_name == "EME2000":
            r["norm_preserved"] = 0
            r["axes"] = [0, 0, 0]
        return r
    return Case(f"orbit_frame/{orientation}{'/offcentre' if offcentre else ''}{'/' + home_name if home_name != 'EME2000' else ''}"
                f"{'/parent' if parent_home else ''}", ins, run, ref, pre=pre, timeout=120, tol=0, abs_tol=1e-7,
                desc=f"a frame attached to an orbit (orientation {orientation}): the orbit itself sits at its origin with zero velocity, "
                     "parent -> frame -> parent is the identity for any state, and relative distances are preserved")


def orbitframe_prop_case(orientation):
    """the reference of the frame is an *orbit with a propagator*: given in MOD, while its propagator works in (and returns
    states expressed in) EME2000 -- what KeplerNum does with every orbit that is not given in its own frame, and what an
    ephemeris does after `ephem.frame = ...`.  The state the reference occupies at the date sits at the origin of the frame"""
    ins = [(k, "real") for k in RV + XS] + [("psi", "angle", {"lo": "free"})]

    def pre(v):
        r = [v["rx"], v["ry"], v["rz"]]
        vel = [v["vx"], v["vy"], v["vz"]]
        h = [r[1] * vel[2] - r[2] * vel[1], r[2] * vel[0] - r[0] * vel[2], r[0] * vel[1] - r[1] * vel[0]]
        return [h[0] * h[0] + h[1] * h[1] + h[2] * h[2] > 0]

    def run(env, v):
        name = f"vfp{next(_cnt)}"
        if env.symbolic:
            fr = env.mod("beyond.frames.frames")
            for mname in ("beyond.utils.matrix", "beyond.frames.orient", "beyond.frames.center", "beyond.frames.local",
                          "beyond.orbits.forms"):
                env.mod(mname)
            forms = importlib.import_module("beyond.orbits.forms")
            iau = env.mod("beyond.frames.iau1980")
            importlib.import_module("beyond.frames.orient").iau1980 = iau
            iau.precesion = lambda date: mat(env).rot3(v["psi"])      # MOD <-> EME2000: an arbitrary rotation about z

            class RefOrbit:
                frame = fr.MOD                                       # the frame the user gave the orbit in
                date = SymDate(0)

                def propagate(self, date):                           # the propagator's own frame
                    return carrier([v[k] for k in RV], date=date, frame=fr.EME2000, form=forms.CART)
            ref_orb = RefOrbit()
            new = fr.orbit2frame(name, ref_orb, orientation=orientation)
            now = ref_orb.propagate(SymDate(0))
            probe = carrier([v[k] for k in XS], date=SymDate(0), frame=fr.EME2000, form=forms.CART)
            back = probe.copy(frame=new).copy(frame=fr.EME2000)
            return {"own_state_at_origin": list(now.copy(frame=new)), "round_trip": [back[i] - probe[i] for i in range(6)]}
        from beyond.frames import frames as fr
        from beyond.orbits import StateVector
        from beyond.dates import Date
        d = Date(2020, 1, 1)
        sc = lambda xs: [xs[0] * 1e6 + 7e6, xs[1] * 1e6, xs[2] * 1e6, xs[3] * 1e3, xs[4] * 1e3 + 7.5e3, xs[5] * 1e3]

        class RefOrbit:
            frame = fr.get_frame("ITRF")
            date = d

            def propagate(self, date):
                return StateVector(sc([v[k] for k in RV]), date, "cartesian", "EME2000")
        ref_orb = RefOrbit()
        new = fr.orbit2frame(name, ref_orb, orientation=orientation, exists_warning=False)
        probe = StateVector(sc([v[k] for k in XS]), d, "cartesian", "EME2000")
        back = probe.copy(frame=new).copy(frame="EME2000")
        own = ref_orb.propagate(d).copy(frame=new)
        return {"own_state_at_origin": list(np.array(own) / 7e6), "round_trip": list((np.array(back) - np.array(probe)) / 7e6)}

    def ref(env, v, out):
        return {"own_state_at_origin": [0] * 6, "round_trip": [0] * 6}
    return Case(f"orbit_frame/{orientation}/propagator_frame", ins, run, ref, pre=pre, timeout=120, tol=0, abs_tol=1e-7,
                signature="orbit-attached frame: the propagated reference is taken to be expressed in the frame the orbit was given in",
                desc=f"a frame attached (orientation {orientation}) to an orbit given in one frame whose propagator returns states in "
                     "another: the propagated reference sits at the origin of the frame, parent -> frame -> parent is the identity")


def orbitframe_kepl_case():
    """a frame attached to a state given in *keplerian* form (orientation of its own frame): the state, once expressed in
    cartesian coordinates, sits at the origin of its frame, and parent -> frame -> parent is the identity"""
    ins = [("a", "pos"), ("e", "pos"), ("i", "angle", {"lo": "0"}), ("Om", "angle", {"lo": "0"}), ("om", "angle", {"lo": "0"}),
           ("nu", "angle", {"lo": "0"})] + [(k, "real") for k in XS]

    def pre(v):
        return [v["e"] < 1]

    def run(env, v):
        name = f"vfk{next(_cnt)}"
        el = [v[k] for k in ("a", "e", "i", "Om", "om", "nu")]
        if env.symbolic:
            fr = env.mod("beyond.frames.frames")
            for mname in ("beyond.utils.matrix", "beyond.frames.orient", "beyond.frames.center", "beyond.frames.local",
                          "beyond.orbits.forms"):
                env.mod(mname)
            forms = importlib.import_module("beyond.orbits.forms")
            ref_orb = carrier(el, date=SymDate(0), frame=fr.EME2000, form=forms.KEPL)
            new = fr.orbit2frame(name, ref_orb, orientation=None)
            cart = ref_orb.copy(form="cartesian")
            own = cart.copy(frame=new)
            probe = carrier([v[k] for k in XS], date=SymDate(0), frame=fr.EME2000, form=forms.CART)
            back = probe.copy(frame=new).copy(frame=fr.EME2000)
            return {"own_state_at_origin": list(own), "round_trip": [back[k] - probe[k] for k in range(6)]}
        from beyond.frames import frames as fr
        from beyond.orbits import StateVector
        from beyond.dates import Date
        d = Date(2020, 1, 1)
        el = [7e6 * (1 + abs(float(v["a"])) % 3), min(float(v["e"]), 0.9)] + [float(x) for x in el[2:]]
        ref_orb = StateVector(el, d, "keplerian", "EME2000")
        new = fr.orbit2frame(name, ref_orb, orientation=None, exists_warning=False)
        own = ref_orb.copy(form="cartesian").copy(frame=new)
        sc = lambda xs: [xs[0] * 1e6 + 7e6, xs[1] * 1e6, xs[2] * 1e6, xs[3] * 1e3, xs[4] * 1e3 + 7.5e3, xs[5] * 1e3]
        probe = StateVector(sc([v[k] for k in XS]), d, "cartesian", "EME2000")
        back = probe.copy(frame=new).copy(frame="EME2000")
        return {"own_state_at_origin": list(np.array(own) / 7e6), "round_trip": list((np.array(back) - np.array(probe)) / 7e6)}

    def ref(env, v, out):
        return {"own_state_at_origin": [0] * 6, "round_trip": [0] * 6}
    return Case("orbit_frame/None/keplerian", ins, run, ref, pre=pre, timeout=120, tol=0, abs_tol=1e-7,
                signature="orbit2frame: reference state not in cartesian form",
                desc="a frame attached to a state given in keplerian form: the state sits at the origin of its own frame")


def orbitframe_kin_case(orientation):
    """velocity in an orbit-attached QSW/TNW frame vs the time derivative of the position in that frame: the reference orbit
    moves on a two-body trajectory (r' = v, v' = -mu r/|r|^3, carried as dual numbers through the real to_local / orbit2frame /
    Frame.transform), the probe moves freely (x' = u)."""
    ins = [(k, "real") for k in RV + XS] + [("mu", "pos")]

    def pre(v):
        r = [v["rx"], v["ry"], v["rz"]]
        vel = [v["vx"], v["vy"], v["vz"]]
        h = [r[1] * vel[2] - r[2] * vel[1], r[2] * vel[0] - r[0] * vel[2], r[0] * vel[1] - r[1] * vel[0]]
        return [h[0] * h[0] + h[1] * h[1] + h[2] * h[2] > 0]

    def run(env, v):
        name = f"vfq{next(_cnt)}"
        if env.symbolic:
            fr = env.mod("beyond.frames.frames")
            for mname in ("beyond.utils.matrix", "beyond.frames.orient", "beyond.frames.center", "beyond.frames.local",
                          "beyond.orbits.forms"):
                env.mod(mname)
            forms = importlib.import_module("beyond.orbits.forms")
            r = [v["rx"], v["ry"], v["rz"]]
            rn = env.sqrt(r[0] * r[0] + r[1] * r[1] + r[2] * r[2])
            acc = [-v["mu"] * x / (rn * rn * rn) for x in r]
            ref_state = [Dual(v["rx"], v["vx"]), Dual(v["ry"], v["vy"]), Dual(v["rz"], v["vz"]),
                         Dual(v["vx"], acc[0]), Dual(v["vy"], acc[1]), Dual(v["vz"], acc[2])]
            ref_orb = carrier(ref_state, date=SymDate(0), frame=fr.EME2000, form=forms.CART)
            new = fr.orbit2frame(name, ref_orb, orientation=orientation)
            probe = carrier([Dual(v["x"], v["ux"]), Dual(v["y"], v["uy"]), Dual(v["z"], v["uz"]),
                             Dual(v["ux"], 0), Dual(v["uy"], 0), Dual(v["uz"], 0)], date=SymDate(0), frame=fr.EME2000, form=forms.CART)
            got = probe.copy(frame=new)
            lift = lambda q: q if isinstance(q, Dual) else Dual(q, 0)
            return {"velocity_is_derivative_of_position": [lift(got[3 + i]).v - lift(got[i]).d for i in range(3)]}
        from beyond.frames import frames as fr
        from beyond.orbits import Orbit
        from beyond.dates import Date
        from datetime import timedelta
        d = Date(2020, 1, 1)
        sc = lambda xs: [xs[0] * 1e5 + 7e6, xs[1] * 1e5, xs[2] * 1e5, xs[3] * 1e2, xs[4] * 1e2 + 7.5e3, xs[5] * 1e2]
        ref_orb = Orbit(sc([v[k] for k in RV]), d, "cartesian", "EME2000", "Kepler")
        new = fr.orbit2frame(name, ref_orb, orientation=orientation, exists_warning=False)
        probe = Orbit(sc([v[k] for k in XS]), d, "cartesian", "EME2000", "Kepler")
        # a probe 1 km away so that the rotation of the triad matters
        probe[:3] = np.array(ref_orb[:3]) + np.array([1000.0, 500.0, -300.0])
        h = 0.5
        p0 = np.array(probe.propagate(d).copy(frame=new))
        pp = np.array(probe.propagate(d + timedelta(seconds=h)).copy(frame=new))
        pm = np.array(probe.propagate(d - timedelta(seconds=h)).copy(frame=new))
        num = (pp[:3] - pm[:3]) / (2 * h)
        return {"velocity_is_derivative_of_position": list(p0[3:] - num)}

    def ref(env, v, out):
        return {"velocity_is_derivative_of_position": [0, 0, 0]}
    return Case(f"orbit_frame/{orientation}/kinematics", ins, run, ref, pre=pre, timeout=120, tol=0, abs_tol=1e-3,
                signature="orbit-attached QSW/TNW frames carry no rotation rate",
                desc=f"frame attached to an orbit with {orientation} axes: the velocity of any state expressed in it is the time derivative "
                     "of its position expressed in it (the triad turns with the orbit)")


def all_cases(tier):
    return [rot_case(1), rot_case(2), rot_case(3), kinematic_case("PEF_to_TOD"), kinematic_case("TIRF_to_CIRF"), gmst_rate_case(),
            rate_vector_case("beyond.frames.iau1980"), rate_vector_case("beyond.frames.iau2010"),
            orbitframe_case("QSW"), orbitframe_case("TNW"), orbitframe_case(None),
            orbitframe_case(None, True), orbitframe_case("QSW", True), orbitframe_case("QSW", False, "MOD"),
            orbitframe_case("TNW", False, "MOD"), orbitframe_kepl_case(), orbitframe_kin_case("QSW"),
            orbitframe_case("QSW", True, "EME2000", True), orbitframe_prop_case(None), orbitframe_prop_case("QSW")] + c02m.cases(tier)


def groups(tier):
    g = {c.name.replace("/", "_"): (lambda c=c: run_cases([c])) for c in all_cases(tier)}
    g["paths"] = paths_group
    return g


def replay(ob, model):
    rp = ob.get("replay") or {}
    if rp.get("kind") == "paths":
        if "triple" not in rp:
            return {"reproduced": False, "signature": "paths-exploration", "detail": str(model)}
        from beyond.frames import orient
        from beyond.dates import Date
        a, b, c = (getattr(orient, n) for n in rp["triple"])
        d = Date(2016, 5, 5, 12)
        try:
            lhs = b.convert_to(d, c) @ a.convert_to(d, b)
            rhs = a.convert_to(d, c)
            ok = np.allclose(lhs, rhs, atol=1e-9) and np.allclose(b.convert_to(d, a) @ a.convert_to(d, b), np.identity(6), atol=1e-9)
        except Exception as e:  # noqa
            return {"reproduced": True, "signature": "orientation path", "detail": f"{rp['triple']}: {type(e).__name__}: {e}"}
        return {"reproduced": not ok, "signature": "orientation path", "detail": f"{rp['triple']}: {rp['err']}"}
    return replay_cases(all_cases("thorough"), ob, model)
