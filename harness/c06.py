"""C06 -- numerical propagation: the integrator implements its Runge-Kutta schema with a consistent tableau and the two-body
field it integrates conserves energy and angular momentum (DESIGN.md section C06)."""
import importlib
from fractions import Fraction as Fr
from datetime import timedelta as _td

import numpy as np
import z3

from symx import core, solve
from symx.case import Case, Holds, run_cases, replay_cases
from symx.core import R, CTX, SB, var, uf
from symx.stubs import SymDate, SymTD, carrier

PROPERTY = "C06"
FUNCS = ["beyond.propagators.keplernum:KeplerNum._make_step", "beyond.propagators.keplernum:KeplerNum._accel",
         "beyond.propagators.keplernum:KeplerNum.BUTCHER"]
STUBS = ["_accel -> uninterpreted vector field f(t, y) (6 uninterpreted functions of 7 arguments) for the schema obligations",
         "central body -> object at the origin with symbolic mu for the field obligations", "Date/timedelta -> exact real seconds"]
ASSUMPTIONS = ["exact reals; tableau entries read as the decimals of the stored floats for the schema obligations and compared with the "
               "textbook rationals to 1e-15 separately", "the Runge-Kutta order theorem (order conditions => order of the method)"]
OUTSIDE = ["observed convergence rates and error-per-step bounds of the adaptive methods", "energy / angular-momentum drift bounds over "
           "several orbits", "independence of the output step beyond the iteration contract of C08 (interpolation error)"]

X6 = ["x", "y", "z", "vx", "vy", "vz"]


def bounds(tier):
    return {"steps": 1, "adaptive_iterations": 1 if tier == "quick" else 2, "methods": ["euler", "rk4", "rkf54", "dopri54"]}


def fvec(t, y):
    return np.array([uf(f"f{k}", t, *list(y)) for k in range(6)], dtype=object)


def schema_case(method):
    """one accepted step of _make_step equals y + h sum b_i k_i with k_i = f(t + c_i h, y + h sum_j a_ij k_j), the class's own tableau"""
    ins = [(k, "real") for k in X6] + [("t0", "real"), ("h", "real"), ("tol", "pos")]

    def run(env, v):
        if not env.symbolic:
            return run_conc(env, v)
        kn = env.mod("beyond.propagators.keplernum")
        prop = kn.KeplerNum.__new__(kn.KeplerNum)
        prop.method = method
        prop.step = SymTD(v["h"])
        prop.tol = v["tol"]
        orb = carrier([v[k] for k in X6], date=SymDate(v["t0"]), frame="EME2000", maneuvers=[])
        prop._orbit = orb
        prop._accel = lambda y: fvec(y.date.t, y)
        step, y1 = prop._make_step(orb, SymTD(v["h"]))
        return {"y": list(y1), "date": y1.date.t, "step": step.secs}

    def run_conc(env, v):
        kn = importlib.import_module("beyond.propagators.keplernum")
        from beyond.orbits import Orbit
        from beyond.dates import Date
        prop = kn.KeplerNum(_td(seconds=float(v["h"])), [], method=method, tol=1e9)
        ref0 = Date(2020, 1, 1)
        orb = Orbit([v[k] for k in X6], ref0 + _td(seconds=float(v["t0"])), "cartesian", "EME2000", prop)
        prop.orbit = orb
        prop._accel = lambda y: np.array(conc_f((y.date - ref0).total_seconds(), np.array(y)))
        step, y1 = prop._make_step(prop.orbit, _td(seconds=float(v["h"])))
        return {"y": [float(x) for x in y1], "date": (y1.date - ref0).total_seconds(), "step": step.total_seconds()}

    def conc_f(t, y):
        return [np.sin(t + k) + 0.1 * float(np.dot(y, np.arange(1, 7) + k)) * 1e-3 for k in range(6)]

    def ref(env, v, out):
        kn = importlib.import_module("beyond.propagators.keplernum")
        tab = kn.KeplerNum.BUTCHER[method]
        aa, bb, cc = tab["a"], tab["b"], tab["c"]
        h = v["h"]
        y0 = [v[k] for k in X6]
        f = (lambda t, y: fvec(t, y)) if env.symbolic else (lambda t, y: np.array(conc_f(t, np.array(y, dtype=float))))
        ks = []
        for i in range(len(bb)):
            yi = list(y0)
            for j in range(i):
                a_ij = float(aa[i][j])
                if a_ij != 0.0:
                    yi = [yi[m] + h * env.const(a_ij) * ks[j][m] for m in range(6)]
            ks.append(f(v["t0"] + env.const(float(cc[i])) * h, yi))
        y1 = list(y0)
        for i in range(len(bb)):
            if float(bb[i]) != 0.0:
                y1 = [y1[m] + h * env.const(float(bb[i])) * ks[i][m] for m in range(6)]
        return {"y": y1, "date": v["t0"] + h, "step": h}

    def pre(v):
        return []
    return Case(f"schema/{method}", ins, run, ref, pre=pre, timeout=120, maxpaths=20, tol=1e-9, abs_tol=1e-9, maxdepth=1 if method in ("rkf54", "dopri54") else None,
                desc=f"_make_step ({method}), accepted step: y + h sum b_i k_i with k_i = f(t + c_i h, y + h sum a_ij k_j) for an arbitrary "
                     "(uninterpreted) vector field f, date advanced by h")


def adapt_case(method):
    """adaptive methods: the quantity compared with the tolerance is the norm of h (b - b*) . k on the position part -- for steps of
    either sign --, a step is accepted iff it is <= tol, otherwise the next trial step is min(step_max, h (tol/(2 err))^(1/(s-1)))"""
    ins = [(k, "real") for k in X6] + [("t0", "real"), ("h", "real"), ("tol", "pos")]

    def pre(v):
        return [v["h"] != 0]

    class TolProbe:
        """stands for self.tol: records what it is compared with"""
        def __init__(self, val):
            self.val, self.seen = val, []

        def __ge__(self, o):          # reflected form of  p_error <= tol
            self.seen.append(o)
            return o <= self.val

        def __gt__(self, o):
            self.seen.append(o)
            return o < self.val

        def __truediv__(self, o):
            return self.val / o

        def __rtruediv__(self, o):
            return o / self.val

        def __mul__(self, o):
            return self.val * o
        __rmul__ = __mul__

    def run(env, v):
        if not env.symbolic:
            return run_conc(env, v)
        kn = env.mod("beyond.propagators.keplernum")
        prop = kn.KeplerNum.__new__(kn.KeplerNum)
        prop.method = method
        prop.step = SymTD(abs(v["h"]))
        probe = TolProbe(v["tol"])
        prop.tol = probe
        orb = carrier([v[k] for k in X6], date=SymDate(v["t0"]), frame="EME2000", maneuvers=[])
        prop._orbit = orb
        calls = []
        mins = []

        def acc(y):
            calls.append(y)
            return fvec(y.date.t, y)
        prop._accel = acc

        def _min(a, b):
            mins.append((a, b))
            raise _Stop()
        kn.min = _min
        try:
            try:
                step, y1 = prop._make_step(orb, SymTD(v["h"]))
                accepted = 1
            except _Stop:
                accepted = 0
        finally:
            del kn.min
        tab = kn.KeplerNum.BUTCHER[method]
        s = len(tab["b"])
        if not probe.seen or tab.get("b_star") is None:
            # the step was taken without consulting the tolerance at all: no embedded error estimate reached _make_step
            return {"stages": len(calls), "compared_quantity_squared": 0, "compared_quantity_is_a_norm": Holds(SB(z3.BoolVal(True))),
                    "new_step_power_law": v["tol"], "_e2": 0, "tolerance_consulted": Holds(SB(z3.BoolVal(False)))}
        ks = [fvec(y.date.t, y) for y in calls[:s]]
        err = [sum(v["h"] * core.R.const(float(tab["b"][i] - tab["b_star"][i])) * ks[i][m] for i in range(s)) for m in range(3)]
        e2 = err[0] * err[0] + err[1] * err[1] + err[2] * err[2]
        p_err = probe.seen[0]
        # a norm is non-negative: every factor of odd multiplicity of the compared quantity must be non-negative on its own (asked
        # factor by factor so that a negative step length is found without solving for a non-zero error vector)
        nonneg = SB(z3.BoolVal(p_err.coef >= 0))
        for t, e in p_err.f.values():
            if e % 2:
                nonneg = nonneg & SB(t >= 0)
        out = {"stages": len(calls), "compared_quantity_squared": p_err * p_err, "compared_quantity_is_a_norm": Holds(nonneg),
               "tolerance_consulted": Holds(SB(z3.BoolVal(True)))}
        if not accepted:
            a, b = mins[0]
            ratio = b.secs / v["h"]
            out["new_step_power_law"] = (ratio ** (s - 1)) * 2 * p_err
        else:
            out["new_step_power_law"] = v["tol"]
        out["_e2"] = e2
        return out

    def run_conc(env, v):
        kn = importlib.import_module("beyond.propagators.keplernum")
        from beyond.orbits import Orbit
        from beyond.dates import Date
        from beyond.env.solarsystem import get_body
        res = {}
        for sgn in (1, -1):
            prop = kn.KeplerNum(_td(seconds=120), get_body("Earth"), method=method, tol=1e-3)
            orb = Orbit([7e6, 0, 0, 0, 7.6e3, 500.0], Date(2020, 1, 1), "cartesian", "EME2000", prop)
            prop.orbit = orb
            step, y1 = prop._make_step(prop.orbit, _td(seconds=120 * sgn))
            res[sgn] = abs(step.total_seconds())
        same = abs(res[1] - res[-1]) <= 0.2 * res[1]
        # adaptivity is alive: with a tolerance far below the error of a 120 s step, the step that is taken is shorter
        prop = kn.KeplerNum(_td(seconds=120), get_body("Earth"), method=method, tol=1e-9)
        orb = Orbit([7e6, 0, 0, 0, 7.6e3, 500.0], Date(2020, 1, 1), "cartesian", "EME2000", prop)
        prop.orbit = orb
        step, y1 = prop._make_step(prop.orbit, _td(seconds=120))
        consulted = abs(step.total_seconds()) < 119.0

        # which part of the error estimate is compared: a field whose time dependence only shows in the *position* derivative
        # (its estimate is large on the position part and zero on the velocity part) must shorten the step, the same dependence
        # on the velocity derivative alone must not
        def shortened(component):
            p2 = kn.KeplerNum(_td(seconds=120), get_body("Earth"), method=method, tol=1e-3)
            o2 = Orbit([7e6, 0, 0, 0, 7.6e3, 500.0], Date(2020, 1, 1), "cartesian", "EME2000", p2)
            p2.orbit = o2
            t0 = p2.orbit.date

            def field(y):
                tau = (y.date - t0).total_seconds() / 120.0
                d = np.zeros(6)
                d[component] = 1e3 * tau ** 7
                return d
            p2._accel = field
            st, _ = p2._make_step(p2.orbit, _td(seconds=120))
            return abs(st.total_seconds()) < 119.0
        position_part = shortened(0) and not shortened(3)
        return {"stages": 0, "compared_quantity_squared": 0.0 if position_part else 1.0, "compared_quantity_is_a_norm": Holds(same),
                "new_step_power_law": 0.0, "_e2": 0.0, "tolerance_consulted": Holds(consulted)}

    def ref(env, v, out):
        if not env.symbolic:
            return {"stages": 0, "compared_quantity_squared": 0.0, "compared_quantity_is_a_norm": None, "new_step_power_law": 0.0, "_e2": 0.0,
                    "tolerance_consulted": None}
        kn = importlib.import_module("beyond.propagators.keplernum")
        return {"stages": len(kn.KeplerNum.BUTCHER[method]["b"]), "compared_quantity_squared": out["_e2"], "compared_quantity_is_a_norm": None,
                "new_step_power_law": v["tol"], "_e2": out["_e2"], "tolerance_consulted": None}
    return Case(f"adapt/{method}", ins, run, ref, pre=pre, timeout=60, maxpaths=20,
                desc=f"{method}: what is compared with the tolerance is |h (b - b*) . k| on the position part (a norm, for forward and "
                     "backward steps); accepted iff <= tol, otherwise the next trial step is min(configured step, "
                     "h (tol/(2 err))^(1/(s-1)))")


class _Stop(Exception):
    pass


def field_case():
    """_accel for one body at the origin: (v, -mu r/|r|^3); along this field energy and angular momentum are conserved"""
    ins = [(k, "real") for k in X6] + [("mu", "pos")]

    def pre(v):
        return [v["x"] * v["x"] + v["y"] * v["y"] + v["z"] * v["z"] > 0]

    def run(env, v):
        if env.symbolic:
            kn = env.mod("beyond.propagators.keplernum")
            prop = kn.KeplerNum.__new__(kn.KeplerNum)

            class Body:
                µ = mu = v["mu"]

                def propagate(self, date):
                    return carrier([0, 0, 0, 0, 0, 0], date=date, frame=None)
            prop.bodies = [Body()]
            orb = carrier([v[k] for k in X6], date=SymDate(0), frame="EME2000", maneuvers=[])
            prop._orbit = orb
            d = prop._accel(orb)
        else:
            kn = importlib.import_module("beyond.propagators.keplernum")
            from beyond.orbits import Orbit
            from beyond.dates import Date
            from beyond.env.solarsystem import get_body
            earth = get_body("Earth")
            prop = kn.KeplerNum(_td(seconds=60), earth)
            sc = 7e6
            orb = Orbit([v["x"] * sc, v["y"] * sc, v["z"] * sc, v["vx"] * 1e3, v["vy"] * 1e3, v["vz"] * 1e3], Date(2020, 1, 1),
                        "cartesian", "EME2000", prop)
            prop.orbit = orb
            d = np.array(prop._accel(prop.orbit))
            r = np.array(prop.orbit[:3])
            vel = np.array(prop.orbit[3:])
            acc = d[3:]
            rn = np.linalg.norm(r)
            return {"dr": list(d[:3] - vel), "energy_rate": float(vel @ acc + earth.mu * (r @ vel) / rn ** 3) / (np.linalg.norm(vel) * np.linalg.norm(acc) + 1e-30),
                    "momentum_rate": list(np.cross(r, acc) / (rn * np.linalg.norm(acc) + 1e-30)), "inward": Holds(float(r @ acc) < 0)}
        r = [v["x"], v["y"], v["z"]]
        vel = [v["vx"], v["vy"], v["vz"]]
        acc = list(d[3:])
        rn = env.sqrt(r[0] * r[0] + r[1] * r[1] + r[2] * r[2])
        dot = lambda a, b: a[0] * b[0] + a[1] * b[1] + a[2] * b[2]
        cr = [r[1] * acc[2] - r[2] * acc[1], r[2] * acc[0] - r[0] * acc[2], r[0] * acc[1] - r[1] * acc[0]]
        return {"dr": [d[k] - vel[k] for k in range(3)], "energy_rate": dot(vel, acc) + v["mu"] * dot(r, vel) / rn ** 3,
                "momentum_rate": cr, "inward": Holds(dot(r, acc) < 0)}

    def ref(env, v, out):
        return {"dr": [0, 0, 0], "energy_rate": 0, "momentum_rate": [0, 0, 0], "inward": None}
    return Case("field", ins, run, ref, pre=pre, timeout=120, tol=0, abs_tol=1e-9,
                desc="_accel with one body at the origin: d/dt r = v, and the acceleration is central and attractive with "
                     "d/dt(v^2/2 - mu/|r|) = 0 and d/dt(r x v) = 0")


# --------------------------------------------------------------------------- tableau: textbook values and order conditions
TEXTBOOK = {
    "euler": {"a": [[]], "b": ["1"], "c": ["0"]},
    "rk4": {"a": [[], ["1/2"], ["0", "1/2"], ["0", "0", "1"]], "b": ["1/6", "1/3", "1/3", "1/6"], "c": ["0", "1/2", "1/2", "1"]},
    "rkf54": {"a": [[], ["1/4"], ["3/32", "9/32"], ["1932/2197", "-7200/2197", "7296/2197"], ["439/216", "-8", "3680/513", "-845/4104"],
                    ["-8/27", "2", "-3544/2565", "1859/4104", "-11/40"]],
              "b": ["16/135", "0", "6656/12825", "28561/56430", "-9/50", "2/55"],
              "b_star": ["25/216", "0", "1408/2565", "2197/4104", "-1/5", "0"], "c": ["0", "1/4", "3/8", "12/13", "1", "1/2"]},
    "dopri54": {"a": [[], ["1/5"], ["3/40", "9/40"], ["44/45", "-56/15", "32/9"], ["19372/6561", "-25360/2187", "64448/6561", "-212/729"],
                      ["9017/3168", "-355/33", "46732/5247", "49/176", "-5103/18656"],
                      ["35/384", "0", "500/1113", "125/192", "-2187/6784", "11/84"]],
                "b": ["35/384", "0", "500/1113", "125/192", "-2187/6784", "11/84", "0"],
                "b_star": ["5179/57600", "0", "7571/16695", "393/640", "-92097/339200", "187/2100", "1/40"],
                "c": ["0", "1/5", "3/10", "4/5", "8/9", "1", "1"]},
}
ORDER = {"euler": 1, "rk4": 4, "rkf54": 5, "dopri54": 5}
STAR_ORDER = {"rkf54": 4, "dopri54": 4}


def _order_conditions(a, b, c, p):
    """rooted-tree order conditions up to order p (p <= 5), exact rationals"""
    s = len(b)
    A = [[a[i][j] if j < len(a[i]) else Fr(0) for j in range(s)] for i in range(s)]
    conds = []

    def add(name, lhs, rhs):
        conds.append((name, lhs, rhs))
    ones = [Fr(1)] * s
    Ac = [sum(A[i][j] * c[j] for j in range(s)) for i in range(s)]
    Ac2 = [sum(A[i][j] * c[j] ** 2 for j in range(s)) for i in range(s)]
    Ac3 = [sum(A[i][j] * c[j] ** 3 for j in range(s)) for i in range(s)]
    AAc = [sum(A[i][j] * Ac[j] for j in range(s)) for i in range(s)]
    AAc2 = [sum(A[i][j] * Ac2[j] for j in range(s)) for i in range(s)]
    AAAc = [sum(A[i][j] * AAc[j] for j in range(s)) for i in range(s)]
    AcAc = [sum(A[i][j] * c[j] * Ac[j] for j in range(s)) for i in range(s)]
    dot = lambda u, w: sum(x * y for x, y in zip(u, w))
    mul = lambda *vs: [__import__("functools").reduce(lambda x, y: x * y, t) for t in zip(*vs)]
    if p >= 1:
        add("sum b = 1", sum(b), Fr(1))
    if p >= 2:
        add("b.c = 1/2", dot(b, c), Fr(1, 2))
    if p >= 3:
        add("b.c^2 = 1/3", dot(b, mul(c, c)), Fr(1, 3))
        add("b.Ac = 1/6", dot(b, Ac), Fr(1, 6))
    if p >= 4:
        add("b.c^3 = 1/4", dot(b, mul(c, c, c)), Fr(1, 4))
        add("b.(c*Ac) = 1/8", dot(b, mul(c, Ac)), Fr(1, 8))
        add("b.Ac^2 = 1/12", dot(b, Ac2), Fr(1, 12))
        add("b.AAc = 1/24", dot(b, AAc), Fr(1, 24))
    if p >= 5:
        add("b.c^4 = 1/5", dot(b, mul(c, c, c, c)), Fr(1, 5))
        add("b.(c^2*Ac) = 1/10", dot(b, mul(c, c, Ac)), Fr(1, 10))
        add("b.(c*Ac^2) = 1/15", dot(b, mul(c, Ac2)), Fr(1, 15))
        add("b.(c*AAc) = 1/30", dot(b, mul(c, AAc)), Fr(1, 30))
        add("b.(Ac*Ac) = 1/20", dot(b, mul(Ac, Ac)), Fr(1, 20))
        add("b.Ac^3 = 1/20", dot(b, Ac3), Fr(1, 20))
        add("b.A(c*Ac) = 1/40", dot(b, AcAc), Fr(1, 40))
        add("b.AAc^2 = 1/60", dot(b, AAc2), Fr(1, 60))
        add("b.AAAc = 1/120", dot(b, AAAc), Fr(1, 120))
    for i in range(s):
        add(f"row sum {i}: c_i = sum_j a_ij", sum(A[i]), c[i])
    return conds


def tableau_group():
    kn = importlib.import_module("beyond.propagators.keplernum")
    obs = []
    # the entries of a tableau that the integrator actually reads (self.butcher["x"] / self.butcher.get("x") in the source): an
    # entry stored under any other name never reaches it
    import inspect
    import re
    read_keys = set(re.findall(r"butcher(?:\.get\(|\[)\s*[\"']([A-Za-z_]+)[\"']", inspect.getsource(kn.KeplerNum)))
    for method, ref in TEXTBOOK.items():
        tab = kn.KeplerNum.BUTCHER[method]
        ra = [[Fr(x) for x in row] for row in ref["a"]]
        rb = [Fr(x) for x in ref["b"]]
        rc = [Fr(x) for x in ref["c"]]
        # (1) every stored coefficient equals the textbook rational to 1e-15 (one query per method)
        s = z3.Solver()
        bad = []

        def near(val, q, name):
            x = z3.RealVal(repr(float(val)))
            t = z3.RealVal(q.numerator) / z3.RealVal(q.denominator)
            bad.append(z3.Or(x - t > z3.RealVal("1e-15"), t - x > z3.RealVal("1e-15")))
        ok_shape = len(tab["b"]) == len(rb) and len(tab["c"]) == len(rc) and set(tab) <= read_keys and \
            ("b_star" not in ref or tab.get("b_star") is not None)
        if ok_shape:
            for i, q in enumerate(rb):
                near(tab["b"][i], q, f"b{i}")
            for i, q in enumerate(rc):
                near(tab["c"][i], q, f"c{i}")
            aa = tab["a"]
            for i, row in enumerate(ra):
                for j, q in enumerate(row):
                    near(aa[i][j], q, f"a{i}{j}")
            if "b_star" in ref:
                for i, q in enumerate(ref["b_star"]):
                    near(tab["b_star"][i], Fr(q), f"bs{i}")
        s.add(z3.Or(bad + [z3.BoolVal(not ok_shape)]))
        obs.append(dict(name=f"tableau/{method}/values", smt2=s.sexpr(), trivial=False, expect="unsat", vars=[], timeout=30, solver="z3",
                        desc=f"{method}: every a, b, c (and b*) entry of KeplerNum.BUTCHER equals the textbook rational to 1e-15, stored under "
                             f"the names the integrator reads ({sorted(read_keys)})",
                        replay={"kind": "tableau", "method": method}, n_constraints=len(bad), tags=["tableau"]))
        # (2) the textbook tableau satisfies the order conditions (exact rationals), for b and for b*
        for which, bvec, p in (("b", rb, ORDER[method]),) + ((("b_star", [Fr(x) for x in ref["b_star"]], STAR_ORDER[method]),) if "b_star" in ref else ()):
            conds = _order_conditions(ra, bvec, rc, p)
            s = z3.Solver()
            s.add(z3.Or([z3.RealVal(l.numerator) / z3.RealVal(l.denominator) != z3.RealVal(r.numerator) / z3.RealVal(r.denominator)
                         for _, l, r in conds]))
            obs.append(dict(name=f"tableau/{method}/order_{which}", smt2=s.sexpr(), trivial=False, expect="unsat", vars=[], timeout=30,
                            solver="z3", desc=f"{method} ({which}): the {len(conds)} rooted-tree order conditions up to order {p} and the row-sum "
                                              "conditions hold exactly", replay={"kind": "tableau", "method": method}, n_constraints=len(conds),
                            tags=["tableau"]))
    tw = z3.Solver()
    tw.add(z3.Real("x") > 0)
    obs.append(dict(name="tableau/twin", smt2=tw.sexpr(), trivial=False, expect="sat", vars=[], timeout=10, solver="z3", desc="twin",
                    replay=None, n_constraints=1, tags=["twin"]))
    return obs, {"paths": len(TEXTBOOK)}


def config_case():
    """a propagated orbit carries `propagator.copy()`: the copy must be configured like the original (step, bodies, method,
    frame and the tolerance of the adaptive methods), otherwise propagating a returned orbit further silently integrates with
    other settings than the ones asked for"""
    ins = [("tol", "pos"), ("h", "pos")]

    def run(env, v):
        import importlib
        kn = env.mod("beyond.propagators.keplernum") if env.symbolic else importlib.import_module("beyond.propagators.keplernum")
        if env.symbolic:
            from symx.stubs import SymTD
            body = object()
            p = kn.KeplerNum(SymTD(v["h"]), [body], method="dopri54", frame="MOD", tol=v["tol"])
            q = p.copy()
            same = q.bodies == [body] and q.method == "dopri54" and q.frame == "MOD" and q is not p
            return {"tol": q.tol, "step": q.step.secs, "rest": Holds(SB(z3.BoolVal(bool(same))))}
        from datetime import timedelta
        from beyond.orbits import Orbit
        from beyond.dates import Date
        from beyond.env.solarsystem import get_body
        tol, h = float(v["tol"]) * 1e-6, 30.0 + float(v["h"]) % 60
        p = kn.KeplerNum(timedelta(seconds=h), get_body("Earth"), method="dopri54", tol=tol)
        orb = Orbit([7e6, 0, 0, 0, 7.5e3, 0], Date(2020, 1, 1), "cartesian", "EME2000", p)
        q = orb.propagate(timedelta(seconds=300)).propagator         # public API: what a chained propagation will use
        same = q.method == "dopri54" and [b.name for b in q.bodies] == ["Earth"] and q is not p
        return {"tol": q.tol / tol * float(v["tol"]), "step": q.step.total_seconds() / h * float(v["h"]), "rest": Holds(bool(same))}

    def ref(env, v, out):
        return {"tol": v["tol"], "step": v["h"], "rest": None}
    return Case("config/copy", ins, run, ref, timeout=30, tol=1e-12, abs_tol=0,
                desc="KeplerNum.copy() -- the propagator handed to every propagated orbit -- keeps step, bodies, method, frame and "
                     "the tolerance of the adaptive step control")


def all_cases(tier):
    return [schema_case(m) for m in ("euler", "rk4", "rkf54", "dopri54")] + [adapt_case("rkf54"), adapt_case("dopri54"), field_case(), config_case()]


def groups(tier):
    g = {c.name.replace("/", "_"): (lambda c=c: run_cases([c])) for c in all_cases(tier)}
    g["tableau"] = tableau_group
    return g


def replay(ob, model):
    rp = ob.get("replay") or {}
    if rp.get("kind") == "tableau":
        return {"reproduced": True, "signature": f"Butcher tableau {rp['method']}", "detail": ob["desc"]}
    return replay_cases(all_cases("thorough"), ob, model)
