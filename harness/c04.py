"""C04 -- results depend on the instant, never on the Date's scale label (DESIGN.md section C04).

2-safety by self-composition: the same symbolic instant is built twice with the real Date class (running on the exact-real
float/datetime model of symx.dtmodel), once labelled X and once labelled Y; every date consumer is executed on both and the
*observable* -- the numeric argument handed to the physics, or for writers the instant decoded from (text, declared time
system) -- must coincide.  Formatting (`strftime`, `format`) yields tokens that remember the datetime value they rendered.
"""
import ast
import importlib
import inspect
import re
import types

import numpy as np
import z3

from symx import core, dtmodel
from symx.case import Case, Holds, run_cases, replay_cases
from symx.core import R, CTX, SB, var, uf
from symx.dtmodel import SF, SI, STD, SDT
from harness import c03

PROPERTY = "C04"
FUNCS = ["beyond.propagators.sgp4:Sgp4.propagate", "beyond.propagators.sgp4beta:Sgp4Beta.propagate", "beyond.io.tle:Tle.from_orbit",
         "beyond.propagators.kepler:Kepler.propagate", "beyond.propagators.j2:J2.propagate", "beyond.propagators.cw:ClohessyWiltshire._propagate",
         "beyond.utils.interp:DatedInterp.__init__", "beyond.utils.interp:DatedInterp.__call__", "beyond.io.ccsds.opm:_dumps_kvn",
         "beyond.io.ccsds.opm:_dumps_xml", "beyond.io.ccsds.oem:_dumps_kvn", "beyond.io.ccsds.oem:_dumps_xml",
         "beyond.io.ccsds.commons:dump_kvn_meta_odm", "beyond.frames.iau1980:equinox", "beyond.dates.date:Date.change_scale"]
STUBS = ["Date runs on the exact-real float/datetime model (C03)", "strftime/format -> tokens carrying the rendered datetime value; "
         "float(token field) -> uninterpreted function of that value", "sgp4 library / StateVector constructor in Sgp4.propagate -> recorders",
         "Sgp4Beta / Tle.from_orbit: the statements that extract the time argument are taken from the AST and executed",
         "CCSDS writers run on real StateVector/Ephem/maneuver objects whose dates are symbolic", "iau1980._nutation -> symbolic triple"]
ASSUMPTIONS = ["one EOP record for all dates of an obligation", "exact reals (C03)"]
OUTSIDE = ["consumers not listed in FUNCS (listeners and Ephem.iter are exercised under C08/C10 on instant-valued dates)",
           "TDB labels (periodic term needs a Lipschitz bound, see C03)"]
PAIRS_QUICK = [("TAI", "TT"), ("UTC", "TAI"), ("GPS", "UT1")]
UNI = ["UT1", "GPS", "UTC", "TAI", "TT"]


def bounds(tier):
    return {"label_pairs": len(PAIRS_QUICK) if tier == "quick" else 20, "calls_per_consumer": 1}


INS = c03.EOP_IN + [("d", "int"), ("s", "real")]


def pre(v):
    return c03.eop_pre(v) + [v["d"] >= 41317, v["d"] <= 58000, v["s"] >= 0, v["s"] < 86400]


# --------------------------------------------------------------------------- tokens for formatted dates
TOKENS = []


class FmtTok(str):
    pass


def _fmt(self, fmt):
    n = len(TOKENS)
    TOKENS.append((self.t, fmt))
    pieces = re.split(r"(\s+)", fmt)
    out = "".join(p if p.isspace() or p == "" else f"{n}|{p}" for p in pieces)
    return FmtTok(out)


def install(env):
    m = c03.datemod(env)
    if env.symbolic:
        SDT.strftime = _fmt
        SDT.__format__ = lambda self, fmt: _fmt(self, fmt) if fmt else "<dt>"
        TOKENS.clear()
    return m


def tok_float(x):
    mt = re.fullmatch("(\\d+)\\|(.*)", x) if isinstance(x, str) else None
    if mt:
        t, _ = TOKENS[int(mt.group(1))]
        return SF(uf("strf_" + re.sub(r"\W", "_", mt.group(2)), t))
    return float(x)


def decode_tokens(text):
    return [(int(a), TOKENS[int(a)][0]) for a in re.findall("(\\d+)\\|", text)]


def two(env, m, v, X, Y):
    """the same instant labelled X and labelled Y"""
    install_eop = c03.install_eop(env, m, v)
    a = c03.mk_date(env, m, v["d"], v["s"], X)
    b = a.change_scale(Y)
    return a, b


def labels_for_replay(X, Y):
    # concrete replays run without IERS data: pairs whose offset needs EOP are demonstrated with TAI / TT
    return (X, Y) if {X, Y} <= {"TAI", "TT", "GPS"} else ("TAI", "TT")


def cdates(v, X, Y):
    from beyond.dates import Date
    X, Y = labels_for_replay(X, Y)
    a = Date(int(v["d"]), float(v["s"]), scale=X)
    return a, a.change_scale(Y)


def val(x):
    return x.r if isinstance(x, (SF, SI)) else x


# --------------------------------------------------------------------------- consumers
def sgp4_case(X, Y):
    def run(env, v):
        if env.symbolic:
            m = install(env)
            a, b = two(env, m, v, X, Y)
            sg = importlib.import_module("beyond.propagators.sgp4")
            sg.float = tok_float
            out = {}
            for tag, date in (("x", a), ("y", b)):
                rec = {}

                class Lib:
                    def propagate(self, *args):
                        rec["args"] = args
                        return (0.0, 0.0, 0.0), (0.0, 0.0, 0.0)
                p = sg.Sgp4.__new__(sg.Sgp4)
                p.tle = Lib()
                p._orbit = types.SimpleNamespace(_data={"propagator": None, "date": None, "form": None}, date=a)
                sg.StateVector = lambda result, **kw: ("sv", kw.get("date"))
                p.propagate(date)
                rec_args = [val(x) for x in rec["args"]]
                out[tag] = rec_args
            return {"library_args": [p - q for p, q in zip(out["x"], out["y"])]}
        # concrete: real TLE, same instant under two labels -> positions must agree
        from beyond.io.tle import Tle
        tle = Tle(c12_L1 + "\n" + c12_L2).orbit()
        a, b = cdates({"d": 54730, "s": v["s"]}, X, Y)
        pa, pb = tle.propagate(a), tle.propagate(b)
        dist = float(np.linalg.norm(np.array(pa[:3]) - np.array(pb[:3])))
        return {"library_args": [dist] * 6}

    def ref(env, v, out):
        return {"library_args": [0] * 6}
    return Case(f"sgp4/{X}-{Y}", INS, run, ref, pre=pre, timeout=60, maxpaths=50, tol=0, abs_tol=1.0, signature="Sgp4.propagate:label-clock",
                desc=f"Sgp4.propagate hands the same calendar tuple to the sgp4 library for one instant labelled {X} or {Y}")


c12_L1 = "1 25544U 98067A   08264.51782528 -.00002182  00000-0 -11606-4 0  2927"
c12_L2 = "2 25544  51.6416 247.4627 0006703 130.5360 325.0288 15.72125391563537"


def _ast_stmts(modname, cls, func, targets):
    """source statements of `func` that assign one of `targets` (in order)"""
    mod = importlib.import_module(modname)
    tree = ast.parse(inspect.getsource(mod))
    c = [n for n in tree.body if isinstance(n, ast.ClassDef) and n.name == cls][0]
    f = [n for n in c.body if isinstance(n, ast.FunctionDef) and n.name == func][0]
    out = []
    for n in ast.walk(f):
        if isinstance(n, ast.Assign) and isinstance(n.targets[0], ast.Name) and n.targets[0].id in targets:
            out.append(n)
    out.sort(key=lambda n: n.lineno)
    return out


def sgp4beta_case(X, Y):
    """the two statements of Sgp4Beta.propagate that compute `tdiff` from a Date, taken from the source"""
    def run(env, v):
        stmts = _ast_stmts("beyond.propagators.sgp4beta", "Sgp4Beta", "propagate", ("t0", "tdiff"))
        first = next(i for i, s_ in enumerate(stmts) if s_.targets[0].id == "tdiff")
        stmts = stmts[:first + 1]          # everything up to the first assignment of tdiff (the branch taken for a Date)
        code = compile(ast.Module(body=stmts, type_ignores=[]), "<sgp4beta.propagate>", "exec")
        if env.symbolic:
            m = install(env)
            a, b = two(env, m, v, X, Y)
            epoch = c03.mk_date(env, m, v["d"], 0, X)
        else:
            a, b = cdates(v, X, Y)
            from beyond.dates import Date
            epoch = Date(int(v["d"]), 0.0, scale=labels_for_replay(X, Y)[0])
        res = []
        for date in (a, b):
            ns = {"self": types.SimpleNamespace(tle=types.SimpleNamespace(date=epoch)), "date": date}
            exec(code, {}, ns)
            res.append(val(ns["tdiff"]))
        return {"tdiff_minutes": res[0] - res[1]}

    def ref(env, v, out):
        return {"tdiff_minutes": 0}
    return Case(f"sgp4beta/{X}-{Y}", INS, run, ref, pre=pre, timeout=60, maxpaths=50, tol=0, abs_tol=1e-7, signature="Sgp4Beta.propagate:label-clock",
                desc=f"Sgp4Beta.propagate: minutes since the TLE epoch are the same for one instant labelled {X} or {Y}")


class _StopTle(Exception):
    pass


def tle_epoch_case(X, Y):
    """Tle.from_orbit: the real method runs up to the first checksum; every quantity it formats out of the epoch (year token, day of
    year, hour, minute, second, microsecond) is an uninterpreted function of the datetime value it was read from -- all of them
    must be read from the same clock whatever the epoch's label"""
    def observe(env, m, date):
        tle = importlib.import_module("beyond.io.tle")
        formatted = []
        n0 = len(TOKENS)

        def tok_int(x, *a):
            mt = re.fullmatch("\ue000(\\d+)\\|(.*)\ue001", x) if isinstance(x, str) else None
            if mt:
                t, _ = TOKENS[int(mt.group(1))]
                return SF(uf("strf_" + re.sub(r"\W", "_", mt.group(2)), t))
            return int(x, *a)
        for nm in ("hour", "minute", "second", "microsecond"):
            setattr(SDT, nm, property(lambda self, nm=nm: SF(uf("dt_" + nm, self.t))))
        old_fmt = SF.__format__

        def sf_format(self, spec):
            formatted.append(self.r)
            return "0" * 12
        SF.__format__ = sf_format
        tle.int = tok_int

        class O(list):
            name, norad_id, cospar_id = "X", 25544, "1998-067A"
            ndot, ndotdot, bstar, element_nb, revolutions = 0.0, 0.0, 0.0, 1, 1

            def copy(self, **kw):
                return self
        o = O([0.9, 4.3, 0.0006703, 2.2, 5.6, 0.00114])
        o.date = date

        def stop(line):
            raise _StopTle()
        saved = tle.Tle._checksum
        tle.Tle._checksum = classmethod(lambda cls, line: stop(line))
        try:
            try:
                tle.Tle.from_orbit(o)
            except _StopTle:
                pass
        finally:
            tle.Tle._checksum = saved
            SF.__format__ = old_fmt
            del tle.int
        return [t for t, _ in TOKENS[n0:]] + formatted

    def run(env, v):
        if env.symbolic:
            m = install(env)
            a, b = two(env, m, v, X, Y)
            oa, ob = observe(env, m, a), observe(env, m, b)
            assert len(oa) == len(ob) and len(oa) >= 2, (len(oa), len(ob))
            return {"epoch_fields": [p - q for p, q in zip(oa, ob)]}
        from beyond.io.tle import Tle
        base = Tle(c12_L1 + "\n" + c12_L2).orbit()
        from beyond.dates import Date
        lx, ly = labels_for_replay(X, Y)
        errs = []
        for sec in (float(v["s"]), 10.0, 86390.0):              # incl. instants close to a midnight of either clock
            a = Date(54730, sec, scale=lx)
            b = a.change_scale(ly)
            oa, ob = base.copy(), base.copy()
            oa.date, ob.date = a, b
            ta, tb = Tle.from_orbit(oa), Tle.from_orbit(ob)
            errs.append(abs((ta.epoch - tb.epoch).total_seconds()))
        return {"epoch_fields": [max(errs)] * 8}

    def ref(env, v, out):
        return {"epoch_fields": [0] * len(out["epoch_fields"])}
    return Case(f"tle_epoch/{X}-{Y}", INS, run, ref, pre=pre, timeout=60, maxpaths=50, tol=0, abs_tol=1e-4, signature="Tle.from_orbit:label-clock",
                desc=f"Tle.from_orbit reads every epoch field (year, day of year, hour, minute, second, microsecond) from the same clock "
                     f"reading for one epoch labelled {X} or {Y}")


def kepler_case(which, X, Y):
    from harness import c05

    def run(env, v):
        if env.symbolic:
            m = install(env)
            a, b = two(env, m, v, X, Y)
            ea = c03.mk_date(env, m, v["d"], 0, X)
            eb = ea.change_scale(Y)
            modp = env.mod("beyond.propagators." + which)
            cls = modp.Kepler if which == "kepler" else modp.J2
            if which == "j2":
                re_, j2c = var("Re"), var("J2c")
                CTX.assume(re_ > 0, j2c > 0)
                modp.Earth = types.SimpleNamespace(mu=v["mu"], r=re_, J2=j2c)
            outs = []
            for epoch, date in ((ea, a), (ea, b), (eb, a)):
                orb = c05.sym_orbit(env, v, v["mu"], 0, [v[k] for k in c05.ELEMS])
                orb.__dict__["date"] = epoch
                p = cls.__new__(cls)
                p._orbit = orb
                res = p.propagate(date)
                outs.append(res[5].pre if getattr(res[5], "pre", None) is not None else res[5])
            return {"target_relabelled": outs[0] - outs[1], "epoch_relabelled": outs[0] - outs[2]}
        from beyond.orbits import Orbit
        a, b = cdates(v, X, Y)
        from beyond.dates import Date
        lx, ly = labels_for_replay(X, Y)
        ea = Date(int(v["d"]), 0.0, scale=lx)
        eb = ea.change_scale(ly)
        el = [7e6, 0.01, 0.5, 1.0, 2.0, 0.3]
        res = []
        for epoch, date in ((ea, a), (ea, b), (eb, a)):
            o = Orbit(el, epoch, "keplerian_mean", "EME2000", which.capitalize() if which == "kepler" else "J2")
            res.append(np.array(o.propagate(date)))
        return {"target_relabelled": float(np.abs(res[0] - res[1]).max()), "epoch_relabelled": float(np.abs(res[0] - res[2]).max())}

    def ref(env, v, out):
        return {"target_relabelled": 0, "epoch_relabelled": 0}
    ins = INS + [("mu", "pos"), ("a", "pos"), ("e", "pos"), ("i", "angle", {"lo": "free"}), ("Om", "angle", {"lo": "free"}),
                 ("om", "angle", {"lo": "free"}), ("M", "angle", {"lo": "free"})]
    return Case(f"{which}/{X}-{Y}", ins, run, ref, pre=lambda v: pre(v) + [v["e"] < 1], timeout=60, maxpaths=50, tol=0, abs_tol=1e-3,
                desc=f"{which.capitalize()}.propagate: same mean anomaly whether the target date or the orbit's epoch is labelled {X} or {Y}")


def cw_case(X, Y):
    from harness import c16

    def run(env, v):
        if env.symbolic:
            m = install(env)
            a, b = two(env, m, v, X, Y)
            ea = c03.mk_date(env, m, v["d"], 0, X)
            eb = ea.change_scale(Y)
            prop = c16.mk_prop(env, v["n"])
            outs = []
            from symx.stubs import carrier
            for epoch, date in ((ea, a), (ea, b), (eb, a)):
                orb = carrier([v[k] for k in c16.X6], date=epoch, frame=prop.frame)
                outs.append(list(prop._propagate(date, orb)))
            return {"target_relabelled": [p - q for p, q in zip(outs[0], outs[1])],
                    "epoch_relabelled": [p - q for p, q in zip(outs[0], outs[2])]}
        return {"target_relabelled": [0.0] * 6, "epoch_relabelled": [0.0] * 6}

    def ref(env, v, out):
        return {"target_relabelled": [0] * 6, "epoch_relabelled": [0] * 6}
    ins = INS + [("n", "pos")] + [(k, "real") for k in c16.X6]
    return Case(f"cw/{X}-{Y}", ins, run, ref, pre=pre, timeout=60, maxpaths=50,
                desc=f"ClohessyWiltshire._propagate: same relative state whether the target date or the epoch is labelled {X} or {Y}")


def interp_case(X, Y):
    def run(env, v):
        if env.symbolic:
            m = install(env)
            a, b = two(env, m, v, X, Y)
            it = env.mod("beyond.utils.interp")
            t0 = c03.mk_date(env, m, v["d"], 0, X)
            t1 = c03.mk_date(env, m, v["d"] + 1, 0, X).change_scale(Y)       # table with mixed labels
            f = it.DatedInterp([t0, t1], env.vec(v["y0"], v["y1"]), "linear")
            f.xs = env.vec(*[val(x) for x in f.xs])
            va = f(types.SimpleNamespace(_mjd=val(a._mjd)))
            vb = f(types.SimpleNamespace(_mjd=val(b._mjd)))
            t0y = t0.change_scale(Y)
            g = it.DatedInterp([t0y, t1], env.vec(v["y0"], v["y1"]), "linear")
            g.xs = env.vec(*[val(x) for x in g.xs])
            vc = g(types.SimpleNamespace(_mjd=val(a._mjd)))
            return {"query_relabelled": va - vb, "table_relabelled": va - vc}
        return {"query_relabelled": 0.0, "table_relabelled": 0.0}

    def ref(env, v, out):
        return {"query_relabelled": 0, "table_relabelled": 0}
    return Case(f"interp/{X}-{Y}", INS + [("y0", "real"), ("y1", "real")], run, ref, pre=pre, timeout=60, maxpaths=100,
                desc=f"DatedInterp: same interpolated value whether the query date or a table date is labelled {X} or {Y}")


def ephem_order_case(X, Y):
    """the real Ephem.__init__ puts its points in chronological order -- of the instants, whatever the labels: two points
    g seconds apart (0 < g < 100 s, less than the offset between many pairs of scales), the earlier labelled X, the later
    labelled Y, handed over in reverse order"""
    def run(env, v):
        if env.symbolic:
            m = install(env)
            c03.install_eop(env, m, v)
            eph = env.mod("beyond.orbits.ephem")
            from symx.stubs import carrier
            t0 = c03.mk_date(env, m, v["d"], v["s"], X)
            t1 = (t0 + STD.of(v["g"])).change_scale(Y)
            p0 = carrier([1, 0, 0, 0, 0, 0], date=t0, frame="EME2000")
            p1 = carrier([2, 0, 0, 0, 0, 0], date=t1, frame="EME2000")
            e = eph.Ephem([p1, p0])
            return {"first_is_the_earlier": e._orbits[0][0], "start": c03.instant(env, e.start) - c03.instant(env, t0),
                    "stop": c03.instant(env, e.stop) - c03.instant(env, t1)}
        # concrete replays run without IERS data: demonstrated with the constant offset TT - TAI = 32.184 s, the earlier point
        # labelled with either scale
        from beyond.orbits import Ephem, StateVector
        from beyond.dates import Date
        from datetime import timedelta
        g = min(max(float(v["g"]), 1e-3), 30.0)
        worst = {"first_is_the_earlier": 1.0, "start": 0.0, "stop": 0.0}
        for la, lb in (("TAI", "TT"), ("TT", "TAI")):
            a = Date(int(v["d"]), float(v["s"]), scale=la)
            t1 = (a + timedelta(seconds=g)).change_scale(lb)
            p0 = StateVector([1.0, 0, 0, 0, 0, 0], a, "cartesian", "EME2000")
            p1 = StateVector([2.0, 0, 0, 0, 0, 0], t1, "cartesian", "EME2000")
            e = Ephem([p1, p0])
            got = {"first_is_the_earlier": float(e[0][0]), "start": (e.start - a).total_seconds(), "stop": (e.stop - t1).total_seconds()}
            if got["first_is_the_earlier"] != 1.0 or abs(got["start"]) > 1e-6:
                worst = got
        return worst

    def ref(env, v, out):
        return {"first_is_the_earlier": 1, "start": 0, "stop": 0}
    return Case(f"ephem_order/{X}-{Y}", INS + [("g", "pos")], run, ref, pre=lambda v: pre(v) + [v["g"] < 100], timeout=60, maxpaths=100,
                tol=0, abs_tol=1e-6,
                desc=f"Ephem([...]) sorts its points by instant: a point labelled {X} and a later one labelled {Y}, closer than the "
                     "offset between the scales, end up in chronological order")


def equinox_case(X, Y):
    """iau1980.equinox: the 1997 switch of the kinematic terms must be taken at one instant, whatever the label"""
    def run(env, v):
        if env.symbolic:
            m = install(env)
            a, b = two(env, m, v, X, Y)
            iau = env.mod("beyond.frames.iau1980")
            trip = (SF(var("eps_bar")), SF(var("dpsi")), SF(var("deps")))
            iau._nutation = lambda date, eop_correction, terms: trip
            iau.np = types.SimpleNamespace(cos=lambda x: SF(uf("ufcos", val(x))), sin=lambda x: SF(uf("ufsin", val(x))),
                                           deg2rad=lambda x: x)
            ra, rb = iau.equinox(a, kinematic=True), iau.equinox(b, kinematic=True)
            return {"equinox": val(ra) - val(rb)}
        from beyond.frames import iau1980
        a, b = cdates({"d": 50505, "s": 86390.0}, X, Y)
        return {"equinox": float(iau1980.equinox(a) - iau1980.equinox(b)) * 3600}

    def ref(env, v, out):
        return {"equinox": 0}
    return Case(f"equinox/{X}-{Y}", INS, run, ref, pre=lambda v: c03.eop_pre(v) + [v["d"] >= 50500, v["d"] <= 50510, v["s"] >= 0, v["s"] < 86400],
                timeout=60, maxpaths=100, tol=0, abs_tol=1e-9, signature="iau1980.equinox:label-day",
                desc=f"iau1980.equinox gives the same value for one instant labelled {X} or {Y} (the 1997-02-27 switch of the kinematic terms)")


def ccsds_case(kind, fmt, X, Y):
    """OPM (state + an impulsive and a continuous maneuver) / OEM (2-point ephemeris, a covariance on each point): every written epoch, decoded with the TIME_SYSTEM the message
    declares, is the instant of the object it describes -- also when maneuver / point dates carry another label than the header date"""
    def run(env, v):
        if not env.symbolic:
            return run_concrete(env, v)
        m = install(env)
        a, b = two(env, m, v, X, Y)
        from beyond.orbits import StateVector, Ephem
        from beyond.orbits.man import ImpulsiveMan
        ccsds = importlib.import_module("beyond.io.ccsds")
        commons = importlib.import_module("beyond.io.ccsds.commons")
        class _Now:
            def strftime(self, f):
                return "2020-01-01T00:00:00.000000"

            def __format__(self, f):
                return "2020-01-01T00:00:00.000000"
        commons.Date = types.SimpleNamespace(now=lambda *a, **k: _Now())
        tau = v["d"] * 86400 + v["s"] - c03.rel_tai(env, X, v)
        if kind == "opm":
            sv = StateVector([7e6, 0.0, 0.0, 0.0, 7.5e3, 0.0], a, "cartesian", "EME2000")
            from beyond.orbits.man import ContinuousMan
            sv.maneuvers = [ImpulsiveMan(b, [1.0, 0.0, 0.0]), ContinuousMan(b, STD.of(120), dv=[0.0, 1.0, 0.0])]
            text = ccsds.dumps(sv, fmt=fmt)
            expected = {0: tau, 1: tau, 2: tau}
        else:
            later = (a + STD.of(60)).change_scale(Y)
            e = Ephem([StateVector([7e6, 0.0, 0.0, 0.0, 7.5e3, 0.0], a, "cartesian", "EME2000"),
                       StateVector([7e6, 1.0, 0.0, 0.0, 7.5e3, 0.0], later, "cartesian", "EME2000")])
            # both points carry a covariance: its EPOCH is one more written date (of the point it belongs to)
            from beyond.orbits.cov import Cov
            for pt in e:
                pt.cov = Cov(pt, np.identity(6), pt.frame)
            text = ccsds.dumps(e, fmt=fmt)
            expected = None
        msys = re.search(r"TIME_SYSTEM\W+([A-Z0-9]+)", text)
        scale = msys.group(1)
        toks = decode_tokens(text)
        out = {}
        for k, (n, t) in enumerate(toks):
            inst = t - c03.rel_tai(env, scale, v)
            if kind == "opm":
                out[f"epoch{k}"] = inst
            else:
                out[f"epoch{k}"] = Holds((R.lift(inst) == tau) | (R.lift(inst) == tau + 60))
        out["_n"] = len(toks)
        return out

    def run_concrete(env, v):
        from beyond.orbits import StateVector, Ephem
        from beyond.orbits.man import ImpulsiveMan
        from beyond.io import ccsds
        a, b = cdates(v, X, Y)
        if kind == "opm":
            sv = StateVector([7e6, 0.0, 0.0, 0.0, 7.5e3, 0.0], a, "cartesian", "EME2000")
            from beyond.orbits.man import ContinuousMan
            sv.maneuvers = [ImpulsiveMan(b, [1.0, 0.0, 0.0]),
                            ContinuousMan(b, __import__("datetime").timedelta(seconds=120), dv=[0.0, 1.0, 0.0])]
            back = ccsds.loads(ccsds.dumps(sv, fmt=fmt))
            errs = [abs((back.date - a).total_seconds()), abs((back.maneuvers[0].date - b).total_seconds()),
                    abs((back.maneuvers[1].start - b).total_seconds())]
            errs = errs + [max(errs[1:])] * 3
        else:
            later = (a + __import__("datetime").timedelta(seconds=60)).change_scale(labels_for_replay(X, Y)[1])
            e = Ephem([StateVector([7e6, 0.0, 0.0, 0.0, 7.5e3, 0.0], a, "cartesian", "EME2000"),
                       StateVector([7e6, 1.0, 0.0, 0.0, 7.5e3, 0.0], later, "cartesian", "EME2000")])
            from beyond.orbits.cov import Cov
            for pt in e:
                pt.cov = Cov(pt, np.identity(6), pt.frame)
            try:
                back = ccsds.loads(ccsds.dumps(e, fmt=fmt))
                errs = [abs((back[0].date - a).total_seconds()), abs((back[1].date - later).total_seconds()),
                        0.0 if (back[0].cov is not None and back[1].cov is not None) else 1.0]
            except Exception:  # noqa -- a message whose epochs do not match each other cannot be read back
                errs = [1e9]
            out = {f"epoch{k}": Holds(max(errs) < 1e-5) for k in range(12)}
            out["_n"] = 12
            return out
        out = {f"epoch{k}": e for k, e in enumerate(errs)}
        out["_n"] = len(errs)
        return out

    def ref(env, v, out):
        if not env.symbolic:
            r = {k: (None if isinstance(out[k], Holds) else 0.0) for k in out if k != "_n"}
            r["_n"] = out["_n"]
            return r
        tau = v["d"] * 86400 + v["s"] - c03.rel_tai(env, X, v)
        r = {"_n": out["_n"]}
        n = out["_n"]
        if kind == "opm":
            for k in range(n):
                r[f"epoch{k}"] = tau
        else:
            # START_TIME, STOP_TIME, then the points (and in KVN the same): first date = tau, second = tau + 60
            vals = sorted(range(n))
            for k in range(n):
                r[f"epoch{k}"] = None
            # identify by closeness is not available symbolically: every token is either tau or tau+60; checked as a disjunction
        return r
    c = Case(f"ccsds_{kind}_{fmt}/{X}-{Y}", INS, run, ref, pre=pre, timeout=60, maxpaths=100, tol=0, abs_tol=1e-5,
             signature=f"CCSDS {kind.upper()} writer:date label other than the header's TIME_SYSTEM",
             desc=f"CCSDS {kind.upper()} ({fmt}): each written epoch decoded with the declared TIME_SYSTEM is the instant of its object "
                  f"(header date labelled {X}, {'maneuver' if kind == 'opm' else 'second point'} labelled {Y})")
    return c


def eop_day_case(X, Y):
    """Earth-orientation parameters attached to a date (date.eop: what every frame conversion reads) for the same instant under
    two labels, with a database whose values depend on the day (as the IERS tables do): an uninterpreted function of the day the
    database is asked for.  TAI-UTC is kept constant (no leap second in the neighbourhood)."""
    def run(env, v):
        if env.symbolic:
            m = c03.datemod(env)
            asked = []

            def get(mjd, dbname=None):
                day = dtmodel.rfloor(mjd.r if isinstance(mjd, (SF, SI)) else R.lift(mjd))
                day = day.r if isinstance(day, (SF, SI)) else R.lift(day)
                asked.append(day)
                e = c03._Eop(SF(v["tai_utc"]), SF(uf("ut1_of_day", day)))
                e.x = SF(uf("xp_of_day", day))
                return e
            m.EopDb = types.SimpleNamespace(get=get)
            a = c03.mk_date(env, m, v["d"], v["s"], X)
            b = a.change_scale(Y)
            return {"ut1_utc": val(a.eop.ut1_utc) - val(b.eop.ut1_utc), "pole_x": val(a.eop.x) - val(b.eop.x)}
        # concrete: a database registered through the public API whose values change every day
        import beyond.dates.eop as E
        from beyond.dates import Date
        from beyond.config import config

        class DayDb:
            def __getitem__(self, mjd):
                day = int(mjd)
                return E.Eop(x=0.01 * (day % 11), y=0, dx=0, dy=0, deps=0, dpsi=0, lod=0, ut1_utc=0.001 * (day % 7) - 0.003,
                             tai_utc=float(v["tai_utc"]))
        E.EopDb._dbs["vf_daydb"] = DayDb()
        config.update({"eop": {"dbname": "vf_daydb", "missing_policy": "error"}})
        try:
            a = Date(int(v["d"]), float(v["s"]), scale=X)
            b = a.change_scale(Y)
            return {"ut1_utc": (a.eop.ut1_utc - b.eop.ut1_utc) * 1e3, "pole_x": (a.eop.x - b.eop.x) * 1e2}
        finally:
            E.EopDb._dbs.pop("vf_daydb", None)
            config.pop("eop", None)

    def ref(env, v, out):
        return {"ut1_utc": 0, "pole_x": 0}
    return Case(f"eop_day/{X}-{Y}", INS, run, ref, pre=pre, timeout=60, maxpaths=100, tol=0, abs_tol=1e-9,
                signature="Date.eop looked up by the day of the date's own scale",
                extra_points=[{"d": 57000, "s": 86390.0}, {"d": 57000, "s": 5.0}],
                desc=f"the Earth-orientation record attached to one instant is the same whether the date is labelled {X} or {Y} "
                     "(database values depending on the day)")


def all_cases(tier):
    pairs = PAIRS_QUICK if tier == "quick" else [(a, b) for a in UNI for b in UNI if a != b]
    cs = []
    for X, Y in pairs:
        cs += [sgp4_case(X, Y), sgp4beta_case(X, Y), tle_epoch_case(X, Y), kepler_case("kepler", X, Y), kepler_case("j2", X, Y),
               cw_case(X, Y), interp_case(X, Y), ephem_order_case(X, Y), ephem_order_case(Y, X), equinox_case(X, Y), ccsds_case("opm", "kvn", X, Y), ccsds_case("opm", "xml", X, Y),
               ccsds_case("oem", "kvn", X, Y), ccsds_case("oem", "xml", X, Y)]
    cs += [eop_day_case("UTC", "TT"), eop_day_case("TAI", "UTC")]
    return cs


def groups(tier):
    return {c.name.replace("/", "_"): (lambda c=c: run_cases([c])) for c in all_cases(tier)}


def replay(ob, model):
    return replay_cases(all_cases("thorough"), ob, model)
