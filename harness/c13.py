"""C13 -- CCSDS OPM / OEM / OMM messages round-trip in KVN and XML (reduced scope, see DESIGN.md section 3 C13).

The structural configuration of a message (type, format, time scale, frame, number / kind / frame / comment of maneuvers,
covariance frame, user-defined fields, number of ephemeris points, which points carry a covariance, interpolation settings) is
a vector of *symbolic integers*; the forking driver concretises it through solver feasibility queries, the real
dumps()/loads() run on the real objects of that configuration (numeric payload concrete, fixed, with distinct values in every
slot so that a mis-wired field shows), and one final query per group proves that the explored path conditions cover the whole
configuration space and that no explored configuration violates the round-trip oracle.
"""
import importlib
import itertools
import math
import time

import numpy as np
import z3

from symx.core import CTX, SB, explore
from harness.c20 import choice, CHOSEN, DOMAINS, FORCED

PROPERTY = "C13"
FUNCS = ["beyond.io.ccsds.ccsds:dumps", "beyond.io.ccsds.ccsds:loads", "beyond.io.ccsds.opm:_dumps_kvn", "beyond.io.ccsds.opm:_dumps_xml",
         "beyond.io.ccsds.opm:_loads_kvn", "beyond.io.ccsds.opm:_loads_xml", "beyond.io.ccsds.oem:_dumps_kvn", "beyond.io.ccsds.oem:_dumps_xml",
         "beyond.io.ccsds.oem:_loads_kvn", "beyond.io.ccsds.oem:_loads_xml", "beyond.io.ccsds.omm:_dumps_kvn", "beyond.io.ccsds.omm:_dumps_xml",
         "beyond.io.ccsds.omm:_loads_kvn", "beyond.io.ccsds.omm:_loads_xml", "beyond.io.ccsds.cov:dump_cov", "beyond.io.ccsds.cov:load_cov",
         "beyond.io.ccsds.commons:kvn2dict", "beyond.io.ccsds.commons:xml2dict", "beyond.io.ccsds.commons:decode_unit",
         "beyond.io.ccsds.commons:parse_date", "beyond.io.ccsds.commons:detect2load", "beyond.io.ccsds.commons:detect2dump"]
STUBS = ["none: real StateVector / Orbit / Ephem / Cov / maneuver objects, real lxml; the numeric payload is concrete (distinct values per slot)"]
ASSUMPTIONS = ["payload values fixed per slot (coordinates, covariance entries, delta-v, epochs): the symbolic part is the structure of the message",
               "written precision: 1 mm, 1 mm/s, 1 microsecond, 13 significant digits for covariance entries"]
OUTSIDE = ["arbitrary numeric payload (floating-point formatting of every value)", "XSD validity of the XML output",
           "frames with a non-Earth centre"]
SCALES = ["UTC", "TAI", "TT"]
FRAMES = ["EME2000", "TEME", "ITRF"]
MAN_FRAMES = [None, "QSW", "TNW"]
COV_FRAMES = [None, "same", "QSW", "other", "TNW"]      # "other": a regular frame different from the state's
OTHER_FRAME = {"EME2000": "ITRF", "TEME": "EME2000", "ITRF": "EME2000"}


def bounds(tier):
    return {"maneuvers": 2, "ephemeris_points": 3, "formats": ["kvn", "xml"], "scales": SCALES, "frames": FRAMES}


def _cov_matrix(k):
    rng = np.random.default_rng(100 + k)
    L = rng.normal(size=(6, 6))
    return (L @ L.T) * np.outer([1e2, 2e2, 3e2, 1e-1, 2e-1, 3e-1], [1e2, 2e2, 3e2, 1e-1, 2e-1, 3e-1]) * 1e-2


def _close(a, b, tol):
    return abs(a - b) <= tol


def _cmp_sv(a, b, what):
    """a: original, b: decoded"""
    errs = []
    if abs((a.date - b.date).total_seconds()) > 1.5e-6:
        errs.append(f"{what}: epoch differs by {(a.date - b.date).total_seconds()} s")
    if a.date.scale.name != b.date.scale.name:
        errs.append(f"{what}: time scale {a.date.scale.name} -> {b.date.scale.name}")
    if a.frame.name != b.frame.name:
        errs.append(f"{what}: frame {a.frame.name} -> {b.frame.name}")
    ac, bc = np.array(a.copy(form="cartesian")), np.array(b.copy(form="cartesian"))
    if np.abs(ac[:3] - bc[:3]).max() > 1.1e-3 or np.abs(ac[3:] - bc[3:]).max() > 1.1e-3:
        errs.append(f"{what}: coordinates differ {np.abs(ac - bc).max()}")
    if (a.cov is None) != (b.cov is None):
        errs.append(f"{what}: covariance presence {a.cov is not None} -> {b.cov is not None}")
    elif a.cov is not None:
        fa = a.cov.frame if isinstance(a.cov.frame, str) else a.cov.frame.name
        fb = b.cov.frame if isinstance(b.cov.frame, str) else b.cov.frame.name
        if fa != fb:
            errs.append(f"{what}: covariance frame {fa} -> {fb}")
        A, B = np.array(a.cov), np.array(b.cov)
        if np.abs(A - B).max() > 1e-9 * np.abs(A).max() + 1e-12:
            errs.append(f"{what}: covariance values differ {np.abs(A - B).max()}")
        if not np.allclose(B, B.T):
            errs.append(f"{what}: decoded covariance not symmetric")
        # the decoded covariance is a working object: it can be expressed in the frame of its state, like the original
        try:
            A2, B2 = np.array(a.cov.copy(frame=a.frame)), np.array(b.cov.copy(frame=b.frame))
            if np.abs(A2 - B2).max() > 1e-9 * np.abs(A2).max() + 1e-12:
                errs.append(f"{what}: covariance differs once expressed in the state's frame {np.abs(A2 - B2).max()}")
        except Exception as e:  # noqa
            errs.append(f"{what}: decoded covariance cannot be converted to the state's frame: {type(e).__name__}: {e}")
    return errs


def _cmp_mans(a, b):
    from beyond.orbits.man import ContinuousMan
    errs = []
    if len(a.maneuvers) != len(b.maneuvers):
        return [f"maneuvers {len(a.maneuvers)} -> {len(b.maneuvers)}"]
    for k, (m, n) in enumerate(zip(a.maneuvers, b.maneuvers)):
        if type(m) is not type(n):
            errs.append(f"man{k}: kind {type(m).__name__} -> {type(n).__name__}")
            continue
        d0 = m.start if isinstance(m, ContinuousMan) else m.date
        d1 = n.start if isinstance(n, ContinuousMan) else n.date
        if abs((d0 - d1).total_seconds()) > 1.5e-6:
            errs.append(f"man{k}: epoch differs by {(d0 - d1).total_seconds()} s")
        if isinstance(m, ContinuousMan) and abs(m.duration.total_seconds() - n.duration.total_seconds()) > 1.1e-3:
            errs.append(f"man{k}: duration {m.duration} -> {n.duration}")
        if np.abs(np.array(m._dv) - np.array(n._dv)).max() > 1.1e-3:
            errs.append(f"man{k}: dv {m._dv} -> {n._dv}")
        if (m.frame or None) != (n.frame or None):
            errs.append(f"man{k}: frame {m.frame} -> {n.frame}")
        if (m.comment or None) != (n.comment or None):
            errs.append(f"man{k}: comment {m.comment!r} -> {n.comment!r}")
    return errs


def _mk_sv(frame, scale, k=0):
    from beyond.orbits import StateVector
    from beyond.dates import Date
    date = Date(2016, 5, 5, 12, 30, 15, 123456, scale=scale) + __import__("datetime").timedelta(seconds=97.5 * k)
    vals = [6871234.567 + 11.111 * k, -1234567.891 - 7.0 * k, 2345678.912 + 3.3 * k, 1234.567 + k, 6789.123 - k, -2345.678 + 0.5 * k]
    return StateVector(vals, date, "cartesian", frame, name=f"SAT{k}", cospar_id="2016-001A")


def _attach_cov(sv, covf, k=0):
    from beyond.orbits.cov import Cov
    if covf is None:
        return
    sv.cov = Cov(sv, _cov_matrix(k), sv.frame)
    if covf in ("QSW", "TNW"):
        sv.cov.frame = covf
    elif covf == "other":
        sv.cov.frame = OTHER_FRAME[sv.frame.name]


_JPL = []


def _jpl_frames():
    """create the JPL frames once per process from the kernels shipped with the repository's tests (False when absent)"""
    if not _JPL:
        try:
            import beyond
            from pathlib import Path
            from beyond.config import config
            from beyond.env import jpl
            d = Path(beyond.__file__).resolve().parent.parent / "tests" / "data" / "jpl"
            files = [d / "de403_2000-2020.bsp", d / "pck00010.tpc", d / "gm_de431.tpc"]
            if not all(f.exists() for f in files):
                raise FileNotFoundError(d)
            config.set("env", "jpl", "files", [str(f) for f in files])
            jpl.create_frames()
            _JPL.append(True)
        except Exception:  # noqa
            _JPL.append(False)
    return _JPL[0]


# --------------------------------------------------------------------------- OPM
def opm_group(fmt_fixed, kep_fixed, tier="quick"):
    from beyond.io import ccsds
    from beyond.orbits.man import ImpulsiveMan, ContinuousMan
    import datetime

    def body():
        fmt = fmt_fixed
        nctx = 4 if _jpl_frames() else 3
        ctx = choice("context", nctx)                   # (time scale, frame) vary together
        # the fourth context is a frame centred on another body (JPL kernels of the repository's test data, when present):
        # such messages name the centre and a reference frame separately
        scale, frame = (SCALES + ["TT"])[ctx], (FRAMES + ["MarsBarycenter"])[ctx]
        # the XML reader has one branch for a single USER_DEFINED entry, one for the second (list creation) and one for the
        # third and later ones (append): 3 entries go through all of them
        if ctx == 3:                                     # body-centred frame: no covariance, no user-defined parameter
            covf, ud = None, 0
        elif tier == "quick":                            # quick: 3 covariance frames, 0 or 3 user-defined parameters
            covf = COV_FRAMES[choice("cov", 4)]
            ud = 3 * choice("user_defined", 2)
        else:
            covf = COV_FRAMES[choice("cov", 5)]
            ud = choice("user_defined", 4)               # 0, 1, 2 or 3 user-defined parameters
        kep = kep_fixed
        nman = choice("nman", 3)
        sv = _mk_sv(frame, scale)
        mans = []
        for k in range(nman):
            # impulsive, or continuous with its reference date at the start / middle / end of the burn (first maneuver;
            # the second continuous maneuver is always referenced by its middle)
            kind = choice(f"kind{k}", 4 if k == 0 else 2)
            pos = ["start", "start", "median", "stop"][kind] if k == 0 else "median"
            mf = MAN_FRAMES[choice(f"mframe{k}", 3)]
            com = "burn %d" % k if (choice(f"comment{k}", 2) if k == 0 else 1) else None
            md = sv.date + datetime.timedelta(seconds=600.25 * (k + 1))
            dv = [1.234 + k, -0.567, 0.089 * (k + 1)]
            if kind == 0:
                mans.append(ImpulsiveMan(md, dv, frame=mf, comment=com))
            else:
                mans.append(ContinuousMan(md, datetime.timedelta(seconds=120.5 + k), dv=dv, frame=mf, comment=com, date_pos=pos))
        sv.maneuvers = mans
        _attach_cov(sv, covf)
        UD = {0: None, 1: {"FOO": "bar"}, 2: {"FOO": "bar", "ANSWER": "42"}, 3: {"FOO": "bar", "ANSWER": "42", "THIRD": "x y"}}[ud]
        if UD:
            sv._data["ccsds_user_defined"] = dict(UD)
        cfg = dict(fmt=fmt, scale=scale, frame=frame, cov=covf, user_defined=ud, kep=kep, mans=[type(m).__name__[0] + str(m.frame) + (getattr(m, "date_pos", "") or "") for m in mans])
        try:
            if frame == "ITRF" and kep:
                kep = 0          # keplerian block is only meaningful in an inertial frame
            text = ccsds.dumps(sv, fmt=fmt, kep=bool(kep))
            back = ccsds.loads(text)
            other = ccsds.loads(ccsds.dumps(sv, fmt="xml" if fmt == "kvn" else "kvn", kep=bool(kep)))
            again = ccsds.dumps(back, fmt=fmt, kep=bool(kep))
        except Exception as e:  # noqa
            return cfg, f"{type(e).__name__}: {e}"
        errs = _cmp_sv(sv, back, "state") + _cmp_mans(sv, back) + [f"kvn/xml: {e}" for e in _cmp_sv(back, other, "state") + _cmp_mans(back, other)]
        if getattr(back, "name", None) != "SAT0" or getattr(back, "cospar_id", None) != "2016-001A":
            errs.append(f"name/id -> {getattr(back, 'name', None)}/{getattr(back, 'cospar_id', None)}")
        if (back._data.get("ccsds_user_defined") or None) != UD:
            errs.append(f"user-defined fields -> {back._data.get('ccsds_user_defined')}")
        strip = lambda t: "\n".join(l for l in t.splitlines() if "CREATION_DATE" not in l)
        if strip(again) != strip(text):
            errs.append("what was read cannot be written again identically")
        return cfg, ("; ".join(errs[:3]) if errs else None)
    return _run_group(f"opm_{fmt_fixed}_{'kep' if kep_fixed else 'nokep'}", body, "OPM: state vector + 0..2 maneuvers (impulsive/continuous, inertial/QSW/TNW frame, comment or not) + "
                      "covariance (none/same frame/QSW/TNW) + user-defined fields, 3 time scales, 3 frames, KVN and XML, with and "
                      "without the keplerian block")


# --------------------------------------------------------------------------- OEM
def oem_group():
    from beyond.io import ccsds
    from beyond.orbits import Ephem

    def body():
        fmt = ["kvn", "xml"][choice("fmt", 2)]
        scale = SCALES[choice("scale", 3)]
        frame = FRAMES[choice("frame", 2)]
        npts = 1 + choice("npts", 3)
        method = ["lagrange", "linear"][choice("method", 2)]
        nseg = 1 + choice("nseg", 2)
        # the points of an ephemeris need not be stored in cartesian form (an ephemeris of keplerian elements): what is written
        # is its position and velocity all the same (asked for one-segment, two-point, covariance-free ephemerides)
        form = ["cartesian", "keplerian"][choice("form", 2)] if (nseg == 1 and npts == 2) else "cartesian"
        segs = []
        cfg_cov = []
        for s in range(nseg):
            pts = []
            for k in range(npts):
                sv = _mk_sv(frame, scale, k + 10 * s)
                covf = COV_FRAMES[choice(f"cov{s}_{k}", 4)] if (k < 2 and s == 0 and form == "cartesian") else None
                _attach_cov(sv, covf, k)
                cfg_cov.append(covf)
                if form != "cartesian":
                    sv.form = form
                pts.append(sv)
            segs.append(Ephem(pts, method=method, order=min(7, npts)))
        data = segs[0] if nseg == 1 else segs
        cfg = dict(fmt=fmt, scale=scale, frame=frame, npts=npts, method=method, nseg=nseg, cov=cfg_cov, form=form)
        try:
            text = ccsds.dumps(data, fmt=fmt)
            back = ccsds.loads(text)
            other = ccsds.loads(ccsds.dumps(data, fmt="xml" if fmt == "kvn" else "kvn"))
        except Exception as e:  # noqa
            return cfg, f"{type(e).__name__}: {e}"
        errs = []
        bl = [back] if isinstance(back, Ephem) else list(back)
        ol = [other] if isinstance(other, Ephem) else list(other)
        if len(bl) != nseg:
            errs.append(f"segments {nseg} -> {len(bl)}")
        for s, (orig, b, o) in enumerate(zip(segs, bl, ol)):
            if len(b) != len(orig):
                errs.append(f"seg{s}: points {len(orig)} -> {len(b)}")
                continue
            if b.method != orig.method:
                errs.append(f"seg{s}: interpolation {orig.method} -> {b.method}")
            if orig.method != "linear" and b.order != orig.order:
                errs.append(f"seg{s}: interpolation order {orig.order} -> {b.order}")
            for k, (p, q, r) in enumerate(zip(orig, b, o)):
                errs += _cmp_sv(p, q, f"seg{s}/pt{k}") + [f"kvn/xml: {e}" for e in _cmp_sv(q, r, f"seg{s}/pt{k}")]
        return cfg, ("; ".join(errs[:3]) if errs else None)
    return _run_group("oem", body, "OEM: 1..2 ephemerides of 1..3 points, covariance on the first points in none/same/QSW/TNW frame, "
                      "Lagrange or linear interpolation, 3 time scales, 2 frames, KVN and XML")


# --------------------------------------------------------------------------- OMM
def _tle_with(l1, l2):
    """two 68-column TLE lines completed with their checksums"""
    cs = lambda l: str((sum(int(c) for c in l if c.isdigit()) + l.count("-")) % 10)
    assert len(l1) == 68 and len(l2) == 68, (len(l1), len(l2))
    return l1 + cs(l1) + "\n" + l2 + cs(l2)


def omm_group():
    from beyond.io import ccsds
    from beyond.io.tle import Tle

    def body():
        fmt = ["kvn", "xml"][choice("fmt", 2)]
        covf = [None, "same"][choice("cov", 2)]
        ud = choice("user_defined", 4)
        which = choice("tle", 3)
        lines = ["ISS (ZARYA)\n1 25544U 98067A   08264.51782528 -.00002182  00000-0 -11606-4 0  2927\n"
                 "2 25544  51.6416 247.4627 0006703 130.5360 325.0288 15.72125391563537",
                 "GOES 9\n1 23581U 95025A   07064.44075725 -.00000113  00000-0  10000-3 0  9250\n"
                 "2 23581   3.0539  81.7939 0005013 249.2363 150.1602  1.00273272 43169",
                 # a decaying object: non-zero second derivative of the mean motion
                 "DECAY\n" + _tle_with("1 25544U 98067A   08264.51782528  .00120000  12345-4  50000-3 0  292", 
                                       "2 25544  51.6416 247.4627 0006703 130.5360 325.0288 16.1212539156353")][which]
        orb = Tle(lines).orbit()
        _attach_cov(orb, covf)
        UD = {0: None, 1: {"FOO": "bar"}, 2: {"FOO": "bar", "ANSWER": "42"}, 3: {"FOO": "bar", "ANSWER": "42", "THIRD": "x y"}}[ud]
        if UD:
            orb._data["ccsds_user_defined"] = dict(UD)
        cfg = dict(fmt=fmt, cov=covf, user_defined=ud, tle=which)
        try:
            text = ccsds.dumps(orb, fmt=fmt)
            back = ccsds.loads(text)
            other = ccsds.loads(ccsds.dumps(orb, fmt="xml" if fmt == "kvn" else "kvn"))
        except Exception as e:  # noqa
            return cfg, f"{type(e).__name__}: {e}"
        errs = []
        if "CCSDS_OMM_VERS" not in text and "omm" not in text.lower():
            errs.append("a TLE orbit was not written as an OMM")
        a, b = np.array(orb), np.array(back.copy(form="TLE"))
        tol = np.array([2e-6, 2e-6, 1e-7, 2e-6, 2e-6, 1e-11])
        if (np.abs((a - b + np.array([0, math.pi, 0, math.pi, math.pi, 0])) % np.array([1e9, 2 * math.pi, 1e9, 2 * math.pi, 2 * math.pi, 1e9])
                   - np.array([0, math.pi, 0, math.pi, math.pi, 0])) > tol).any():
            errs.append(f"mean elements differ: {a} -> {b}")
        if abs((orb.date - back.date).total_seconds()) > 1.5e-6:
            errs.append("epoch differs")
        for key in ("bstar", "ndot", "ndotdot", "norad_id", "cospar_id", "name", "element_nb", "revolutions"):
            x, y = getattr(orb, key, None), getattr(back, key, None)
            ok = (x == y) if not isinstance(x, float) else abs(x - y) <= 1e-9 * max(1.0, abs(x)) + 1e-15
            if not ok:
                errs.append(f"{key}: {x!r} -> {y!r}")
        errs += [e for e in _cmp_sv(back, other, "kvn/xml") if "coordinates" not in e]
        if (back._data.get("ccsds_user_defined") or None) != UD:
            errs.append(f"user-defined fields -> {back._data.get('ccsds_user_defined')}")
        if (orb.cov is None) != (back.cov is None):
            errs.append("covariance presence changed")
        # anything that was read can be written again, in either encoding, and says the same
        for f2 in ("kvn", "xml"):
            try:
                twice = ccsds.loads(ccsds.dumps(back, fmt=f2))
                errs += [f"read ({fmt}) then written ({f2}): {e}" for e in _cmp_sv(back, twice, "rewrite") if "coordinates" not in e]
                if abs(back.ndotdot - twice.ndotdot) > 1e-9 * max(1.0, abs(back.ndotdot)) + 1e-15 or back.norad_id != twice.norad_id:
                    errs.append(f"read ({fmt}) then written ({f2}): TLE parameters changed")
            except Exception as e:  # noqa
                errs.append(f"what was read ({fmt}) cannot be written again as {f2}: {type(e).__name__}: {e}")
        return cfg, ("; ".join(errs[:3]) if errs else None)
    return _run_group("omm", body, "OMM: mean elements of a TLE orbit (2 objects), covariance or not, user-defined fields or not, KVN and XML")


def tdm_group():
    """TDM: a measurement set (any non-empty subset of Range / Azimut / Elevation / Doppler, 1 or 2 observations of each, one-way
    or two-way path, optionally a second path = second segment in the same or in another time scale, UTC / TAI / TT) written and read back: same types, paths, epochs and
    values to the written precision (1 mm for ranges and range rates, 0.01 deg for angles); KVN and XML decode alike"""
    from beyond.io import ccsds
    from beyond.dates import Date
    from beyond.utils.measures import MeasureSet, Range, Azimut, Elevation, Doppler
    import datetime
    KINDS = [Range, Azimut, Elevation, Doppler]
    VALS = {Range: 1234567.891, Azimut: -1.2345, Elevation: 0.4567, Doppler: -3456.789}
    TOL = {Range: 1.1e-3, Azimut: 1e-4, Elevation: 1e-4, Doppler: 1.1e-3}

    def body():
        fmt = ["kvn", "xml"][choice("fmt", 2)]
        mask = 1 + choice("types", 15)                     # non-empty subset of the four measure types
        nobs = 1 + choice("nobs", 2)
        two_way = choice("two_way", 2)
        second = choice("second_path", 2)
        scale = ["UTC", "TAI", "TT"][choice("scale", 3)]
        # the second path (= second segment, with its own TIME_SYSTEM) dated in the same scale or in another one (GPS: a constant
        # 19 s from TAI, so that the difference shows whether EOP data is present or not)
        scale2 = [scale, "GPS"][choice("scale2", 2)] if second else scale
        d0 = Date(2016, 5, 5, 12, 30, 15, 123456, scale=scale)
        paths = [["STA1", "2016-001A"] + (["STA1"] if two_way else [])] + ([["STA2", "2016-001A", "STA2"]] if second else [])
        ms = MeasureSet([])
        for pi, path in enumerate(paths):
            for k in range(nobs):
                date = d0 + datetime.timedelta(seconds=10.5 * k + 100 * pi)
                if pi:
                    date = date.change_scale(scale2)
                for j, cls in enumerate(KINDS):
                    if mask & (1 << j):
                        ms.append(cls(path, date, VALS[cls] * (1 + 0.01 * k + 0.1 * pi)))
        cfg = dict(fmt=fmt, types=[c.__name__ for j, c in enumerate(KINDS) if mask & (1 << j)], nobs=nobs, two_way=two_way,
                   second_path=second, scale=scale, scale2=scale2)
        try:
            text = ccsds.dumps(ms, fmt=fmt)
            back = ccsds.loads(text)
            other = ccsds.loads(ccsds.dumps(ms, fmt="xml" if fmt == "kvn" else "kvn"))
            again = ccsds.dumps(back, fmt=fmt)          # what loads() returned, as it is (a list of sets for several segments)
        except Exception as e:  # noqa
            return cfg, f"{type(e).__name__}: {e}"
        errs = _cmp_ms(ms, _flatten(back), TOL, "tdm") + [f"kvn/xml: {e}" for e in _cmp_ms(_flatten(back), _flatten(other), TOL, "tdm")]
        strip = lambda t: "\n".join(l for l in t.splitlines() if "CREATION_DATE" not in l)
        if strip(again) != strip(text):
            errs.append("what was read cannot be written again identically")
        return cfg, ("; ".join(errs[:3]) if errs else None)
    return _run_group("tdm", body, "TDM: measurement sets of Range / Azimut / Elevation / Doppler observations, one-way or two-way, one or "
                      "two paths (the second in the same or another time scale), UTC / TAI / TT, KVN and XML")


def _flatten(x):
    """loads() returns one MeasureSet, or a list of them when the message has several segments"""
    from beyond.utils.measures import MeasureSet
    if isinstance(x, MeasureSet):
        return x
    out = MeasureSet([])
    for s_ in x:
        out.extend(s_)
    return out


def _cmp_ms(a, b, TOL, what):
    errs = []
    if len(a) != len(b):
        return [f"{what}: {len(a)} observations -> {len(b)}"]
    key = lambda m: (tuple(m.path), type(m).__name__, m.date)
    for m, n in zip(sorted(a, key=key), sorted(b, key=key)):
        if type(m).__name__ != type(n).__name__:
            errs.append(f"{what}: {type(m).__name__} -> {type(n).__name__}")
            continue
        if tuple(m.path) != tuple(n.path):
            errs.append(f"{what}: path {m.path} -> {n.path}")
        if abs((m.date - n.date).total_seconds()) > 1.5e-6 or m.date.scale.name != n.date.scale.name:
            errs.append(f"{what}: epoch {m.date} -> {n.date}")
        dv = abs(m.value - n.value)
        if type(m).__name__ in ("Azimut", "Elevation"):
            dv = abs((m.value - n.value + math.pi) % (2 * math.pi) - math.pi)
        tol = [t for c, t in TOL.items() if c.__name__ == type(m).__name__][0]
        if dv > tol:
            errs.append(f"{what}: {type(m).__name__} value {m.value!r} -> {n.value!r}")
    return errs


# --------------------------------------------------------------------------- driver
BODIES = {}


def _run_group(gname, body, desc):
    import logging
    logging.disable(logging.CRITICAL)
    if FORCED:
        return body()
    paths, bad = [], []
    t0 = time.time()
    DOMAINS.clear()

    def setup():
        CHOSEN.clear()

    for pc, (cfg, err) in explore(body, maxpaths=200000, setup=setup):
        paths.append(z3.And(list(CTX.pre) + list(pc)) if (CTX.pre or pc) else z3.BoolVal(True))
        if err:
            bad.append((cfg, err, z3.And(list(pc)) if pc else z3.BoolVal(True), dict(CHOSEN)))
    names = sorted(DOMAINS)
    obs = []
    # exhaustiveness over the *reachable* configuration space: a choice that only exists for some values of another choice
    # (kind of the 2nd maneuver only when there are 2) ranges over its declared domain whenever it is read
    s = z3.Solver()
    for nm in names:
        v = z3.Int(nm)
        s.add(v >= 0, v < DOMAINS[nm])
    s.add(z3.Not(z3.Or(paths)) if paths else z3.BoolVal(True))
    obs.append(dict(name=f"{gname}/exhaustive", smt2=s.sexpr(), trivial=False, expect="unsat", vars=names, timeout=300, solver="z3",
                    desc=f"{desc}: the {len(paths)} explored configurations cover every value of the symbolic choices",
                    replay={"kind": "exhaustive"}, n_constraints=len(paths), tags=["coverage"]))
    classes = {}
    for cfg, err, pc, ch in bad:
        classes.setdefault(err.split(":")[0][:60], (cfg, err, pc, ch))
    for k, (cfg, err, pc, ch) in enumerate(list(classes.values())[:25]):
        s = z3.Solver()
        s.add(pc)
        obs.append(dict(name=f"{gname}/violation{k}", smt2=s.sexpr(), trivial=False, expect="unsat", vars=names, timeout=30, solver="z3",
                        desc=f"{gname} configuration {cfg}: {err}", replay={"kind": "config", "group": gname, "choices": ch, "err": err},
                        n_constraints=1, tags=["history"]))
    if not bad:
        s = z3.Solver()
        s.add(z3.BoolVal(False))
        obs.append(dict(name=f"{gname}/all_ok", smt2=s.sexpr(), trivial=False, expect="unsat", vars=[], timeout=10, solver="z3",
                        desc=f"{desc}: loads(dumps(x)) restores epochs (1 us, same scale), frame, name/id, coordinates (1 mm, 1 mm/s), "
                             "covariance (values, frame), maneuvers (epoch, duration, delta-v, frame, comment), interpolation settings and "
                             "user-defined fields; KVN and XML decode to the same object; what was read can be written again",
                        replay={"kind": "summary"}, n_constraints=1, tags=["summary"]))
    tw = z3.Solver()
    tw.add(z3.Int("fmt") >= 0)
    obs.append(dict(name=f"{gname}/twin", smt2=tw.sexpr(), trivial=False, expect="sat", vars=[], timeout=10, solver="z3", desc="twin",
                    replay=None, n_constraints=1, tags=["twin"]))
    return obs, {"paths": len(paths), "violating": len(bad), "explore_s": round(time.time() - t0, 1)}


def groups(tier):
    g = {"oem": oem_group, "omm": omm_group, "tdm": tdm_group}
    for f in ("kvn", "xml"):
        for k in (0, 1):
            g[f"opm_{f}_{'kep' if k else 'nokep'}"] = (lambda f=f, k=k: opm_group(f, k, tier))
    return g


def replay(ob, model):
    rp = ob.get("replay") or {}
    if rp.get("kind") == "config":
        # re-run the same configuration on the real code in this fresh process: the recorded choices are forced
        FORCED.clear()
        FORCED.update({k: int(v) for k, v in rp["choices"].items()})
        try:
            gname = rp["group"]
            if gname.startswith("opm_"):
                _, f, k = gname.split("_")
                cfg, err = opm_group(f, 1 if k == "kep" else 0)
            else:
                cfg, err = {"oem": oem_group, "omm": omm_group, "tdm": tdm_group}[gname]()
        finally:
            FORCED.clear()
        return {"reproduced": err is not None, "signature": f"CCSDS {rp['group'].upper()} round trip: {(err or rp['err']).split(':')[0][:60]}",
                "detail": f"configuration {cfg}: {err}", "inputs": {"choices": rp["choices"]}}
    if rp.get("kind") == "summary":
        return {"reproduced": True, "signature": "summary", "detail": ob.get("desc", "")}
    return {"reproduced": False, "signature": "exploration-incomplete", "detail": str(model)}
