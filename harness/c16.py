"""C16 -- Clohessy-Wiltshire propagation solves Hill's equations (DESIGN.md section C16)."""
import math
from datetime import timedelta as _td

import numpy as np
import z3

from symx.case import Case, Ang, Holds, run_cases, replay_cases
from symx.core import R, Dual, CTX, SB
from symx.stubs import SymDate, SymTD, carrier

PROPERTY = "C16"
FUNCS = ["beyond.propagators.cw:ClohessyWiltshire._propagate", "beyond.propagators.cw:ClohessyWiltshire.propagate",
         "beyond.propagators.cw:ClohessyWiltshire._mat3", "beyond.propagators.cw:ClohessyWiltshire._mat6",
         "beyond.propagators.cw:ClohessyWiltshire.n", "beyond.utils.matrix:expand",
         "beyond.orbits.man:ImpulsiveMan.dv", "beyond.orbits.man:ContinuousMan.__init__",
         "beyond.orbits.man:ContinuousMan.accel", "beyond.orbits.man:ContinuousMan.check",
         "beyond.utils.cwhelper:CWHelper.coelliptic", "beyond.utils.cwhelper:CWHelper.hohmann",
         "beyond.utils.cwhelper:CWHelper.hohmann_distance", "beyond.utils.cwhelper:CWHelper.eccentric_boost",
         "beyond.utils.cwhelper:CWHelper.tangential_boost", "beyond.utils.cwhelper:CWHelper.vbar_linear",
         "beyond.utils.cwhelper:CWHelper.period"]
STUBS = ["Date -> SymDate (instant = exact real seconds), timedelta -> SymTD", "Orbit -> object-dtype Carrier with date/maneuvers",
         "HillFrame -> object with .orientation (and .center.body.mu symbolic for n)",
         "numpy -> proxy forcing dtype=object; cos/sin of n*t expand over the unit-circle atom of the angle n*t"]
ASSUMPTIONS = ["reals instead of binary64 (rounding outside the claim)", "n > 0", "maneuvers chronologically ordered",
               "cos/sin constrained only by c^2+s^2=1 and quadrant facts (sound over-approximation)",
               "concrete replay uses central differences (h=0.5 s) for d/dt"]
OUTSIDE = ["second-order agreement with the difference of two Keplerian orbits (asymptotic statement)"]


def bounds(tier):
    return {"maneuvers": 1 if tier == "quick" else 3, "paths_per_case": 64,
            "per_query_timeout_s": 60 if tier == "quick" else 300}


X6 = ["x", "y", "z", "vx", "vy", "vz"]
PERM = np.array([[0, 1, 0], [-1, 0, 0], [0, 0, 1]])   # QSW -> TNW, written independently of the class attribute


# --------------------------------------------------------------------------- environment-specific construction
class _Frame:
    def __init__(self, orientation, mu=None):
        self.orientation = orientation
        self.name = "Hill" + orientation

        class _B:
            pass
        self.center = _B()
        self.center.body = _B()
        self.center.body.µ = mu
        self.center.body.mu = mu


def _mods(env):
    cw = env.mod("beyond.propagators.cw")
    if env.symbolic:
        env.mod("beyond.orbits.man")
        env.mod("beyond.utils.matrix")
    return cw


def mk_prop(env, n, orientation="QSW"):
    cw = _mods(env)
    if env.symbolic:
        p = cw.ClohessyWiltshire.__new__(cw.ClohessyWiltshire)
        p.sma = None
        p._n = n
        p.frame = _Frame(orientation)
        return p
    from beyond.frames.frames import HillFrame
    from beyond.constants import Earth
    sma = (Earth.mu / n ** 2) ** (1 / 3)
    return cw.ClohessyWiltshire(sma, frame=HillFrame(orientation))


def _restore():
    from beyond.frames.frames import HillFrame
    HillFrame("QSW")


def mk_date(env, t):
    if env.symbolic:
        return SymDate(t)
    from beyond.dates import Date
    return Date(2020, 1, 1) + _td(seconds=float(t))


def mk_td(env, t):
    if env.symbolic:
        return SymTD(t)
    return _td(seconds=float(t))


def mk_orb(env, prop, x0, t0=0, mans=()):
    if env.symbolic:
        orb = carrier(x0, date=SymDate(t0), frame=prop.frame, maneuvers=mans)
        prop._orbit = orb
        return orb
    from beyond.orbits import Orbit
    orb = Orbit(np.array(x0, dtype=float), mk_date(env, t0), "cartesian", prop.frame, prop)
    orb.maneuvers = list(mans)
    prop.orbit = orb
    return orb


def _x0(v):
    return [v[k] for k in X6]


def _secs(env, date0, date):
    return (date - date0).total_seconds()


# --------------------------------------------------------------------------- reference: textbook CW solution
def cw_ref(env, n, t, x, acc=(0, 0, 0)):
    """closed-form solution of Hill's equations with constant acceleration (x radial, y along-track, z cross-track)"""
    nt = n * t
    c, s = env.cos(nt), env.sin(nt)
    x0, y0, z0, vx0, vy0, vz0 = x
    ax, ay, az = acc
    n2 = n * n
    X = (4 - 3 * c) * x0 + s / n * vx0 + 2 / n * (1 - c) * vy0 + ax * (1 - c) / n2 + 2 * ay * (nt - s) / n2
    Y = (6 * (s - nt) * x0 + y0 - 2 / n * (1 - c) * vx0 + (4 * s - 3 * nt) / n * vy0
         - 2 * ax * (nt - s) / n2 + ay * (4 * (1 - c) / n2 - 3 * t * t / 2))
    Z = c * z0 + s / n * vz0 + az * (1 - c) / n2
    VX = 3 * n * s * x0 + c * vx0 + 2 * s * vy0 + ax * s / n + 2 * ay * (1 - c) / n
    VY = -6 * n * (1 - c) * x0 - 2 * s * vx0 + (4 * c - 3) * vy0 - 2 * ax * (1 - c) / n + ay * (4 * s / n - 3 * t)
    VZ = -n * s * z0 + c * vz0 + az * s / n
    return [X, Y, Z, VX, VY, VZ]


def hill_rhs(n, st, acc):
    x, y, z, vx, vy, vz = st
    ax, ay, az = acc
    return [vx, vy, vz, 3 * n * n * x + 2 * n * vy + ax, -2 * n * vx + ay, -n * n * z + az]


# --------------------------------------------------------------------------- cases
BASE_IN = [("n", "pos"), ("th", "angle", {"lo": "free"}), ("t", "timeof", {"angle": "th", "rate": "n"})] + \
          [(k, "real") for k in X6] + [(k, "real") for k in ("ax", "ay", "az")]


def run_ode(orientation):
    def run(env, v):
        prop = mk_prop(env, v["n"], orientation)
        try:
            acc = env.vec(v["ax"], v["ay"], v["az"])
            if env.symbolic:
                orb = mk_orb(env, prop, _x0(v))
                out = prop._propagate(SymDate(Dual(v["t"], 1)), orb, acc)
                return {"val": [o.v for o in out], "ddt": [o.d for o in out]}
            h = 0.5
            o = [np.array(prop._propagate(mk_date(env, v["t"] + k * h), mk_orb(env, prop, _x0(v)), acc)) for k in (-1, 0, 1)]
            return {"val": list(o[1]), "ddt": list((o[2] - o[0]) / (2 * h))}
        finally:
            if not env.symbolic:
                _restore()
    return run


def ref_ode(orientation):
    def ref(env, v, out):
        st = out["val"]
        acc = [v["ax"], v["ay"], v["az"]]
        if orientation == "TNW":
            # TNW state = P * QSW state; Hill's equations are stated in QSW
            P = PERM
            q = list(P.T @ env.vec(*st[:3])) + list(P.T @ env.vec(*st[3:]))
            aq = list(P.T @ env.vec(*acc))
            rhs = hill_rhs(v["n"], q, aq)
            rhs = list(P @ env.vec(*rhs[:3])) + list(P @ env.vec(*rhs[3:]))
        else:
            rhs = hill_rhs(v["n"], st, acc)
        return {"val": cw_ref_oriented(env, v, orientation), "ddt": rhs}
    return ref


def cw_ref_oriented(env, v, orientation, t=None):
    x = _x0(v)
    acc = [v["ax"], v["ay"], v["az"]]
    t = v["t"] if t is None else t
    if orientation == "TNW":
        P = PERM
        xq = list(P.T @ env.vec(*x[:3])) + list(P.T @ env.vec(*x[3:]))
        aq = list(P.T @ env.vec(*acc))
        r = cw_ref(env, v["n"], t, xq, aq)
        return list(P @ env.vec(*r[:3])) + list(P @ env.vec(*r[3:]))
    return cw_ref(env, v["n"], t, x, acc)


def run_ic(orientation):
    def run(env, v):
        prop = mk_prop(env, v["n"], orientation)
        try:
            orb = mk_orb(env, prop, _x0(v))
            out = prop._propagate(mk_date(env, 0), orb, env.vec(v["ax"], v["ay"], v["az"]))
            return {"x": list(out)}
        finally:
            if not env.symbolic:
                _restore()
    return run


def run_compose(env, v):
    prop = mk_prop(env, v["n"])
    acc = env.vec(v["ax"], v["ay"], v["az"])
    orb = mk_orb(env, prop, _x0(v))
    mid = prop._propagate(mk_date(env, v["t1"]), orb, acc)
    two = prop._propagate(mk_date(env, v["t1"] + v["t2"]), mid, acc)
    one = prop._propagate(mk_date(env, v["t1"] + v["t2"]), orb, acc)
    back = prop._propagate(mk_date(env, 0), mid, acc)
    return {"two": list(two), "back": list(back), "one": list(one)}


def ref_compose(env, v, out):
    return {"two": out["one"], "back": _x0(v), "one": cw_ref(env, v["n"], v["t1"] + v["t2"], _x0(v), [v["ax"], v["ay"], v["az"]])}


def run_n(env, v):
    cw = _mods(env)
    if env.symbolic:
        p = cw.ClohessyWiltshire.__new__(cw.ClohessyWiltshire)
        p.sma = v["sma"]
        p.frame = _Frame("QSW", v["mu"])
        n = p.n
        return {"n2a3": n * n * v["sma"] ** 3, "npos": abs(n) - n}
    from beyond.constants import Earth
    p = cw.ClohessyWiltshire(v["sma"])
    n = p.n
    return {"n2a3": n * n * v["sma"] ** 3 * v["mu"] / Earth.mu, "npos": abs(n) - n}


# ---- maneuvers through the public propagate()
def man_case(kind, orientation="QSW"):
    """one maneuver (impulsive / continuous by dv / continuous by accel), target date anywhere"""
    from beyond.orbits.man import ImpulsiveMan, ContinuousMan

    inputs = [("n", "pos"), ("thm", "angle", {"lo": "free"}), ("tm", "timeof", {"angle": "thm", "rate": "n"}),
              ("thd", "angle", {"lo": "free"}), ("dur", "timeof", {"angle": "thd", "rate": "n"}),
              ("th", "angle", {"lo": "free"}), ("t", "timeof", {"angle": "th", "rate": "n"})] + \
             [(k, "real") for k in X6] + [(k, "real") for k in ("ax", "ay", "az")]

    def mans(env, v):
        dvec = [v["ax"], v["ay"], v["az"]]
        if kind == "impulsive":
            return [ImpulsiveMan(mk_date(env, v["tm"]), dvec)]
        if kind == "cont_dv":
            return [ContinuousMan(mk_date(env, v["tm"]), mk_td(env, v["dur"]), dv=dvec)]
        if kind == "cont_accel_median":
            return [ContinuousMan(mk_date(env, v["tm"]), mk_td(env, v["dur"]), accel=dvec, date_pos="median")]
        raise ValueError(kind)

    def pre(v):
        return [v["tm"] >= 0, v["dur"] > 0]

    def run(env, v):
        prop = mk_prop(env, v["n"], orientation)
        try:
            mk_orb(env, prop, _x0(v), mans=mans(env, v))
            out = prop.propagate(mk_date(env, v["t"]))
            res = {"x": list(out)}
            if kind == "impulsive":
                # propagate() is a pure function of (orbit, date): the orbit held by the propagator is left as it was, and
                # asking again gives the same answer
                again = prop.propagate(mk_date(env, v["t"]))
                held = prop.orbit if not env.symbolic else prop._orbit
                res["held_orbit_untouched"] = [held[k] - _x0(v)[k] for k in range(6)]
                res["same_answer_again"] = [again[k] - out[k] for k in range(6)]
            return res
        finally:
            if not env.symbolic:
                _restore()

    def ref(env, v, out):
        r = _ref(env, v, out)
        if kind == "impulsive":
            r["held_orbit_untouched"] = [0] * 6
            r["same_answer_again"] = [0] * 6
        return r

    def _ref(env, v, out):
        n, t, tm, dur = v["n"], v["t"], v["tm"], v["dur"]
        P = PERM if orientation == "TNW" else np.identity(3, dtype=int)

        def toq(x):
            return list(P.T @ env.vec(*x[:3])) + list(P.T @ env.vec(*x[3:]))

        def fromq(x):
            return list(P @ env.vec(*x[:3])) + list(P @ env.vec(*x[3:]))

        x = toq(_x0(v))
        d = list(P.T @ env.vec(v["ax"], v["ay"], v["az"]))
        if kind == "impulsive":
            if t > tm:                  # the state at the very date of an impulse does not include it
                x = cw_ref(env, n, tm, x)
                x = x[:3] + [x[3] + d[0], x[4] + d[1], x[5] + d[2]]
                x = cw_ref(env, n, t - tm, x)
            else:
                x = cw_ref(env, n, t, x)
            return {"x": fromq(x)}
        if kind == "cont_dv":
            start, acc = tm, [k / dur for k in d]
        else:
            start, acc = tm - dur / 2, d
        stop = start + dur
        # the part of a burn that lies before the epoch of the orbit (t = 0) belongs to its past: thrust acts on
        # [max(start, 0), stop] only
        if stop <= 0:
            x = cw_ref(env, n, t, x)
            return {"x": fromq(x)}
        on = start if start > 0 else 0
        if t < start:
            x = cw_ref(env, n, t, x)
        elif t < stop:
            x = cw_ref(env, n, on, x)
            x = cw_ref(env, n, t - on, x, acc)
        else:
            x = cw_ref(env, n, on, x)
            x = cw_ref(env, n, stop - on, x, acc)
            x = cw_ref(env, n, t - stop, x)
        return {"x": fromq(x)}

    return Case(f"man/{kind}/{orientation}", inputs, run, ref, pre=pre, timeout=120, tol=1e-5, abs_tol=1e-5,
                desc=f"propagate() through one {kind} maneuver ({orientation}) equals the piecewise closed-form Hill solution "
                     f"(delta-v applied exactly once at its date / thrust only inside its window)")



# ---- rendezvous helper: the announced displacement is what the propagator delivers
def helper_case(kind, orientation, continuous=False):
    T_IN = [("n", "pos"), ("thm", "angle", {"lo": "free"}), ("tm", "timeof", {"angle": "thm", "rate": "n"}),
            ("the", "angle", {"lo": "free"}), ("te", "timeof", {"angle": "the", "rate": "n"}),
            ("y0", "real"), ("r", "real")]
    if kind.startswith("vbar"):
        T_IN = T_IN + [("dv", "pos"), ("thd", "angle", {"lo": "free"}), ("dur", "timeof", {"angle": "thd", "rate": "n"})]

    def pre(v):
        # a maneuver may be dated at the epoch of the orbit (an impulse takes effect just after its date)
        p = [v["tm"] >= 0, v["te"] > 0]            # strictly after the last impulse (the state at its very date does not include it)
        if kind.startswith("vbar"):
            p += [v["dur"] > 0]
        return p

    def build(env, v):
        prop = mk_prop(env, v["n"], orientation)
        ch = env.mod("beyond.utils.cwhelper")
        if env.symbolic:
            ch.timedelta = lambda seconds=0: SymTD(seconds)
            ch.Orbit = lambda coord, date, form=None, frame=None, propagator=None: _attach(propagator, carrier(
                list(coord), date=date, frame=propagator.frame))
        helper = ch.CWHelper(prop)
        return prop, helper

    def _attach(prop, orb):
        prop._orbit = orb
        return orb

    def run(env, v):
        prop, helper = build(env, v)
        try:
            n, r, y0 = v["n"], v["r"], v["y0"]
            d0 = mk_date(env, 0)
            dm = mk_date(env, v["tm"])
            two_pi = 2 * env.pi
            if kind == "coelliptic":
                orb = helper.coelliptic(d0, r, y0)
                if not env.symbolic:
                    prop.orbit = orb
                out = prop.propagate(mk_date(env, v["te"]))
                return {"x": list(out)}
            if kind == "hohmann":
                orb = helper.coelliptic(d0, -r, y0)
                mans = helper.hohmann(r, dm, continuous=continuous)
                span = two_pi / n if continuous else env.pi / n
                announced = helper.hohmann_distance(r, continuous=continuous)
            elif kind == "eccentric":
                orb = helper.coelliptic(d0, 0, y0)
                mans = helper.eccentric_boost(r, dm, continuous=continuous)
                span = two_pi / n if continuous else env.pi / n
                announced = r
            elif kind == "tangential":
                orb = helper.coelliptic(d0, 0, y0)
                mans = helper.tangential_boost(r, dm)
                span = two_pi / n
                announced = r
            elif kind in ("vbar+", "vbar-"):
                sg = 1 if kind == "vbar+" else -1
                tang = sg * v["dv"] * v["dur"]
                orb = helper.coelliptic(d0, 0, y0)
                mans = helper.vbar_linear(tang, dm, v["dv"])
                span = v["dur"]
                announced = tang
            if not env.symbolic:
                prop.orbit = orb
                prop.orbit.maneuvers = list(mans)
                orb.maneuvers = list(mans)
            else:
                orb.maneuvers = list(mans)
            out = prop.propagate(mk_date(env, v["tm"] + span + v["te"]))
            res = {"x": list(out), "announced": announced}
            if kind.startswith("vbar"):
                # half way through the approach the chaser is still on the V-bar, moving at dv
                mid = prop.propagate(mk_date(env, v["tm"] + span / 2))
                res["mid"] = list(mid)
            return res
        finally:
            if not env.symbolic:
                _restore()

    def ref(env, v, out):
        n, r, y0 = v["n"], v["r"], v["y0"]
        P = PERM if orientation == "TNW" else np.identity(3, dtype=int)

        def fromq(x):
            return list(P @ env.vec(*x[:3])) + list(P @ env.vec(*x[3:]))
        if kind == "coelliptic":
            # constant radial offset, uniform along-track drift -3/2 n r
            return {"x": fromq([r, y0 - 1.5 * n * r * v["te"], 0, 0, -1.5 * n * r, 0])}
        if kind == "hohmann":
            # before the transfer the chaser drifts on its coelliptic orbit at x=-r: vy = 3/2 n r
            y_start = y0 + 1.5 * n * r * v["tm"]
            dist = (3 * env.pi / 2 if continuous else 3 * env.pi / 4) * r
            return {"x": fromq([0, y_start + dist, 0, 0, 0, 0]), "announced": dist}
        if kind in ("eccentric", "tangential"):
            return {"x": fromq([0, y0 + r, 0, 0, 0, 0]), "announced": r}
        sg = 1 if kind == "vbar+" else -1
        tang = sg * v["dv"] * v["dur"]
        return {"x": fromq([0, y0 + tang, 0, 0, 0, 0]), "announced": tang,
                "mid": fromq([0, y0 + tang / 2, 0, 0, sg * v["dv"], 0])}

    nm = f"helper/{kind}{'_cont' if continuous else ''}/{orientation}"
    return Case(nm, T_IN, run, ref, pre=pre, timeout=120, tol=1e-5, abs_tol=1e-4,
                desc=f"CWHelper {kind} ({'continuous' if continuous else 'impulsive'}, {orientation}): under the propagator the chaser "
                     "ends exactly where announced, at rest where announced, for any start time and any later date")


def helper_cases(tier):
    cs = []
    for o in ("QSW", "TNW"):
        cs += [helper_case("coelliptic", o), helper_case("hohmann", o), helper_case("hohmann", o, True),
               helper_case("eccentric", o), helper_case("eccentric", o, True), helper_case("tangential", o),
               helper_case("vbar+", o), helper_case("vbar-", o)]
    return cs


def cases(tier):
    cs = []
    for o in ("QSW", "TNW"):
        cs.append(Case(f"hill_ode/{o}", BASE_IN, run_ode(o), ref_ode(o), tol=1e-4, abs_tol=1e-6, timeout=60,
                       desc=f"d/dt of the state returned by _propagate ({o}) satisfies Hill's equations with constant thrust, "
                            "and equals the textbook closed form"))
        cs.append(Case(f"initial/{o}", [("n", "pos")] + [(k, "real") for k in X6 + ["ax", "ay", "az"]], run_ic(o),
                       lambda env, v, out: {"x": _x0(v)}, desc="propagation over zero time is the identity"))
    comp_in = [("n", "pos"), ("th1", "angle", {"lo": "free"}), ("t1", "timeof", {"angle": "th1", "rate": "n"}),
               ("th2", "angle", {"lo": "free"}), ("t2", "timeof", {"angle": "th2", "rate": "n"})] + \
              [(k, "real") for k in X6 + ["ax", "ay", "az"]]
    cs.append(Case("compose", comp_in, run_compose, ref_compose, timeout=120, tol=1e-5, abs_tol=1e-5,
                   desc="t1 then t2 equals t1+t2; forwards then backwards is the identity"))
    cs.append(Case("mean_motion", [("sma", "pos"), ("mu", "pos")], run_n,
                   lambda env, v, out: {"n2a3": v["mu"], "npos": 0}, desc="n^2 a^3 = mu, n >= 0"))
    return cs


def man_chain_case(kind, direction, orientation="QSW"):
    """propagation composes through maneuvers: propagate to t1, then propagate the *returned* orbit (which carries the same
    maneuver list) to t2 >= t1 -- equals the direct propagation to t2 (delta-v exactly once, thrust only inside its window);
    direction 'back': from t1 back to the epoch -- restores the initial state"""
    from beyond.orbits.man import ImpulsiveMan, ContinuousMan

    inputs = [("n", "pos"), ("thm", "angle", {"lo": "free"}), ("tm", "timeof", {"angle": "thm", "rate": "n"}),
              ("thd", "angle", {"lo": "free"}), ("dur", "timeof", {"angle": "thd", "rate": "n"}),
              ("th1", "angle", {"lo": "free"}), ("t1", "timeof", {"angle": "th1", "rate": "n"}),
              ("th2", "angle", {"lo": "free"}), ("t2", "timeof", {"angle": "th2", "rate": "n"})] + \
             [(k, "real") for k in X6] + [(k, "real") for k in ("ax", "ay", "az")]

    def mans(env, v):
        dvec = [v["ax"], v["ay"], v["az"]]
        if kind == "impulsive":
            return [ImpulsiveMan(mk_date(env, v["tm"]), dvec)]
        return [ContinuousMan(mk_date(env, v["tm"]), mk_td(env, v["dur"]), dv=dvec)]

    def pre(v):
        p = [v["tm"] >= 0, v["dur"] > 0, v["t1"] >= 0]
        return p + ([v["t2"] >= v["t1"]] if direction == "fwd" else [])

    def run(env, v):
        t_end = v["t2"] if direction == "fwd" else 0
        prop = mk_prop(env, v["n"], orientation)
        try:
            if env.symbolic:
                mk_orb(env, prop, _x0(v), mans=mans(env, v))
                mid = prop.propagate(mk_date(env, v["t1"]))
                prop2 = mk_prop(env, v["n"], orientation)
                mk_orb(env, prop2, list(mid), t0=v["t1"], mans=mans(env, v))
                out = prop2.propagate(mk_date(env, t_end))
            else:
                orb = mk_orb(env, prop, _x0(v), mans=mans(env, v))
                mid = orb.propagate(mk_date(env, v["t1"]))            # public API: the result keeps maneuvers and propagator
                out = mid.propagate(mk_date(env, t_end))
            return {"x": list(out)}
        finally:
            if not env.symbolic:
                _restore()

    def ref(env, v, out):
        if direction == "back":
            return {"x": _x0(v)}
        n, t, tm, dur = v["n"], v["t2"], v["tm"], v["dur"]
        P = PERM if orientation == "TNW" else np.identity(3, dtype=int)
        toq = lambda x: list(P.T @ env.vec(*x[:3])) + list(P.T @ env.vec(*x[3:]))
        fromq = lambda x: list(P @ env.vec(*x[:3])) + list(P @ env.vec(*x[3:]))
        x = toq(_x0(v))
        d = list(P.T @ env.vec(v["ax"], v["ay"], v["az"]))
        if kind == "impulsive":
            if t > tm:                  # the state at the very date of an impulse does not include it
                x = cw_ref(env, n, tm, x)
                x = x[:3] + [x[3] + d[0], x[4] + d[1], x[5] + d[2]]
                x = cw_ref(env, n, t - tm, x)
            else:
                x = cw_ref(env, n, t, x)
            return {"x": fromq(x)}
        start, acc = tm, [k / dur for k in d]
        stop = start + dur
        if t < start:
            x = cw_ref(env, n, t, x)
        elif t < stop:
            x = cw_ref(env, n, start, x)
            x = cw_ref(env, n, t - start, x, acc)
        else:
            x = cw_ref(env, n, start, x)
            x = cw_ref(env, n, dur, x, acc)
            x = cw_ref(env, n, t - stop, x)
        return {"x": fromq(x)}
    sig = "CW chain: maneuver applied again when a propagated orbit is propagated further" if direction == "fwd" else \
        "CW backward propagation across a maneuver ignores it"
    return Case(f"man_chain/{kind}/{direction}/{orientation}", inputs, run, ref, pre=pre, timeout=120, tol=1e-5, abs_tol=1e-5,
                signature=sig, maxpaths=200,
                desc=f"{kind} maneuver, {orientation}: propagate(t1) then propagate(" + ("t2 >= t1) of the returned orbit equals "
                     "propagate(t2)" if direction == "fwd" else "epoch) of the returned orbit restores the initial state"))


def man_pair_case(kind_a, kind_b, overlap=False, orientation="QSW"):
    """two maneuvers in chronological order (impulse = 'i', continuous burn given by its acceleration = 'c'), target date anywhere: the result is
    the free motion plus, by linearity of Hill's equations, the contribution of each maneuver taken alone (an impulse counts
    once its date is passed, a burn for the part of its window that lies before the target date).  overlap: the second
    maneuver, an impulse, is dated inside the burn that precedes it"""
    from beyond.orbits.man import ImpulsiveMan, ContinuousMan

    inputs = [("n", "pos")]
    for nm in ("ta", "da", "tb", "db", "t"):
        inputs += [("th_" + nm, "angle", {"lo": "free"}), (nm, "timeof", {"angle": "th_" + nm, "rate": "n"})]
    inputs += [(k, "real") for k in X6] + [(k, "real") for k in ("ax", "ay", "az", "bx", "by", "bz")]

    def mk(env, kind, t, dur, dvec):
        if kind == "i":
            return ImpulsiveMan(mk_date(env, t), dvec)
        return ContinuousMan(mk_date(env, t), mk_td(env, dur), accel=dvec)

    def mans(env, v):
        return [mk(env, kind_a, v["ta"], v["da"], [v["ax"], v["ay"], v["az"]]),
                mk(env, kind_b, v["tb"], v["db"], [v["bx"], v["by"], v["bz"]])]

    def pre(v):
        end_a = v["ta"] + v["da"] if kind_a == "c" else v["ta"]
        p = [v["ta"] >= 0, v["da"] > 0, v["db"] > 0]

        def same(a, b):
            # sound fact about the angle abstraction: two instants that coincide are the same angle (cos, sin functions of it)
            return (a < b) | (a > b) | ((a.cos() == b.cos()) & (a.sin() == b.sin()))
        ea, eb = v["th_ta"] + v["th_da"], v["th_tb"] + v["th_db"]
        if kind_a == "c" and kind_b == "c":
            # two burns: the coincidences target date = end of a burn / second start = first end are left out (with the facts
            # above for five angles the queries exceed the budget; the same boundaries are decided for one burn in man/cont_*)
            apart = lambda a, b: (a < b) | (a > b)
            p += [apart(v["th_t"], ea), apart(v["th_tb"], ea), apart(v["th_t"], eb)]
        elif kind_a == "c":
            p += [same(v["th_t"], ea), same(v["th_tb"], ea)]
        if kind_b == "c" and kind_a != "c":
            p += [same(v["th_t"], eb)]
        if overlap:
            return p + [v["tb"] > v["ta"], v["tb"] < end_a]
        return p + [v["tb"] >= end_a]

    def run(env, v):
        prop = mk_prop(env, v["n"], orientation)
        try:
            mk_orb(env, prop, _x0(v), mans=mans(env, v))
            return {"x": list(prop.propagate(mk_date(env, v["t"])))}
        finally:
            if not env.symbolic:
                _restore()
    P = PERM if orientation == "TNW" else np.identity(3, dtype=int)
    toq = lambda env, x: list(P.T @ env.vec(*x[:3])) + list(P.T @ env.vec(*x[3:]))
    fromq = lambda env, x: list(P @ env.vec(*x[:3])) + list(P @ env.vec(*x[3:]))
    dvq = lambda env, d: list(P.T @ env.vec(*d))

    def contribution(env, n, t, kind, start, dur, d):
        zero = [0, 0, 0, 0, 0, 0]
        if kind == "i":
            return cw_ref(env, n, t - start, [0, 0, 0] + list(d)) if t > start else zero
        acc = list(d)               # burns given by their acceleration (the dv / duration conversion is man/cont_dv)
        if t <= start:
            return zero
        if t < start + dur:
            return cw_ref(env, n, t - start, zero, acc)
        return cw_ref(env, n, t - start - dur, cw_ref(env, n, dur, zero, acc))

    def ref_cc(env, v):
        # two burns one after the other: piecewise closed form, segment by segment (the superposition form of this case is
        # beyond the solver's time budget: five angles)
        n, t, x, at = v["n"], v["t"], toq(env, _x0(v)), 0
        for start, dur, acc in ((v["ta"], v["da"], dvq(env, [v["ax"], v["ay"], v["az"]])),
                                (v["tb"], v["db"], dvq(env, [v["bx"], v["by"], v["bz"]]))):
            if t <= start:
                break
            x, at = cw_ref(env, n, start - at, x), start
            end = start + dur if t >= start + dur else t
            x, at = cw_ref(env, n, end - at, x, acc), end
        return {"x": fromq(env, cw_ref(env, n, t - at, x))}

    def ref(env, v, out):
        if kind_a == "c" and kind_b == "c":
            return ref_cc(env, v)
        n, t = v["n"], v["t"]
        x = cw_ref(env, n, t, toq(env, _x0(v)))
        ca = contribution(env, n, t, kind_a, v["ta"], v["da"], dvq(env, [v["ax"], v["ay"], v["az"]]))
        cb = contribution(env, n, t, kind_b, v["tb"], v["db"], dvq(env, [v["bx"], v["by"], v["bz"]]))
        return {"x": fromq(env, [x[k] + ca[k] + cb[k] for k in range(6)])}
    sig = "CW: an impulse dated inside a continuous burn is dropped while the target date is inside the burn" if overlap else None
    return Case(f"man_pair/{kind_a}{kind_b}" + ("/overlap" if overlap else "") + ("/TNW" if orientation == "TNW" else ""), inputs, run, ref,
                pre=pre, timeout=120, tol=1e-5, abs_tol=1e-5,
                signature=sig, maxpaths=400,
                desc=f"propagate() through two maneuvers ({kind_a} then {kind_b}; i = impulse, c = continuous burn"
                     + (", the impulse dated inside the burn" if overlap else ", the second not before the end of the first")
                     + ") equals the free Hill motion plus the closed-form contribution of each maneuver")


def man_cases(tier):
    cs = [man_case("impulsive"), man_case("cont_dv"), man_case("cont_accel_median"), man_case("impulsive", "TNW"),
          man_case("cont_dv", "TNW")]
    cs += [man_chain_case("impulsive", "fwd"), man_chain_case("cont_dv", "fwd"), man_chain_case("impulsive", "back"),
           man_chain_case("cont_dv", "back")]
    cs += [man_pair_case("i", "i"), man_pair_case("i", "c"), man_pair_case("c", "i"), man_pair_case("c", "c"),
           man_pair_case("c", "i", overlap=True)]
    if tier != "quick":
        cs += [man_chain_case("impulsive", "fwd", "TNW"), man_chain_case("cont_dv", "fwd", "TNW")]
        cs += [man_pair_case("i", "c", orientation="TNW"), man_pair_case("c", "i", orientation="TNW"),
               man_pair_case("c", "i", overlap=True, orientation="TNW")]
    return cs


def copy_case():
    """a propagated orbit carries `propagator.copy()`: the copy has the same target radius and the same Hill frame (orientation)
    as the original, whatever Hill frames have been created in the meantime -- otherwise propagating a returned orbit further
    uses the matrices of another orientation"""
    ins = [("sma", "pos")]

    def run(env, v):
        import importlib
        cw = _mods(env) if env.symbolic else importlib.import_module("beyond.propagators.cw")
        fr = importlib.import_module("beyond.frames.frames")
        try:
            first = fr.HillFrame("TNW")
            p = cw.ClohessyWiltshire(v["sma"] if env.symbolic else 7e6 * (1 + float(v["sma"]) % 5), frame=first)
            fr.HillFrame("QSW")                      # another propagator is set up afterwards (it becomes the default "Hill")
            q = p.copy()
            same = q is not p and q.frame is first and q.frame.orientation == "TNW"
            if env.symbolic:
                return {"sma": q.sma, "frame": Holds(SB(z3.BoolVal(bool(same))))}
            return {"sma": float(q.sma) / float(p.sma) * float(v["sma"]), "frame": Holds(bool(same))}
        finally:
            _restore()

    def ref(env, v, out):
        return {"sma": v["sma"], "frame": None}
    return Case("config/copy", ins, run, ref, timeout=30, tol=1e-12, abs_tol=0,
                desc="ClohessyWiltshire.copy() -- the propagator handed to every propagated orbit -- keeps the target radius and the "
                     "Hill frame of the original, also when another Hill frame has been created since")


def all_cases(tier):
    return cases(tier) + man_cases(tier) + helper_cases(tier) + [copy_case()]


def groups(tier):
    g = {}
    for c in all_cases(tier):
        g[c.name.replace("/", "_")] = (lambda c=c: run_cases([c]))
    return g


def replay(ob, model):
    return replay_cases(all_cases("thorough"), ob, model)
