"""C03 (readers) -- the IERS file readers and the day lookup of SimpleEopDatabase on symbolic file contents.

The three files (finals.all, finals2000A.all, tai-utc.dat) are modelled as arbitrary buffers in the published fixed format:
every digit of every numeric field and every sign column is a solver variable, the layout (which columns hold what) is the
IERS `readme.finals` / `readme.finals2000A` description transcribed below.  The real `SimpleEopDatabase.__init__` (hence the
real `Finals`, `Finals2000A`, `TaiUtc` readers) runs on those buffers through a fake `Path`; the real `EopDb.get` is then asked
for a symbolic MJD.  Reference: the value printed in the spec's columns for the line of day floor(mjd), and the TAI-UTC value of
the last table line whose date is <= mjd.  Which optional fields are blank on which line (the prediction part of the real
files) is a solver-chosen configuration (`choice`), exhaustiveness being a separate query.
"""
import importlib
import os
import shutil
import tempfile

import z3

from symx import solve
from symx.core import CTX, R, SB, explore
from symx.zstr import SymChar, SymStr

# ---- readme.finals2000A / readme.finals: 1-based inclusive columns, Fortran format
SPEC = {"mjd": (8, 15, 2), "x": (19, 27, 6), "x_err": (28, 36, 6), "y": (38, 46, 6), "y_err": (47, 55, 6),
        "ut1_utc": (59, 68, 7), "ut1_err": (69, 78, 7), "lod": (80, 86, 4), "lod_err": (87, 93, 4),
        "d1": (98, 106, 3), "d1_err": (107, 115, 3), "d2": (117, 125, 3), "d2_err": (126, 134, 3)}
FLAGS = (17, 58, 96)                  # I / P flags
WIDTH = 134
DAY0 = 41684                          # 1973-01-02, first line of finals.all
NLINES = 3
GROUPS = {"pm": ("x", "x_err", "y", "y_err", "ut1_utc", "ut1_err"), "lod": ("lod", "lod_err"), "nut": ("d1", "d1_err", "d2", "d2_err")}
SHAPES = ["full", "no_nut", "no_lod", "no_nut_lod", "end"]           # what a line of the prediction part may lack


class FChar(SymChar):
    def __init__(self, code, cls):
        super().__init__(code)
        self.cls = cls


class FStr(SymStr):
    """string of FChar: blank / dot / digit / sign (symbolic ' ' or '-') / other -- the class of every position is concrete"""
    def __getitem__(self, k):
        if isinstance(k, slice):
            return FStr(self.chars[k])
        return FStr([self.chars[k]])

    def rstrip(self):
        cs = list(self.chars)
        while cs and cs[-1].cls == "blank":
            cs.pop()
        return FStr(cs)

    def split(self):
        out, cur = [], []
        for c in self.chars:
            if c.cls == "blank":
                if cur:
                    out.append(FStr(cur))
                cur = []
            else:
                cur.append(c)
        if cur:
            out.append(FStr(cur))
        return out

    def template(self):
        return [str(c.code) if not z3.is_int_value(c.code) else c.code.as_long() for c in self.chars]


def lit(s):
    def cls(ch):
        return "blank" if ch == " " else "dot" if ch == "." else "digit" if ch.isdigit() else "other"
    return [FChar(ord(ch), cls(ch)) for ch in s]


def sym_float(x):
    """Python float() on a fixed-format field (the language of Fortran F fields plus what a wrong slice can produce)"""
    if not isinstance(x, SymStr):
        return float(x)
    cs = list(x.chars)
    while cs and cs[0].cls == "blank":
        cs.pop(0)
    while cs and cs[-1].cls == "blank":
        cs.pop()
    sign = None
    if cs and cs[0].cls == "sign":
        sign = cs.pop(0)
    if not cs or any(c.cls not in ("digit", "dot") for c in cs) or sum(c.cls == "dot" for c in cs) > 1 \
            or not any(c.cls == "digit" for c in cs):
        raise ValueError("could not convert string to float")
    if "dot" in [c.cls for c in cs]:
        k = [c.cls for c in cs].index("dot")
        ip, fp = cs[:k], cs[k + 1:]
    else:
        ip, fp = cs, []
    if sign is None and all(z3.is_int_value(c.code) for c in cs):
        return float("".join(chr(c.code.as_long()) for c in cs))
    tot = z3.RealVal(0)
    for i, c in enumerate(reversed(ip)):
        tot = tot + z3.ToReal(c.code - 48) * z3.RealVal(10 ** i)
    for i, c in enumerate(fp):
        tot = tot + z3.ToReal(c.code - 48) / z3.RealVal(10 ** (i + 1))
    if sign is not None:
        tot = z3.If(sign.code == 45, -tot, tot)
    return R.of(tot)


def sym_int(x):
    if isinstance(x, R):
        # floor of a symbolic non-negative real, concretised by forking over the days around the modelled table
        for k in range(DAY0 - 2, DAY0 + NLINES + 2):
            if (x >= k) & (x < k + 1):
                return k
        raise AssertionError("mjd outside the modelled range")
    return int(x)


def field(name, line, w, d, signed, blank=False, concrete=None):
    """characters of one Fw.d field: [blanks] [sign] digits . digits"""
    if blank:
        return lit(" " * w)
    if concrete is not None:
        return lit(concrete.rjust(w))
    ipw = w - d - 1
    nd = 1 if ipw <= 2 else 2
    cs = lit(" " * (ipw - nd - (1 if signed else 0)))
    if signed:
        v = z3.Int(f"{line}_{name}_s")
        CTX.pre.append(z3.Or(v == 32, v == 45))
        cs.append(FChar(v, "sign"))
    for i in range(nd + d):
        if i == nd:
            cs += lit(".")
        v = z3.Int(f"{line}_{name}_{i}")
        CTX.pre.append(z3.And(v >= 48, v <= 57))
        cs.append(FChar(v, "digit"))
    assert len(cs) == w, (name, len(cs), w)
    return cs


def finals_line(tag, k, shape):
    """one line of a finals file for day DAY0 + k"""
    cols = lit(" " * WIDTH)
    day = DAY0 + k
    head = "%2d%2d%2d" % (73, 1, 2 + k)
    cols[0:6] = lit(head)
    missing = {"full": (), "no_nut": ("nut",), "no_lod": ("lod",), "no_nut_lod": ("nut", "lod"), "end": ("pm", "lod", "nut")}[shape]
    gone = {f for g in missing for f in GROUPS[g]}
    for name, (a, b, d) in SPEC.items():
        w = b - a + 1
        if name == "mjd":
            cs = field(name, f"{tag}{k}", w, d, False, concrete="%.2f" % day)
        else:
            cs = field(name, f"{tag}{k}", w, d, not name.endswith("_err"), blank=name in gone)
        cols[a - 1:b] = cs
    for c in FLAGS:
        if shape != "end":
            v = z3.Int(f"{tag}{k}_flag{c}")
            CTX.pre.append(z3.Or(v == ord("I"), v == ord("P")))
            cols[c - 1] = FChar(v, "other")
    return FStr(cols)


TAI_DATES = [(1972, "JAN", 1, 2441317.5), (1972, "JUL", 1, 2441499.5), (1973, "JAN", 3, 2441685.5), (1974, "JAN", 1, 2442048.5)]   # the third date falls inside the modelled finals window on purpose


def taiutc_line(k):
    y, m, d, jd = TAI_DATES[k]
    cs = lit(" %4d %s %2d =JD %.1f  TAI-UTC=  " % (y, m, d, jd))
    val = z3.RealVal(0)
    for i, w in enumerate(("10", "1", "1/10")):
        if i == 2:
            cs += lit(".")
        v = z3.Int(f"tai{k}_{i}")
        CTX.pre.append(z3.And(v >= 48, v <= 57))
        cs.append(FChar(v, "digit"))
        val = val + z3.ToReal(v - 48) * z3.RealVal(w)
    cs += lit("       S + (MJD - 41317.) X 0.0      S")
    out = FStr(cs)
    out.value = val
    return out


class FakeText:
    def __init__(self, lines):
        self.lines = lines

    def splitlines(self):
        return list(self.lines)


class FakeHandle:
    def __init__(self, lines):
        self.lines = lines

    def read(self):
        return FakeText(self.lines)

    def __enter__(self):
        return self

    def __exit__(self, *a):
        return False


def make_fs(files, opened):
    class FakePath:
        def __new__(cls, p="."):
            if isinstance(p, FakePath):
                return p
            o = object.__new__(cls)
            o.name = str(p)
            return o

        @classmethod
        def cwd(cls):
            return cls("vf_eop_folder")

        def __truediv__(self, o):
            return FakePath(self.name + "/" + str(o))

        def open(self, encoding=None, **kw):
            base = self.name.split("/")[-1]
            opened.append(base)
            return FakeHandle(files[base])
    return FakePath


# ---- reference reading of the spec's columns
def spec_value(line, name):
    a, b, d = SPEC[name]
    cs = line.chars[a - 1:b]
    if all(c.cls == "blank" for c in cs):
        return None
    digits = [c for c in cs if c.cls == "digit"]
    n = z3.IntVal(0)
    for c in digits:
        n = n * 10 + (c.code - 48)
    val = z3.ToReal(n) / z3.RealVal(10 ** d)
    for c in cs:
        if c.cls == "sign":
            val = z3.If(c.code == 45, -val, val)
    return val


def expected_table(f80, f00):
    """what the documentation of the readers promises: per day the tabulated values; missing nutation corrections / LOD are
    replaced by the last available ones; reading stops at the first line without pole and UT1-UTC values"""
    out = {}
    last = {}
    for k in range(NLINES):
        l80, l00 = f80[k], f00[k]
        if spec_value(l00, "x") is None or spec_value(l80, "x") is None:
            break
        e = {"x": spec_value(l00, "x"), "y": spec_value(l00, "y"), "ut1_utc": spec_value(l00, "ut1_utc")}
        for key, line, f in (("lod", l00, "lod"), ("dx", l00, "d1"), ("dy", l00, "d2"), ("dpsi", l80, "d1"), ("deps", l80, "d2")):
            v_ = spec_value(line, f)
            e[key] = v_ if v_ is not None else last.get(key)
        last = e
        out[DAY0 + k] = e
    return out


FIELDS = ("x", "y", "dx", "dy", "dpsi", "deps", "lod", "ut1_utc", "tai_utc")


def readers_group(tier="quick", shape1=None):
    from harness.c20 import choice, CHOSEN, DOMAINS
    eop = importlib.import_module("beyond.dates.eop")
    cfgmod = importlib.import_module("beyond.config")
    obs, paths, npaths = [], [], 0
    ntai = 3

    def setup():
        CHOSEN.clear()

    def body():
        shapes = ["full"] + [shape1 if (k == 1 and shape1) else SHAPES[choice(f"shape{k}", len(SHAPES))] for k in range(1, NLINES)]
        f80 = [finals_line("a", k, shapes[k]) for k in range(NLINES)]
        f00 = [finals_line("b", k, shapes[k]) for k in range(NLINES)]
        tai = [taiutc_line(k) for k in range(ntai)]
        files = {"finals.all": f80, "finals2000A.all": f00, "tai-utc.dat": tai}
        opened = []
        saved = {k: getattr(eop, k, None) for k in ("Path",)}
        eop.Path = make_fs(files, opened)
        eop.float, eop.int = sym_float, sym_int
        mjd = R.of(z3.Real("mjd"))
        CTX.pre += [mjd.term() >= DAY0 - 1, mjd.term() < DAY0 + NLINES + 1]
        try:
            db = eop.SimpleEopDatabase()
            eop.EopDb._dbs["vf_readers"] = db
            cfgmod.config.update({"eop": {"missing_policy": "error"}})
            try:
                got = eop.EopDb.get(mjd, dbname="vf_readers")
                res = {k: getattr(got, k) for k in FIELDS}
            except KeyError:
                res = None
        finally:
            eop.Path = saved["Path"]
            del eop.float, eop.int
            eop.EopDb._dbs.pop("vf_readers", None)
            cfgmod.config.pop("eop", None)
        # ---- reference
        table = expected_table(f80, f00)
        taitab = [(int(TAI_DATES[k][3] - 2400000.5), tai[k].value) for k in range(ntai)]
        return shapes, res, table, taitab, mjd, {n: [l.template() for l in ls] for n, ls in files.items()}, sorted(opened)

    def term(x):
        if isinstance(x, R):
            return x.term()
        if isinstance(x, (int, float)):
            return z3.RealVal(repr(float(x)))
        return x

    for pc, (shapes, res, table, taitab, mjd, tmpl, opened) in explore(body, maxpaths=2000, setup=setup):
        npaths += 1
        paths.append(z3.And(list(pc)) if pc else z3.BoolVal(True))
        names = sorted({str(d_) for c in list(CTX.pre) for d_ in _consts(c)})
        m = mjd.term()
        # which day does this path look at (the path condition fixes floor(mjd))
        rp = {"kind": "readers", "shapes": shapes, "templates": tmpl}
        cfgname = "+".join(shapes[1:])
        tag = f"readers/{cfgname}/p{npaths}"
        if opened != ["finals.all", "finals2000A.all", "tai-utc.dat"]:
            obs.append(solve.make_ob(f"{tag}/files", [z3.BoolVal(True)], extra=pc, vars=names, timeout=30, replay=rp,
                                     desc=f"SimpleEopDatabase opened {opened} instead of the three IERS files"))
            continue
        # expected: entry of day floor(mjd) if present, tai_utc of the last line <= mjd
        for day in range(DAY0 - 1, DAY0 + NLINES + 1):
            inday = z3.And(m >= day, m < day + 1)
            s = z3.Solver()
            s.add(list(CTX.pre) + list(pc) + [inday])
            if s.check() != z3.sat:
                continue
            exp = table.get(day)
            texp = None
            for d_, v_ in taitab:
                if d_ <= day:
                    texp = v_
            if exp is None or texp is None:
                goal = z3.BoolVal(res is not None)
                obs.append(solve.make_ob(f"{tag}/day{day}/missing", [goal], extra=list(pc) + [inday], vars=names, timeout=60, replay=rp,
                                         desc=f"lines {shapes}: a day the files do not tabulate must be reported missing (KeyError)"))
                continue
            if res is None:
                obs.append(solve.make_ob(f"{tag}/day{day}/present", [z3.BoolVal(True)], extra=list(pc) + [inday], vars=names, timeout=60,
                                         replay=rp, desc=f"lines {shapes}: day {day} is tabulated but EopDb.get raises KeyError"))
                continue
            for f in FIELDS:
                want = texp if f == "tai_utc" else exp[f]
                got = res[f]
                if got is None or want is None:
                    goal = z3.BoolVal((got is None) != (want is None))
                else:
                    goal = term(got) != want
                obs.append(solve.make_ob(f"{tag}/day{day}/{f}", [goal], extra=list(pc) + [inday], vars=names, timeout=60, replay=rp,
                                         desc=f"lines {shapes}: EopDb.get(mjd).{f} for floor(mjd) = {day} is the value printed in the "
                                              "IERS columns of that day's line (TAI-UTC: of the last leap-second line <= mjd)"))
        obs.append(solve.twin(f"{tag}/twin", extra=pc, desc="reachability twin: some file content and mjd follow this path"))
    # exhaustiveness of the explored configurations
    s = z3.Solver()
    for n_, k in DOMAINS.items():
        v = z3.Int(n_)
        s.add(v >= 0, v < k)
    m = z3.Real("mjd")
    s.add(m >= DAY0 - 1, m < DAY0 + NLINES + 1)
    s.add(z3.Not(z3.Or(paths)))
    obs.append(dict(name=f"readers/{shape1 or 'all'}/exhaustive", smt2=s.sexpr(), trivial=False, expect="unsat", vars=[], timeout=120, solver="z3",
                    desc="every combination of line shapes and every mjd of the modelled window lies on an explored path",
                    replay={"kind": "readers-exhaustive"}, n_constraints=len(paths), tags=["coverage"]))
    return obs, {"paths": npaths}


def _consts(t, acc=None):
    acc = set() if acc is None else acc
    if z3.is_const(t) and t.decl().kind() == z3.Z3_OP_UNINTERPRETED:
        acc.add(t)
    for c in t.children():
        _consts(c, acc)
    return acc


# ---- replay on the real readers with real files
def render(tmpl, model):
    out = []
    for line in tmpl:
        s = ""
        for c in line:
            if isinstance(c, int):
                s += chr(c)
            else:
                val = model.get(c)
                s += chr(int(val)) if val is not None else ("0" if not c.endswith("_s") and "flag" not in c else " " if c.endswith("_s") else "I")
        out.append(s)
    return out


def py_spec(line, name):
    a, b, d = SPEC[name]
    txt = line[a - 1:b]
    return float(txt) if txt.strip() else None


def replay(ob, model):
    rp = ob["replay"]
    if rp.get("kind") != "readers":
        return {"reproduced": False, "signature": "readers-exploration", "detail": str(rp)}
    from fractions import Fraction
    mv = model.get("mjd", DAY0)
    mjd = float(Fraction(*mv)) if isinstance(mv, list) else float(mv)
    texts = {n: render(t, model) for n, t in rp["templates"].items()}
    tmp = tempfile.mkdtemp(prefix="vf_c03r_")
    eop = importlib.import_module("beyond.dates.eop")
    cfg = importlib.import_module("beyond.config").config
    try:
        for n, lines in texts.items():
            with open(os.path.join(tmp, n), "w", encoding="ascii") as fh:
                fh.write("\n".join(lines) + "\n")
        cfg.update({"eop": {"folder": tmp, "type": "all", "missing_policy": "error"}})
        try:
            db = eop.SimpleEopDatabase()
            eop.EopDb._dbs["vf_replay"] = db
            try:
                got = eop.EopDb.get(mjd, dbname="vf_replay")
                res = {k: getattr(got, k) for k in FIELDS}
            except KeyError:
                res = None
        except Exception as e:  # noqa
            return {"reproduced": True, "signature": "EOP readers", "detail": f"{type(e).__name__}: {e} on files {texts}"}
    finally:
        eop.EopDb._dbs.pop("vf_replay", None)
        cfg.pop("eop", None)
        shutil.rmtree(tmp, ignore_errors=True)
    # independent reading of the spec columns
    day = int(mjd // 1)
    exp, last = None, {}
    for k in range(NLINES):
        l80, l00 = texts["finals.all"][k], texts["finals2000A.all"][k]
        if py_spec(l00, "x") is None or py_spec(l80, "x") is None:
            break
        e = {"x": py_spec(l00, "x"), "y": py_spec(l00, "y"), "ut1_utc": py_spec(l00, "ut1_utc")}
        for key, line, f in (("lod", l00, "lod"), ("dx", l00, "d1"), ("dy", l00, "d2"), ("dpsi", l80, "d1"), ("deps", l80, "d2")):
            v_ = py_spec(line, f)
            e[key] = v_ if v_ is not None else last.get(key)
        last = e
        if DAY0 + k == day:
            exp = e
    tai = None
    for line in texts["tai-utc.dat"]:
        jd = float(line.split("=JD")[1].split()[0])
        if jd - 2400000.5 <= mjd:
            tai = float(line.split("TAI-UTC=")[1].split()[0])
    if exp is not None and tai is not None:
        exp["tai_utc"] = tai
    else:
        exp = None
    bad = (res is None) != (exp is None) or (res is not None and any(
        (res[k] is None) != (exp[k] is None) or (res[k] is not None and abs(res[k] - exp[k]) > 1e-12) for k in FIELDS))
    return {"reproduced": bool(bad), "signature": "EOP readers", "inputs": {"mjd": mjd, "files": texts},
            "detail": f"mjd={mjd}: EopDb.get -> {res}; the IERS columns of the files say {exp}; files: {texts}"}
