"""C05 -- analytical two-body and J2 propagation obey Kepler's laws (DESIGN.md section C05)."""
import math
from datetime import timedelta as _td

import numpy as np

from symx.case import Case, Ang, Mod2pi, run_cases, replay_cases
from symx.core import R, CTX
from symx.stubs import SymDate, SymTD, carrier, FrameStub, Carrier

PROPERTY = "C05"
FUNCS = ["beyond.propagators.kepler:Kepler.propagate", "beyond.propagators.j2:J2.propagate",
         "beyond.orbits.statevector:Infos.n", "beyond.orbits.statevector:Infos.r"]
STUBS = ["Orbit -> object-dtype Carrier in keplerian_mean form with the real Infos attached",
         "the trailing new.copy(form='cartesian') is cut: the mean elements are observed (the conversion itself is C01)",
         "Date/timedelta -> exact real seconds", "frame.center.body.mu symbolic > 0; Earth.r, Earth.J2 in the j2 module -> positive symbols"]
ASSUMPTIONS = ["reals instead of binary64", "a != 0; 0 < e < 1 for J2"]
OUTSIDE = ["agreement with an independent universal-variable solution (needs Kepler-equation convergence and Stumpff "
           "functions: transcendental)"]


def bounds(tier):
    return {"calls_composed": 2, "per_query_timeout_s": 60}


ELEMS = ["a", "e", "i", "Om", "om", "M"]
INS = [("mu", "pos"), ("a", "real"), ("e", "pos"), ("i", "angle", {"lo": "free"}), ("Om", "angle", {"lo": "free"}),
       ("om", "angle", {"lo": "free"}), ("M", "angle", {"lo": "free"}), ("dt", "real")]


class _Cut(Carrier):
    """copy(form='cartesian') is the identity: observe the propagated mean elements"""
    def copy(self, form=None, frame=None, same=False):
        if form == "spherical":
            # J2.propagate reads infos.r without using it: an unconstrained symbol (would need M2E symbolically)
            import types
            from symx.core import var
            return types.SimpleNamespace(r=var("r_unused"))
        new = self._clone_meta(np.ndarray.copy(self).view(type(self)))
        return new


def sym_orbit(env, v, mu, t0=0, elems=None):
    forms = env.mod("beyond.orbits.forms")
    sv = env.mod("beyond.orbits.statevector")
    vals = elems if elems is not None else [v[k] for k in ELEMS]
    orb = carrier(vals, date=SymDate(t0), frame=FrameStub("EME2000", mu, r=0), form=forms.KEPL_M).view(_Cut)
    orb.__dict__.update(date=SymDate(t0), frame=FrameStub("EME2000", mu, r=0), form=forms.KEPL_M, maneuvers=[])
    type(orb).infos = property(lambda self: sv.Infos(self))
    return orb


def conc_orbit(v, elems=None):
    from beyond.orbits import Orbit
    from beyond.dates import Date
    vals = elems if elems is not None else [v[k] for k in ELEMS]
    return Orbit(vals, Date(2020, 1, 1), "keplerian_mean", "EME2000", None)


def scale(env, v):
    if env.symbolic:
        return v
    v = dict(v)
    v["a"] = v["a"] * 7e6 if abs(v["a"]) < 1e5 else v["a"]          # physical length scale for the replay (Earth mu)
    v["e"] = min(v["e"], 0.9) if v["a"] > 0 else v["e"]
    return v


def propagate(env, which, v, elems, dt, first=None, other_a=None):
    """first: an earlier propagate() call on the same propagator instance (its result is discarded): the propagator must
    answer the second date from its stored orbit, unaffected by the first call.  other_a: that earlier call served *another
    orbit* (same elements but this semi-major axis), handed to the instance through its `orbit` setter as Orbit.propagate does"""
    mod = env.mod("beyond.propagators." + ("kepler" if which == "kepler" else "j2"))
    cls = mod.Kepler if which == "kepler" else mod.J2
    if env.symbolic:
        import types
        from symx.core import var
        if which == "j2":
            # module constants as positive symbols (float constants would be squared in binary64 before meeting the
            # symbolic values, which is rounding, not the formula)
            re, j2c = var("Re"), var("J2c")
            CTX.assume(re > 0, j2c > 0)
            mod.Earth = types.SimpleNamespace(mu=v["mu"], r=re, J2=j2c)
        p = cls.__new__(cls)
        if other_a is not None:
            base = elems if elems is not None else [v[k] for k in ELEMS]
            p.orbit = sym_orbit(env, v, v["mu"], 0, [other_a] + list(base[1:]))
            p.propagate(SymDate(first))
            p.orbit = sym_orbit(env, v, v["mu"], 0, elems)
        else:
            p._orbit = sym_orbit(env, v, v["mu"], 0, elems)
            if first is not None:
                p.propagate(SymDate(first))
        out = p.propagate(SymDate(dt))
        return list(out), out.date.t
    p = cls()
    orb = conc_orbit(v, elems)
    if other_a is not None:
        base = elems if elems is not None else [v[k] for k in ELEMS]
        oth = conc_orbit(v, [float(other_a)] + list(base[1:]))
        p.orbit = oth
        p.propagate(oth.date + _td(seconds=float(first)))
        first = None
    p.orbit = orb
    if first is not None:
        p.propagate(orb.date + _td(seconds=float(first)))
    out = p.propagate(orb.date + _td(seconds=float(dt))).copy(form="keplerian_mean")
    return [float(x) for x in out], dt


def n_of(env, mu, a):
    return env.sqrt(mu / abs(a) ** 3)


def kepler_case(family, repeat=False, reuse=False):
    def pre(v):
        p = [v["a"] > 0, v["e"] < 1] if family == "ell" else [v["a"] < 0, v["e"] > 1]
        if reuse:
            p += [v["a2"] > 0] if family == "ell" else [v["a2"] < 0]
        return p

    def run(env, v):
        v = scale(env, v)
        if reuse and not env.symbolic:
            v["a2"] = v["a2"] * 7e6 if abs(v["a2"]) < 1e5 else v["a2"]
        out, t = propagate(env, "kepler", v, None, v["dt"], first=(v["dt1"] if (repeat or reuse) else None),
                           other_a=(v["a2"] if reuse else None))
        return {"five": out[:5] if env.symbolic else [out[0], out[1]], "angles": [Ang(x) for x in out[2:5]],
                "M": Mod2pi(out[5]) if not env.symbolic else out[5], "date": t}

    def ref(env, v, out):
        v = scale(env, v)
        mu = v["mu"] if env.symbolic else __import__("beyond.constants", fromlist=["Earth"]).Earth.mu
        five = [v[k] for k in ELEMS[:5]]
        return {"five": five if env.symbolic else five[:2], "angles": [Ang(v[k]) for k in ("i", "Om", "om")],
                "M": v["M"] + n_of(env, mu, v["a"]) * v["dt"], "date": v["dt"]}
    return Case(f"kepler/{family}" + ("/repeat" if repeat else "") + ("/reuse" if reuse else ""),
                INS + ([("dt1", "real")] if (repeat or reuse) else []) + ([("a2", "real")] if reuse else []), run, ref, pre=pre,
                tol=1e-6, abs_tol=1e-6,
                desc=f"{family}: Kepler.propagate leaves a, e, i, Omega, omega unchanged and advances M by sqrt(mu/|a|^3) dt"
                     + (" -- also when the same propagator instance has answered another date before" if repeat else "")
                     + (" -- also when the same propagator instance has served another orbit (another semi-major axis) before" if reuse else ""))


def kepler_compose_case(which="kepler", family="ell"):
    """which: 'kepler' or 'j2' (the J2 drift is linear in time, so the same composition laws hold); family 'hyp': unbound
    Keplerian motion (no period)"""
    ins = INS + [("dt2", "real")]
    periodic = which == "kepler" and family == "ell"

    def run(env, v):
        v = scale(env, v)
        o1, _ = propagate(env, which, v, None, v["dt"])
        o2, _ = propagate(env, which, v, o1, v["dt2"])
        back, _ = propagate(env, which, v, o1, -v["dt"])
        if env.symbolic:
            out = {"two": o2[:3], "two_angles": o2[3:5], "two_M": o2[5], "back": back[:3], "back_angles": back[3:5], "back_M": back[5]}
            if periodic:
                per, _ = propagate(env, "kepler", v, None, 2 * env.pi / n_of(env, v["mu"], v["a"]))
                out["period"] = Ang(per[5])
            return out
        out = {"two": o2[:2], "two_angles": [Mod2pi(x) for x in o2[3:5]], "two_M": Mod2pi(o2[5]), "back": back[:2],
               "back_angles": [Mod2pi(x) for x in back[3:5]], "back_M": Mod2pi(back[5])}
        if periodic:
            out["period"] = Ang(v["M"])
        return out

    def ref(env, v, out):
        v = scale(env, v)
        one, _ = propagate(env, which, v, None, v["dt"] + v["dt2"])
        el = [v[k] for k in ELEMS]
        k = 3 if env.symbolic else 2
        r = {"two": one[:k], "two_angles": one[3:5], "two_M": one[5], "back": el[:k], "back_angles": el[3:5], "back_M": el[5]}
        if periodic:
            r["period"] = Ang(v["M"])
        return r
    pre = (lambda v: [v["a"] > 0, v["e"] < 1]) if family == "ell" else (lambda v: [v["a"] < 0, v["e"] > 1])
    name = "kepler/compose" if (which, family) == ("kepler", "ell") else f"{which}/compose" + ("/hyp" if family == "hyp" else "")
    return Case(name, ins, run, ref, pre=pre, tol=1e-6, abs_tol=1e-6, timeout=90,
                desc=f"{which} ({family}): propagate(t1) then propagate(t2) = propagate(t1+t2); propagate(-t) is the inverse"
                     + ("; one period adds exactly 2 pi to M" if periodic else ""))


def j2_case(repeat=False):
    def pre(v):
        return [v["a"] > 0, v["e"] < 1]

    def run(env, v):
        v = scale(env, v)
        out, t = propagate(env, "j2", v, None, v["dt"], first=(v["dt1"] if repeat else None))
        return {"aei": out[:3] if env.symbolic else out[:2], "Om": Mod2pi(out[3]), "om": Mod2pi(out[4]), "M": Mod2pi(out[5]),
                "date": t}

    def ref(env, v, out):
        v = scale(env, v)
        from beyond.constants import Earth
        mu = v["mu"] if env.symbolic else Earth.mu
        a, e, i, dt = v["a"], v["e"], v["i"], v["dt"]
        n = n_of(env, mu, a)
        p = a * (1 - e * e)
        if env.symbolic:
            from symx.core import var
            re, J2 = var("Re"), var("J2c")
        else:
            re, J2 = Earth.r, Earth.J2
        k = n * J2 * (re / p) * (re / p)
        c = env.cos(i)
        dOm = -env.frac(3, 2) * k * c
        dom = env.frac(3, 4) * k * (5 * c * c - 1)
        dM = n + env.frac(3, 4) * k * env.sqrt(1 - e * e) * (3 * c * c - 1)
        return {"aei": [a, e, i] if env.symbolic else [a, e], "Om": v["Om"] + dOm * dt, "om": v["om"] + dom * dt,
                "M": v["M"] + dM * dt, "date": dt}
    return Case("j2/rates" + ("/repeat" if repeat else ""), INS + ([("dt1", "real")] if repeat else []), run, ref, pre=pre, tol=1e-6,
                abs_tol=1e-6, timeout=90,
                desc="J2.propagate keeps a, e, i and drifts Omega, omega, M linearly at the first-order secular rates "
                     "(-3/2 n J2 (Re/p)^2 cos i, 3/4 n J2 (Re/p)^2 (5 cos^2 i - 1), n + 3/4 n J2 (Re/p)^2 sqrt(1-e^2)(3 cos^2 i - 1))")


def j2_special_case(kind):
    """polar orbit: no node drift; critical inclination (sin^2 i = 4/5): no perigee drift"""
    def pre(v):
        ci, si = CTX.atom("i")
        p = [v["a"] > 0, v["e"] < 1]
        p += [ci.n == 0] if kind == "polar" else [5 * si.n * si.n == 4]
        return p

    def run(env, v):
        v = scale(env, v)
        if not env.symbolic:
            v["i"] = math.pi / 2 if kind == "polar" else math.asin(math.sqrt(0.8))
        out, t = propagate(env, "j2", v, None, v["dt"])
        return {"fixed": Mod2pi(out[3] if kind == "polar" else out[4])}

    def ref(env, v, out):
        return {"fixed": v["Om"] if kind == "polar" else v["om"]}
    return Case(f"j2/{kind}", INS, run, ref, pre=pre, tol=1e-6, abs_tol=1e-6,
                desc="no node drift on a polar orbit" if kind == "polar" else "no perigee drift at the critical inclination")


def all_cases(tier):
    return [kepler_case("ell"), kepler_case("hyp"), kepler_compose_case(), j2_case(), j2_special_case("polar"),
            j2_special_case("critical"), kepler_case("ell", True), kepler_case("hyp", True), j2_case(True),
            kepler_case("ell", reuse=True), kepler_case("hyp", reuse=True), kepler_compose_case("kepler", "hyp")]


def groups(tier):
    return {c.name.replace("/", "_"): (lambda c=c: run_cases([c])) for c in all_cases(tier)}


def replay(ob, model):
    return replay_cases(all_cases("thorough"), ob, model)
