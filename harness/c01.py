"""C01 -- orbital element forms are lossless, definition-true views of one state (DESIGN.md section C01)."""
import importlib
import math
import types

import numpy as np

from symx.case import Case, Ang, Holds, run_cases, replay_cases
from symx.core import R, Dual, CTX, SB, var, PI
from symx.stubs import carrier

PROPERTY = "C01"
_EDGES = ["cartesian_to_keplerian", "keplerian_to_cartesian", "keplerian_to_keplerian_eccentric",
          "keplerian_eccentric_to_keplerian", "keplerian_eccentric_to_keplerian_mean",
          "keplerian_mean_to_keplerian_eccentric", "keplerian_circular_to_keplerian", "keplerian_to_keplerian_circular",
          "tle_to_keplerian_mean", "keplerian_mean_to_tle", "cartesian_to_spherical", "spherical_to_cartesian",
          "keplerian_to_equinoctial", "equinoctial_to_keplerian", "cartesian_to_cylindrical", "cylindrical_to_cartesian",
          "keplerian_mean_to_keplerian_mean_circular", "keplerian_mean_circular_to_keplerian_mean"]
FUNCS = [f"beyond.orbits.forms:Form._{e}" for e in _EDGES] + ["beyond.orbits.forms:Form.M2E", "beyond.orbits.forms:Form.__call__"] + \
        [f"beyond.orbits.statevector:Infos.{k}" for k in
         "energy n period apocenter pericenter v va vp vinf dinf cos_fpa sin_fpa fpa".split()]
STUBS = ["body -> namespace with symbolic mu > 0", "StateVector -> object-dtype Carrier whose copy(form=...) walks the real "
         "Form graph and calls the real edge functions", "timedelta -> exact real seconds (Infos.period)"]
ASSUMPTIONS = ["reals instead of binary64", "non-degenerate states: e != 0, sin i != 0, r != 0, x^2+y^2 != 0 (the singularities the "
               "quantifier itself excludes)", "elliptic family 0<e<1, a>0; hyperbolic family e>1, a<0",
               "M2E: Lipschitz lemma |sin a - sin b| <= |a-b| (resp. |sinh a - sinh b| <= cosh(max)|a-b| on |H| <= Hmax) assumed for "
               "the exit argument"]
OUTSIDE = ["termination/convergence of the Newton loops of M2E (transcendental; only the exit lemma is claimed)",
           "floating-point loss near e->0, i->0"]


def bounds(tier):
    return {"M2E_unwinding": 1, "per_query_timeout_s": 60 if tier == "quick" else 600,
            "forms": 10, "families": ["elliptic", "hyperbolic"]}


def body_of(env, mu):
    return types.SimpleNamespace(µ=mu, mu=mu, r=0)


def F(env):
    return env.mod("beyond.orbits.forms").Form


def arr(env, xs):
    return env.vec(*xs)


CART = ["x", "y", "z", "vx", "vy", "vz"]


# =========================================================================== spherical / cylindrical
def sph_def_case():
    """cartesian -> spherical: radius, angles and their *time derivatives* (dual numbers), then back"""
    def run(env, v):
        f = F(env)
        b = body_of(env, 1)
        c = arr(env, [v[k] for k in CART])
        s = f._cartesian_to_spherical(c, b)
        back = f._spherical_to_cartesian(s, b)
        return {"r": s[0], "theta": Ang(s[1]), "phi": Ang(s[2]), "r_dot": s[3], "theta_dot": s[4], "phi_dot": s[5],
                "back": list(back)}

    def ref(env, v, out):
        if env.symbolic:
            x, y, z = Dual(v["x"], v["vx"]), Dual(v["y"], v["vy"]), Dual(v["z"], v["vz"])
            r = (x * x + y * y + z * z).sqrt()
            phi = (z / r).arcsin()
            th = y.arctan2(x)
            return {"r": r.v, "theta": Ang(th.v), "phi": Ang(phi.v), "r_dot": r.d, "theta_dot": th.d, "phi_dot": phi.d,
                    "back": [v[k] for k in CART]}
        h = 1e-6
        def sph(t):
            x, y, z = v["x"] + v["vx"] * t, v["y"] + v["vy"] * t, v["z"] + v["vz"] * t
            r = math.sqrt(x * x + y * y + z * z)
            return r, math.atan2(y, x), math.asin(z / r)
        p, m, o = sph(h), sph(-h), sph(0)
        return {"r": o[0], "theta": Ang(o[1]), "phi": Ang(o[2]), "r_dot": (p[0] - m[0]) / (2 * h),
                "theta_dot": (p[1] - m[1]) / (2 * h), "phi_dot": (p[2] - m[2]) / (2 * h), "back": [v[k] for k in CART]}

    return Case("sph/def+back", [(k, "real") for k in CART], run, ref, pre=lambda v: [v["x"] * v["x"] + v["y"] * v["y"] > 0],
                timeout=90, tol=1e-5, abs_tol=1e-6,
                desc="spherical form = (|r|, atan2(y,x), asin(z/r)) and their time derivatives; spherical->cartesian inverts it")


def sph_back_case():
    ins = [("r", "pos"), ("theta", "angle", {"lo": "-pi"}), ("phi", "angle", {"lo": "-pi"}), ("r_dot", "real"),
           ("theta_dot", "real"), ("phi_dot", "real")]

    def run(env, v):
        f = F(env)
        b = body_of(env, 1)
        s = arr(env, [v[k[0]] for k in ins])
        c = f._spherical_to_cartesian(s, b)
        s2 = f._cartesian_to_spherical(c, b)
        return {"r": s2[0], "theta": Ang(s2[1]), "phi": Ang(s2[2]), "r_dot": s2[3], "theta_dot": s2[4], "phi_dot": s2[5]}

    def ref(env, v, out):
        return {"r": v["r"], "theta": Ang(v["theta"]), "phi": Ang(v["phi"]), "r_dot": v["r_dot"],
                "theta_dot": v["theta_dot"], "phi_dot": v["phi_dot"]}

    def pre(v):
        c, s = CTX.atom("phi")
        return [c.n > 0]      # |phi| < pi/2 : latitude range of the form
    return Case("sph/roundtrip", ins, run, ref, pre=pre, timeout=90, tol=1e-6, abs_tol=1e-7,
                desc="spherical -> cartesian -> spherical is the identity (latitude in (-pi/2, pi/2))")


def cyl_case():
    def run(env, v):
        f = F(env)
        b = body_of(env, 1)
        c = arr(env, [v[k] for k in CART])
        s = f._cartesian_to_cylindrical(c, b)
        back = f._cylindrical_to_cartesian(s, b)
        return {"r": s[0], "theta": Ang(s[1]), "z": s[2], "r_dot": s[3], "theta_dot": s[4], "vz": s[5], "back": list(back)}

    def ref(env, v, out):
        if env.symbolic:
            x, y = Dual(v["x"], v["vx"]), Dual(v["y"], v["vy"])
            r = (x * x + y * y).sqrt()
            th = y.arctan2(x)
            return {"r": r.v, "theta": Ang(th.v), "z": v["z"], "r_dot": r.d, "theta_dot": th.d, "vz": v["vz"],
                    "back": [v[k] for k in CART]}
        h = 1e-6
        def cyl(t):
            x, y = v["x"] + v["vx"] * t, v["y"] + v["vy"] * t
            return math.hypot(x, y), math.atan2(y, x)
        p, m, o = cyl(h), cyl(-h), cyl(0)
        return {"r": o[0], "theta": Ang(o[1]), "z": v["z"], "r_dot": (p[0] - m[0]) / (2 * h),
                "theta_dot": (p[1] - m[1]) / (2 * h), "vz": v["vz"], "back": [v[k] for k in CART]}

    return Case("cyl/def+back", [(k, "real") for k in CART], run, ref, pre=lambda v: [v["x"] * v["x"] + v["y"] * v["y"] > 0],
                timeout=90, tol=1e-5, abs_tol=1e-6,
                desc="cylindrical form = (rho, atan2(y,x), z) and time derivatives; cylindrical->cartesian inverts it")


def cyl_back_case():
    ins = [("r", "pos"), ("theta", "angle", {"lo": "-pi"}), ("z", "real"), ("r_dot", "real"), ("theta_dot", "real"), ("vz", "real")]

    def run(env, v):
        f = F(env)
        b = body_of(env, 1)
        c = f._cylindrical_to_cartesian(arr(env, [v[k[0]] for k in ins]), b)
        s2 = f._cartesian_to_cylindrical(c, b)
        return {"r": s2[0], "theta": Ang(s2[1]), "z": s2[2], "r_dot": s2[3], "theta_dot": s2[4], "vz": s2[5]}

    def ref(env, v, out):
        return {"r": v["r"], "theta": Ang(v["theta"]), "z": v["z"], "r_dot": v["r_dot"], "theta_dot": v["theta_dot"], "vz": v["vz"]}
    return Case("cyl/roundtrip", ins, run, ref, timeout=90, desc="cylindrical -> cartesian -> cylindrical is the identity")


# =========================================================================== keplerian family
def kep_inputs(family, last="nu"):
    ins = [("mu", "pos"), ("a", "real"), ("e", "pos"), ("i", "angle", {"lo": "0"}), ("Om", "angle", {"lo": "0"}),
           ("om", "angle", {"lo": "0"})]
    if last == "H":
        ins.append(("H", "hyp"))
    elif last is not None:
        ins.append((last, "angle", {"lo": "0"}))
    return ins


def kep_pre(family, conic=True):
    def pre(v):
        ci, si = CTX.atom("i")
        p = [si.n > 0]
        if family == "ell":
            p += [v["a"] > 0, v["e"] < 1]
        else:
            p += [v["a"] < 0, v["e"] > 1]
        if conic and "nu" in v:
            cn, sn = CTX.atom("nu")
            p += [(1 + v["e"] * cn) > 0]      # the point is on the conic (open branch for hyperbolas)
        return p
    return pre


def kvec(env, v, last):
    return arr(env, [v["a"], v["e"], v["i"], v["Om"], v["om"], v[last]])


def ecc_case(family):
    """keplerian <-> eccentric: geometric definition  a(cosE - e) = r cos nu,  a sqrt(1-e^2) sinE = r sin nu  (elliptic)
    a(e - coshH) = r cos nu (a<0: |a|(coshH - e)),  |a| sqrt(e^2-1) sinhH = r sin nu (hyperbolic); and the way back"""
    def run(env, v):
        f = F(env)
        b = body_of(env, v["mu"])
        ke = f._keplerian_to_keplerian_eccentric(kvec(env, v, "nu"), b)
        back = f._keplerian_eccentric_to_keplerian(ke, b)
        E = ke[5]
        a, e = v["a"], v["e"]
        if family == "ell":
            xp = a * (env.cos(E) - e)
            yp = a * env.sqrt(1 - e * e) * env.sin(E)
        else:
            ch, sh = (E.cosh(), E.sinh()) if env.symbolic else (math.cosh(E), math.sinh(E))
            xp = a * (ch - e)
            yp = -a * env.sqrt(e * e - 1) * sh
        return {"same": list(ke[:5]), "xp": xp, "yp": yp, "back5": list(back[:5]), "back_nu": Ang(back[5])}

    def ref(env, v, out):
        a, e = v["a"], v["e"]
        r = a * (1 - e * e) / (1 + e * env.cos(v["nu"]))
        return {"same": [v["a"], v["e"], v["i"], v["Om"], v["om"]], "xp": r * env.cos(v["nu"]), "yp": r * env.sin(v["nu"]),
                "back5": [v["a"], v["e"], v["i"], v["Om"], v["om"]], "back_nu": Ang(v["nu"])}

    return Case(f"ecc/{family}", kep_inputs(family), run, ref, pre=kep_pre(family), timeout=90, tol=1e-6, abs_tol=1e-7,
                desc=f"{family}: eccentric/hyperbolic anomaly satisfies its geometric definition in the perifocal plane, the first five "
                     "elements are untouched, and eccentric -> keplerian restores nu")


def ecc_back_case(family):
    last = "E" if family == "ell" else "H"

    def run(env, v):
        f = F(env)
        b = body_of(env, v["mu"])
        k = f._keplerian_eccentric_to_keplerian(kvec(env, v, last), b)
        ke = f._keplerian_to_keplerian_eccentric(k, b)
        if family == "ell":
            return {"five": list(ke[:5]), "E": Ang(ke[5])}
        E = ke[5]
        sh = E.sinh() if env.symbolic else math.sinh(E)
        return {"five": list(ke[:5]), "sinhH": sh}

    def ref(env, v, out):
        five = [v["a"], v["e"], v["i"], v["Om"], v["om"]]
        if family == "ell":
            return {"five": five, "E": Ang(v["E"])}
        return {"five": five, "sinhH": v["H"].sinh() if env.symbolic else math.sinh(v["H"])}

    return Case(f"ecc_back/{family}", kep_inputs(family, last), run, ref, pre=kep_pre(family, conic=False), timeout=90,
                tol=1e-6, abs_tol=1e-7, desc=f"{family}: eccentric -> keplerian -> eccentric is the identity")


def mean_case(family):
    """eccentric -> mean is Kepler's equation"""
    last = "E" if family == "ell" else "H"

    def run(env, v):
        f = F(env)
        b = body_of(env, v["mu"])
        km = f._keplerian_eccentric_to_keplerian_mean(kvec(env, v, last), b)
        return {"five": list(km[:5]), "M": km[5]}

    def ref(env, v, out):
        five = [v["a"], v["e"], v["i"], v["Om"], v["om"]]
        if family == "ell":
            return {"five": five, "M": v["E"] - v["e"] * env.sin(v["E"])}
        sh = v["H"].sinh() if env.symbolic else math.sinh(v["H"])
        return {"five": five, "M": v["e"] * sh - v["H"]}

    return Case(f"mean/{family}", kep_inputs(family, last), run, ref, pre=kep_pre(family, conic=False),
                desc=f"{family}: M = E - e sin E  (resp. e sinh H - H), other elements untouched")


def mean_back_case(family):
    """mean -> eccentric: the edge hands the mean anomaly to M2E and stores what M2E returns, untouched, next to the five other
    elements (M2E itself: M2E/* cases).  Symbolically M2E is replaced by an arbitrary real E*; concretely the real edge runs and
    its result must satisfy Kepler's equation for the given M (any number of revolutions / negative hyperbolic anomaly)."""
    ins = [("mu", "pos"), ("a", "real"), ("e", "pos"), ("i", "angle", {"lo": "0"}), ("Om", "angle", {"lo": "0"}),
           ("om", "angle", {"lo": "0"}), ("M", "real"), ("Estar", "angle", {"lo": "free"}) if family == "ell" else ("Estar", "real")]
    # elliptic: the eccentric anomaly is an angle (compared modulo a turn); hyperbolic: a real number (compared exactly)

    def pre(v):
        return [v["a"] > 0, v["e"] < 1] if family == "ell" else [v["a"] < 0, v["e"] > 1]

    def run(env, v):
        f = F(env)
        b = body_of(env, v["mu"])
        if env.symbolic:
            asked = []
            saved = f.M2E
            f.M2E = classmethod(lambda cls, e, M: (asked.append((e, M)), v["Estar"])[1])
            try:
                ke = f._keplerian_mean_to_keplerian_eccentric(kvec(env, v, "M"), b)
            finally:
                f.M2E = saved
            ok = len(asked) == 1 and (R.lift(asked[0][0]) - v["e"]).coef == 0 and (R.lift(asked[0][1]) - v["M"]).coef == 0
            return {"five": list(ke[:5]), "anomaly": Ang(ke[5]) if family == "ell" else ke[5],
                    "asked": Holds(SB(__import__("z3").BoolVal(bool(ok))))}
        e = min(float(v["e"]), 0.95) if family == "ell" else max(float(v["e"]), 1.05)
        a = abs(float(v["a"])) * 7e6 * (1 if family == "ell" else -1)
        M = float(v["Estar"]) * 3 + float(v["M"])            # a mean anomaly of either sign, possibly several revolutions away
        ke = f._keplerian_mean_to_keplerian_eccentric(np.array([a, e, v["i"], v["Om"], v["om"], M], dtype=float), b)
        E = float(ke[5])
        if family == "ell":
            res = (E - e * math.sin(E) - M + math.pi) % (2 * math.pi) - math.pi          # modulo whole revolutions
            return {"five": [0] * 5, "anomaly": Ang(res), "asked": Holds(True)}
        res = e * math.sinh(E) - E - M
        return {"five": [0] * 5, "anomaly": res / (1 + abs(M)), "asked": Holds(True)}

    def ref(env, v, out):
        if not env.symbolic:
            return {"five": [0] * 5, "anomaly": Ang(0.0) if family == "ell" else 0, "asked": None}
        return {"five": [v["a"], v["e"], v["i"], v["Om"], v["om"]], "anomaly": Ang(v["Estar"]) if family == "ell" else v["Estar"],
                "asked": None}
    return Case(f"mean_back/{family}", ins, run, ref, pre=pre, tol=0, abs_tol=1e-6,
                extra_points=[{"M": -3.0, "Estar": -1.0}, {"M": 40.0, "Estar": 3.0}, {"M": -0.5, "Estar": 0.0}],
                desc=f"{family}: mean -> eccentric returns M2E(e, M) unchanged with the other five elements; concretely the returned "
                     "anomaly satisfies Kepler's equation for the given M")


def tle_case():
    ins = [("mu", "pos"), ("a", "pos"), ("e", "pos"), ("i", "angle", {"lo": "0"}), ("Om", "angle", {"lo": "0"}),
           ("om", "angle", {"lo": "0"}), ("M", "angle", {"lo": "0"})]

    def run(env, v):
        f = F(env)
        b = body_of(env, v["mu"])
        t = f._keplerian_mean_to_tle(kvec(env, v, "M"), b)
        back = f._tle_to_keplerian_mean(t, b)
        return {"tle": [t[0], t[1], t[2], t[3], t[4]], "n2a3": t[5] * t[5] * v["a"] ** 3, "npos": abs(t[5]) - t[5],
                "back": list(back)}

    def ref(env, v, out):
        return {"tle": [v["i"], v["Om"], v["e"], v["om"], v["M"]], "n2a3": v["mu"], "npos": 0,
                "back": [v["a"], v["e"], v["i"], v["Om"], v["om"], v["M"]]}
    return Case("tle", ins, run, ref, timeout=90, tol=1e-6,
                desc="mean <-> TLE: element order (i, Omega, e, omega, M, n), n^2 a^3 = mu, and the way back")


def tle_back_case():
    ins = [("mu", "pos"), ("n", "pos"), ("e", "pos"), ("i", "angle", {"lo": "0"}), ("Om", "angle", {"lo": "0"}),
           ("om", "angle", {"lo": "0"}), ("M", "angle", {"lo": "0"})]

    def run(env, v):
        f = F(env)
        b = body_of(env, v["mu"])
        k = f._tle_to_keplerian_mean(arr(env, [v["i"], v["Om"], v["e"], v["om"], v["M"], v["n"]]), b)
        t = f._keplerian_mean_to_tle(k, b)
        return {"a3n2": k[0] ** 3 * v["n"] ** 2, "back": list(t)}

    def ref(env, v, out):
        return {"a3n2": v["mu"], "back": [v["i"], v["Om"], v["e"], v["om"], v["M"], v["n"]]}
    return Case("tle/back", ins, run, ref, timeout=90, tol=1e-6, desc="TLE -> mean -> TLE is the identity; a^3 n^2 = mu")


def circ_case(mean):
    last = "M" if mean else "nu"
    fwd = "_keplerian_mean_to_keplerian_mean_circular" if mean else "_keplerian_to_keplerian_circular"
    bwd = "_keplerian_mean_circular_to_keplerian_mean" if mean else "_keplerian_circular_to_keplerian"

    def run(env, v):
        f = F(env)
        b = body_of(env, v["mu"])
        c = getattr(f, fwd)(kvec(env, v, last), b)
        k = getattr(f, bwd)(c, b)
        return {"a": c[0], "ex": c[1], "ey": c[2], "i": c[3], "Om": c[4], "u": Ang(c[5]),
                "back": [k[0], k[1], k[2], k[3]], "back_om": Ang(k[4]), "back_last": Ang(k[5])}

    def ref(env, v, out):
        return {"a": v["a"], "ex": v["e"] * env.cos(v["om"]), "ey": v["e"] * env.sin(v["om"]), "i": v["i"], "Om": v["Om"],
                "u": Ang(v["om"] + v[last]), "back": [v["a"], v["e"], v["i"], v["Om"]], "back_om": Ang(v["om"]),
                "back_last": Ang(v[last])}
    return Case(f"circ/{'mean' if mean else 'true'}", kep_inputs("ell", last), run, ref, pre=kep_pre("ell", conic=False),
                timeout=90, desc="circular form: (a, e cos w, e sin w, i, Omega, w + anomaly) and the way back")


def equi_case():
    def run(env, v):
        f = F(env)
        b = body_of(env, v["mu"])
        q = f._keplerian_to_equinoctial(kvec(env, v, "nu"), b)
        k = f._equinoctial_to_keplerian(q, b)
        # inclination vector through the full-angle identity tan(i/2) = sin i / (1 + cos i)
        return {"a": q[0], "ex": q[1], "ey": q[2], "ix": q[3], "iy": q[4], "l": Ang(q[5]),
                "back": [k[0], k[1]], "back_i": Ang(k[2]), "back_Om": Ang(k[3]), "back_om": Ang(k[4]), "back_nu": Ang(k[5])}

    def ref(env, v, out):
        t = env.sin(v["i"]) / (1 + env.cos(v["i"]))
        return {"a": v["a"], "ex": v["e"] * env.cos(v["Om"] + v["om"]), "ey": v["e"] * env.sin(v["Om"] + v["om"]),
                "ix": t * env.cos(v["Om"]), "iy": t * env.sin(v["Om"]), "l": Ang(v["Om"] + v["om"] + v["nu"]),
                "back": [v["a"], v["e"]], "back_i": Ang(v["i"]), "back_Om": Ang(v["Om"]), "back_om": Ang(v["om"]),
                "back_nu": Ang(v["nu"])}
    return Case("equinoctial", kep_inputs("ell"), run, ref, pre=kep_pre("ell", conic=False), timeout=120,
                desc="equinoctial = (a, e cos(W+w), e sin(W+w), tan(i/2) cos W, tan(i/2) sin W, W+w+nu) and the way back")


# ---- keplerian -> cartesian against the perifocal reference
def perifocal(env, v, mu, a, e, i, Om, om, nu):
    """textbook: r = R3(-Om) R1(-i) R3(-om) r_pf ; r_pf = r (cos nu, sin nu, 0); v_pf = sqrt(mu/p) (-sin nu, e + cos nu, 0)"""
    c, s = env.cos, env.sin
    p = a * (1 - e * e)
    r = p / (1 + e * c(nu))
    k = env.sqrt(mu / p)
    rpf = [r * c(nu), r * s(nu), 0]
    vpf = [-k * s(nu), k * (e + c(nu)), 0]

    def rot(x):
        # R3(-om)
        x = [c(om) * x[0] - s(om) * x[1], s(om) * x[0] + c(om) * x[1], x[2]]
        # R1(-i)
        x = [x[0], c(i) * x[1] - s(i) * x[2], s(i) * x[1] + c(i) * x[2]]
        # R3(-Om)
        return [c(Om) * x[0] - s(Om) * x[1], s(Om) * x[0] + c(Om) * x[1], x[2]]
    return rot(rpf) + rot(vpf)


def k2c_case(family):
    def run(env, v):
        f = F(env)
        b = body_of(env, v["mu"])
        c = f._keplerian_to_cartesian(kvec(env, v, "nu"), b)
        return {"c": list(c)}

    def ref(env, v, out):
        return {"c": perifocal(env, v, v["mu"], v["a"], v["e"], v["i"], v["Om"], v["om"], v["nu"])}
    return Case(f"k2c/{family}", kep_inputs(family), run, ref, pre=kep_pre(family), timeout=120,
                desc=f"{family}: keplerian -> cartesian equals the perifocal-rotation reference R3(-W) R1(-i) R3(-w)")


def c2k_def_case(family):
    """cartesian -> keplerian against the textbook definitions, from *free* cartesian variables (cheap components)"""
    def run(env, v):
        f = F(env)
        b = body_of(env, v["mu"])
        k = f._cartesian_to_keplerian(arr(env, [v[x] for x in CART]), b)
        a, e = k[0], k[1]
        return {"inv_a": 1 / a, "e2": e * e, "cos_i": env.cos(k[2]), "node_x": env.cos(k[3]), "node_y": env.sin(k[3])}

    def ref(env, v, out):
        mu = v["mu"]
        r = [v["x"], v["y"], v["z"]]
        vel = [v["vx"], v["vy"], v["vz"]]
        rn = env.sqrt(r[0] * r[0] + r[1] * r[1] + r[2] * r[2])
        v2 = vel[0] * vel[0] + vel[1] * vel[1] + vel[2] * vel[2]
        h = [r[1] * vel[2] - r[2] * vel[1], r[2] * vel[0] - r[0] * vel[2], r[0] * vel[1] - r[1] * vel[0]]
        hn = env.sqrt(h[0] * h[0] + h[1] * h[1] + h[2] * h[2])
        rv = r[0] * vel[0] + r[1] * vel[1] + r[2] * vel[2]
        ev = [((v2 - mu / rn) * r[k] - rv * vel[k]) / mu for k in range(3)]      # eccentricity vector
        # node vector k x h = (-hy, hx, 0)
        nn = env.sqrt(h[0] * h[0] + h[1] * h[1])
        return {"inv_a": 2 / rn - v2 / mu, "e2": ev[0] * ev[0] + ev[1] * ev[1] + ev[2] * ev[2], "cos_i": h[2] / hn,
                "node_x": -h[1] / nn, "node_y": h[0] / nn}

    def pre(v):
        r = [v["x"], v["y"], v["z"]]
        vel = [v["vx"], v["vy"], v["vz"]]
        h = [r[1] * vel[2] - r[2] * vel[1], r[2] * vel[0] - r[0] * vel[2], r[0] * vel[1] - r[1] * vel[0]]
        return [h[0] * h[0] + h[1] * h[1] > 0]
    return Case(f"c2k_def/{family}", [("mu", "pos")] + [(k, "real") for k in CART], run, ref, pre=pre, timeout=120,
                desc="cartesian -> keplerian: 1/a = 2/r - v^2/mu, e = |eccentricity vector|, cos i = hz/|h|, node direction = k x h")


def all_cases(tier):
    cs = [sph_def_case(), sph_back_case(), cyl_case(), cyl_back_case()]
    for fam in ("ell", "hyp"):
        cs += [ecc_case(fam), ecc_back_case(fam), mean_case(fam), k2c_case(fam)]
    cs += [tle_case(), tle_back_case(), circ_case(False), circ_case(True), equi_case(), c2k_def_case("any")]
    return cs


def groups(tier):
    return {c.name.replace("/", "_"): (lambda c=c: run_cases([c])) for c in all_cases(tier)}


def replay(ob, model):
    return replay_cases(all_cases("thorough"), ob, model)


# =========================================================================== keplerian -> cartesian -> keplerian
def kck_case(family, timeout=120):
    """the code's cartesian->keplerian is a left inverse of the (reference-checked) keplerian->cartesian: together with k2c/<family>
    this shows that it returns the elements of the textbook parametrisation"""
    def run(env, v):
        f = F(env)
        b = body_of(env, v["mu"])
        c = f._keplerian_to_cartesian(kvec(env, v, "nu"), b)
        k = f._cartesian_to_keplerian(c, b)
        return {"a": k[0], "e": k[1], "i": Ang(k[2]), "Om": Ang(k[3]), "om": Ang(k[4]), "nu": Ang(k[5])}

    def ref(env, v, out):
        return {"a": v["a"], "e": v["e"], "i": Ang(v["i"]), "Om": Ang(v["Om"]), "om": Ang(v["om"]), "nu": Ang(v["nu"])}

    def hints(v):
        mu, a, e = v["mu"], v["a"], v["e"]
        ci, si = CTX.atom("i")
        cn, sn = CTX.atom("nu")
        p = a * (1 - e * e)
        H = (mu * p).sqrt()
        rk = p / (1 + e * cn)
        return [rk, e, H * si, H / mu, e * rk, rk * si, si, H]
    return Case(f"kck/{family}", kep_inputs(family), run, ref, pre=kep_pre(family), timeout=timeout, hints=hints,
                tol=1e-6, abs_tol=1e-6,
                desc=f"{family}: keplerian -> cartesian -> keplerian is the identity (proved closed forms for |h|, |r|, ... as hints)")


# =========================================================================== M2E: whatever is returned solves Kepler's equation
TOL = 1e-8


LEMMAS = {}


def m2e_case(family, maxdepth, timeout=120):
    """Executes the real Form.M2E symbolically up to `maxdepth` decisions (start-branch choice + loop exits after 0, 1, ...
    further Newton steps).  On every path that returns, the exit test |E1-E| < tol holds; with the Lipschitz lemma for
    sin (resp. the convexity lemma for sinh) the Kepler residual of the returned value is <= 2 e tol (resp. 2 e tol cosh)."""
    ins = [("e", "pos"), ("M", "real")]
    rec = {}

    def pre(v):
        # elliptic: mean anomaly on the central revolution (other revolutions: M2E/ell/side/<k>, the code itself reduces M)
        return [v["e"] < 1, v["M"] >= -PI, v["M"] < PI] if family == "ell" else [v["e"] > 1]

    def run(env, v):
        forms = env.mod("beyond.orbits.forms")
        if env.symbolic:
            calls = {"sin": [], "cos": [], "sinh": [], "cosh": []}

            def hook(name):
                def f(x):
                    r = getattr(x, name)()
                    calls[name].append((x, r))
                    return r
                return f
            saved = {k: getattr(forms, k) for k in calls}
            for k in calls:
                setattr(forms, k, hook(k))
            steps = []

            def _abs(x):
                steps.append(x)
                return abs(x)
            forms.abs = _abs
            try:
                E1 = forms.Form.M2E(v["e"], v["M"])
            finally:
                del forms.abs
                for k, f in saved.items():
                    setattr(forms, k, f)
            xstep = steps[-1]                     # the code's own E1 - E in its last exit test
            if family == "ell":
                E0, s0 = calls["sin"][-1]             # the iterate of the last Newton step and the code's own sin(E0)
                d = E1 - E0
                s1 = E1.sin()
                res = v["M"] - E1 + v["e"] * s1
                bound = 2 * v["e"] * TOL
                c0 = calls["cos"][-1][1]
                alt = v["e"] * (s1 - s0) - v["e"] * c0 * d      # residual rewritten through the Newton step
                rec["alt"] = alt
                rec["d"] = d
                rec["lemma"] = [(s1 - s0) * (s1 - s0) <= d * d]
            else:
                E0, sh0 = calls["sinh"][-1]
                ch0 = calls["cosh"][-1][1]
                d = E1 - E0
                sh1, ch1 = E1.sinh(), E1.cosh()
                res = v["M"] - v["e"] * sh1 + E1
                mx = ch1 + ch0                      # >= max(ch0, ch1), avoids a fork
                bound = 2 * v["e"] * TOL * mx
                alt = v["e"] * ch0 * d - v["e"] * (sh1 - sh0)
                rec["alt"] = alt
                rec["d"] = d
                rec["lemma"] = [(sh1 - sh0) * (sh1 - sh0) <= mx * mx * d * d]
            # abstract bound lemma over fresh variables (u = s1-s0 resp. sh1-sh0, c = cos E0 resp. cosh terms, dd = E1-E0)
            import z3
            from symx.core import SB
            le, lu, lc, ld, lm = [z3.Real("lem_" + k) for k in "e u c d m".split()]
            t = z3.RealVal(TOL)
            if family == "ell":
                lemma = z3.Implies(z3.And(le > 0, lu * lu <= ld * ld, lc * lc <= 1, ld * ld < t * t),
                                   (le * lu - le * lc * ld) * (le * lu - le * lc * ld) <= 4 * le * le * t * t)
            else:   # lc = cosh E0 in [1, lm], lm = ch0 + ch1, |u| <= lm |d|
                lemma = z3.Implies(z3.And(le > 0, lc >= 1, lc <= lm, lu * lu <= lm * lm * ld * ld, ld * ld < t * t),
                                   (le * lc * ld - le * lu) * (le * lc * ld - le * lu) <= 4 * le * le * t * t * lm * lm)
            LEMMAS[family] = lemma          # path-independent: discharged once, by the M2E_lemma group
            return {"residual_identity": res, "step": xstep, "exit_step_small": Holds((xstep < TOL) & (xstep > -TOL))}
        import signal

        def _to(*a):
            raise TimeoutError("M2E did not terminate within 5 s")
        signal.signal(signal.SIGALRM, _to)
        signal.alarm(5)
        try:
            E1 = forms.Form.M2E(v["e"], v["M"])
        except TimeoutError:
            return {"residual_identity": 0, "step": 0, "exit_step_small": Holds(False)}
        finally:
            signal.alarm(0)
        if family == "ell":
            res = v["M"] - E1 + v["e"] * math.sin(E1)
            return {"residual_identity": 0, "step": 0, "exit_step_small": Holds(abs(res) <= 2 * v["e"] * TOL + 1e-12 * (1 + abs(v["M"])))}
        res = v["M"] - v["e"] * math.sinh(E1) + E1
        return {"residual_identity": 0, "step": 0, "exit_step_small": Holds(abs(res) <= 2 * v["e"] * TOL * math.cosh(E1) + 1e-12 * (1 + abs(v["M"])))}

    def ref(env, v, out):
        return {"residual_identity": rec.get("alt", 0), "step": rec.get("d", 0), "exit_step_small": None}

    def lem(v, out):
        return rec.get("lemma", [])
    return Case(f"M2E/{family}", ins, run, ref, pre=pre, timeout=timeout, maxdepth=maxdepth, maxpaths=400, tol=0, abs_tol=0.5,
                extra_assumptions=lem,
                desc=f"{family}: on every return path of M2E (start branch x exits after <= k Newton steps, unwinding bound "
                     f"{maxdepth} decisions) the returned anomaly solves Kepler's equation to 2 e tol")


class _Stop(Exception):
    pass


def m2e_lemma_group(family):
    """the abstract bound lemma of the M2E exit argument (over fresh reals, independent of any path): with the Lipschitz /
    convexity bound on sin / sinh and an exit step below tol, the Kepler residual rewritten through the last Newton step is
    at most 2 e tol (times the cosh bound for the hyperbola)"""
    import z3
    from symx import solve
    le, lu, lc, ld, lm = [z3.Real("lem_" + k) for k in "e u c d m".split()]
    t = z3.RealVal(TOL)
    if family == "ell":
        lemma = z3.Implies(z3.And(le > 0, lu * lu <= ld * ld, lc * lc <= 1, ld * ld < t * t),
                           (le * lu - le * lc * ld) * (le * lu - le * lc * ld) <= 4 * le * le * t * t)
    else:
        lemma = z3.Implies(z3.And(le > 0, lc >= 1, lc <= lm, lu * lu <= lm * lm * ld * ld, ld * ld < t * t),
                           (le * lc * ld - le * lu) * (le * lc * ld - le * lu) <= 4 * le * le * t * t * lm * lm)
    s = z3.Solver()
    s.add(z3.Not(lemma))
    ob = dict(name=f"M2E/{family}/bound_lemma", smt2=s.sexpr(), trivial=False, expect="unsat", vars=[], timeout=300, solver="z3",
              desc=f"{family}: abstract bound lemma of the M2E exit argument", replay={"case": "lemma"}, n_constraints=1, tags=["lemma"])
    tw = z3.Solver()
    tw.add(le > 0, ld * ld < t * t)
    twin = dict(name=f"M2E/{family}/bound_lemma/twin", smt2=tw.sexpr(), trivial=False, expect="sat", vars=[], timeout=30, solver="z3",
                desc="twin", replay=None, n_constraints=1, tags=["twin"])
    return [ob, twin], {"paths": 1}


def m2e_start_case(family):
    """The Newton start value chosen by the real M2E (observed as the argument of its first sin/sinh call) is
    representable: |start| <= 700, the range where binary64 sinh/cosh are finite, for every e in the family's range and
    |M| <= 1e6.  A start value outside that range makes the first iterate inf/nan and M2E returns nan silently."""
    ins = [("e", "pos"), ("M", "real")]

    def pre(v):
        dom = [v["M"] <= 1000000, v["M"] >= -1000000]
        if family == "ell":
            return [v["e"] < 1, v["M"] >= -PI, v["M"] < PI]
        return dom + [v["e"] > R.const(1.001), v["e"] <= 20]

    def env_const(x):
        from symx.core import R
        return R.const(x)

    def run(env, v):
        forms = env.mod("beyond.orbits.forms") if env.symbolic else importlib.import_module("beyond.orbits.forms")
        name = "sin" if family == "ell" else "sinh"
        first = []
        saved = getattr(forms, name)

        def hook(x):
            first.append(x)
            raise _Stop()
        setattr(forms, name, hook)
        try:
            forms.Form.M2E(v["e"], v["M"])
        except _Stop:
            pass
        finally:
            setattr(forms, name, saved)
        x0 = first[0]
        if env.symbolic:
            if family == "ell":        # sin/cos never overflow: the start value stays within e < 1 of M
                d0 = x0 - v["M"]
                return {"start_finite": Holds((d0 <= 1) & (d0 >= -1))}
            return {"start_finite": Holds((x0 <= 700) & (x0 >= -700))}
        import signal

        def _to(*a):
            raise TimeoutError("M2E did not terminate within 5 s")
        signal.signal(signal.SIGALRM, _to)
        signal.alarm(5)
        try:
            with np.errstate(all="ignore"):
                out = forms.Form.M2E(v["e"], v["M"])
            ok = math.isfinite(out)
        except (TimeoutError, OverflowError):
            ok = False
        finally:
            signal.alarm(0)
        return {"start_finite": Holds((abs(x0 - v["M"]) <= 1 if family == "ell" else abs(x0) <= 700) and ok)}

    def ref(env, v, out):
        return {"start_finite": None}
    return Case(f"M2E/{family}/start", ins, run, ref, pre=pre, timeout=60, maxpaths=64,
                desc=f"{family}: the Newton start value of M2E stays within +-700 (binary64 sinh/cosh finite) for |M| <= 1e6; "
                     "concretely the returned anomaly is finite")

def m2e_side_case(k):
    """elliptic M2E for a mean anomaly k revolutions away from zero (M = m0 + 2 pi k, m0 in (-pi, pi], k fixed per case): the Newton start value
    lies on the side of M where the iteration is monotone, start - M = e sgn(sin M) modulo whole turns (the classical sufficient
    condition for convergence; from the other side the iteration can enter a cycle and never return).  Replays run the real
    M2E under a 5 s alarm, also on a panel of mean anomalies several revolutions away from zero."""
    ins = [("e", "pos"), ("m0", "angle", {"lo": "-pi"})]

    def pre(v):
        return [v["e"] < 1]

    def run(env, v):
        forms = env.mod("beyond.orbits.forms") if env.symbolic else importlib.import_module("beyond.orbits.forms")
        M = v["m0"] + 2 * env.pi * k
        if env.symbolic:
            first = []
            saved = forms.sin

            def hook(x):
                first.append(x)
                raise _Stop()
            forms.sin = hook
            try:
                forms.Form.M2E(v["e"], M)
            except _Stop:
                pass
            finally:
                forms.sin = saved
            import z3
            from symx import core
            d = (R.lift(first[0]) - M).term()
            s0 = v["m0"].sin().term()
            q = z3.Int("turns")
            r = d - 2 * core.PI_T * z3.ToReal(q)
            cond = z3.ForAll([q], z3.Implies(z3.And(r > -core.PI_T, r < core.PI_T), r * s0 >= 0))
            return {"start_side": Holds(SB(cond))}
        import signal

        def _to(*a):
            raise TimeoutError()
        signal.signal(signal.SIGALRM, _to)
        signal.alarm(5)
        try:
            with np.errstate(all="ignore"):
                E = forms.Form.M2E(float(v["e"]), float(M))
            ok = math.isfinite(E) and abs(E - float(v["e"]) * math.sin(E) - float(M)) < 1e-6 * (1 + abs(float(M)))
        except TimeoutError:
            ok = False
        finally:
            signal.alarm(0)
        return {"start_side": Holds(ok)}

    def ref(env, v, out):
        return {"start_side": None}
    two_pi = 2 * math.pi
    return Case(f"M2E/ell/side/{k}", ins, run, ref, pre=pre, timeout=60, maxpaths=64,
                signature="M2E/ell/side",
                extra_points=[{"e": 0.9, "m0": -70.6995337803919 + 11 * two_pi}, {"e": 0.9, "m0": 591.515275889481 - 94 * two_pi},
                              {"e": 0.9, "m0": 1.0}, {"e": 0.9, "m0": -2.0}],
                desc="elliptic M2E, mean anomaly of any number of revolutions: the Newton start value is M + e sgn(sin M) modulo "
                     "whole turns (monotone convergence); concretely the real solver returns a root of Kepler's equation within 5 s")


# =========================================================================== Infos
def infos_copy_case():
    """`state.infos` describes the state it is asked of: the real `StateVector.infos` getter (run on the carrier, whose
    `copy()` hands the extra fields over like `StateVector.copy` does -- `v.copy()` where there is one, the same object
    otherwise) after the original has been asked once, its copy been given another semi-major axis, and asked in turn"""
    from symx.stubs import FrameStub, SymTD, Carrier
    ins = [("mu", "pos"), ("a", "pos"), ("a2", "pos"), ("e", "pos"), ("i", "angle"), ("Om", "angle"), ("om", "angle"), ("nu", "angle")]

    def pre(v):
        return [v["e"] < 1]

    def run(env, v):
        if env.symbolic:
            forms = env.mod("beyond.orbits.forms")
            sv = env.mod("beyond.orbits.statevector")
            sv.timedelta = lambda seconds=0: SymTD(seconds)

            class SV(Carrier):
                infos = sv.StateVector.__dict__["infos"]            # the real getter

                def copy(self, **kw):
                    new = Carrier.copy(self, **kw).view(SV)
                    new.__dict__["_data"] = {k: (x.copy() if hasattr(x, "copy") else x) for k, x in self.__dict__.get("_data", {}).items()}
                    return new
            orb = carrier([v["a"], v["e"], v["i"], v["Om"], v["om"], v["nu"]], frame=FrameStub("EME2000", v["mu"], r=0),
                          form=forms.KEPL).view(SV)
            orb.__dict__["_data"] = {}
            n1 = orb.infos.n
            c = orb.copy()
            c[0] = v["a2"]
            n2 = c.infos.n
            return {"copy_n2a3": n2 * n2 * v["a2"] ** 3, "original_n2a3": orb.infos.n * orb.infos.n * v["a"] ** 3, "first_n2a3": n1 * n1 * v["a"] ** 3}
        from beyond.orbits import StateVector
        from beyond.dates import Date
        from beyond.constants import Earth
        a, a2 = float(v["a"]) * 1e7, float(v["a2"]) * 1e7
        orb = StateVector([a, min(float(v["e"]), 0.9), v["i"], v["Om"], v["om"], v["nu"]], Date(2020, 1, 1), "keplerian", "EME2000")
        n1 = orb.infos.n
        c = orb.copy()
        c[0] = a2
        n2 = c.infos.n
        k = float(v["mu"]) / Earth.mu
        return {"copy_n2a3": n2 * n2 * a2 ** 3 * k, "original_n2a3": orb.infos.n ** 2 * a ** 3 * k, "first_n2a3": n1 * n1 * a ** 3 * k}

    def ref(env, v, out):
        return {"copy_n2a3": v["mu"], "original_n2a3": v["mu"], "first_n2a3": v["mu"]}
    return Case("infos/copy", ins, run, ref, pre=pre, timeout=60, tol=1e-9, abs_tol=1e-12,
                desc="the infos of a copy whose semi-major axis has been changed describe the copy (n^2 a^3 = mu with its own a), those "
                     "of the original still describe the original")


def infos_case(family):
    from symx.stubs import FrameStub, SymTD

    def mkorb(env, v):
        if env.symbolic:
            forms = env.mod("beyond.orbits.forms")
            sv = env.mod("beyond.orbits.statevector")
            sv.timedelta = lambda seconds=0: SymTD(seconds)
            orb = carrier([v["a"], v["e"], v["i"], v["Om"], v["om"], v["nu"]], frame=FrameStub("EME2000", v["mu"], r=0),
                          form=forms.KEPL)
            return sv.Infos(orb), v["mu"]
        from beyond.orbits import StateVector
        from beyond.dates import Date
        from beyond.constants import Earth
        orb = StateVector([v["a"], v["e"], v["i"], v["Om"], v["om"], v["nu"]], Date(2020, 1, 1), "keplerian", "EME2000")
        return orb.infos, Earth.mu

    def phys(env, v):
        if env.symbolic:
            return v
        v = dict(v)          # concrete replay: the real central body (Earth) and a physical length scale
        v["a"] = v["a"] * 1e7
        return v

    def run(env, v):
        v = phys(env, v)
        inf, mu = mkorb(env, v)
        a, e = v["a"], v["e"]
        out = {}
        r, sp = inf.r, inf.v
        out["r"] = r
        out["energy"] = inf.energy
        out["n2a3"] = inf.n * inf.n * abs(a) ** 3
        out["rp"] = inf.pericenter
        out["vp_rp"] = inf.vp * inf.rp                       # = h
        out["v2"] = sp * sp
        cf, sf = inf.cos_fpa, inf.sin_fpa
        out["cos_fpa"] = cf
        out["sin_fpa"] = sf
        out["fpa"] = Ang(inf.fpa)
        if family == "ell":
            out["period_n"] = inf.period.total_seconds() * inf.n
            out["ra+rp"] = inf.apocenter + inf.pericenter
            out["va_ra"] = inf.va * inf.ra
        else:
            out["vinf2"] = inf.vinf * inf.vinf
            out["dinf"] = inf.dinf
        return out

    def ref(env, v, out):
        v = phys(env, v)
        mu = v["mu"] if env.symbolic else __import__("beyond.constants", fromlist=["Earth"]).Earth.mu
        a, e, nu = v["a"], v["e"], v["nu"]
        p = a * (1 - e * e)
        r = p / (1 + e * env.cos(nu))
        h = env.sqrt(mu * p)
        c = perifocal(env, v, mu, a, e, v["i"], v["Om"], v["om"], nu)
        v2 = c[3] * c[3] + c[4] * c[4] + c[5] * c[5]                  # speed from the cartesian state
        rv = c[0] * c[3] + c[1] * c[4] + c[2] * c[5]
        sp = env.sqrt(v2)
        ref = {"r": r, "energy": v2 / 2 - mu / r, "n2a3": mu, "rp": a * (1 - e), "vp_rp": h, "v2": v2,
               "cos_fpa": h / (r * sp), "sin_fpa": rv / (r * sp),
               "fpa": Ang(env.arctan2(e * env.sin(nu), 1 + e * env.cos(nu)))}
        if family == "ell":
            ref.update({"period_n": 2 * env.pi, "ra+rp": 2 * a, "va_ra": h})
        else:
            ref.update({"vinf2": -mu / a, "dinf": -a * env.sqrt(e * e - 1)})
        return ref

    def hints(v):
        mu, a, e = v["mu"], v["a"], v["e"]
        cn, sn = CTX.atom("nu")
        p = a * (1 - e * e)
        return [p / (1 + e * cn), (mu * p).sqrt()]
    return Case(f"infos/{family}", kep_inputs(family), run, ref, pre=kep_pre(family), timeout=60, hints=hints, tol=1e-6,
                abs_tol=1e-6, signature=f"Infos relations ({family})",
                desc=f"{family}: Infos.r/energy/n/period/apsides/v/va/vp/vinf/dinf/fpa obey their defining relations "
                     "(vis-viva from the cartesian speed, angular momentum at the apsides, tan(fpa) = e sin nu/(1+e cos nu))")


# =========================================================================== routing over the real form graph
def routing_group():
    """every ordered pair of the 10 forms: Form.steps() follows existing `_a_to_b` functions (finite: 100 pairs, enumerated)"""
    import importlib
    forms = importlib.import_module("beyond.orbits.forms")
    from symx import solve
    import z3
    names = sorted({f.name for f in forms._cache.values()})
    obs = []
    bad = []
    for a in names:
        for b in names:
            if a == b:
                continue
            steps = list(forms._cache[a].steps(b))
            ok = steps[0][0].name == a and steps[-1][1].name == b and all(
                hasattr(forms.Form, f"_{x.name.lower()}_to_{y.name.lower()}") for x, y in steps) and all(
                steps[k][1] is steps[k + 1][0] for k in range(len(steps) - 1)) and len({x.name for x, _ in steps}) == len(steps)
            if not ok:
                bad.append((a, b))
    s = z3.Solver()
    flag = z3.Bool("routing_broken")
    s.add(flag == z3.BoolVal(bool(bad)))
    s.add(flag)
    obs.append(dict(name="routing/100pairs", smt2=s.sexpr(), trivial=False, expect="unsat", vars=["routing_broken"],
                    desc=f"all {len(names) * (len(names) - 1)} ordered pairs of forms route through existing edge functions "
                         f"without repetition (enumerated concretely; the solver only checks the recorded flag): bad={bad}",
                    replay={"case": "routing"}, timeout=10, solver="z3", tags=["enumerated"], n_constraints=2))
    return obs, {"paths": len(names) * (len(names) - 1)}


def all_cases(tier):          # noqa: F811  (extends the list defined above)
    cs = [sph_def_case(), sph_back_case(), cyl_case(), cyl_back_case()]
    for fam in ("ell", "hyp"):
        cs += [ecc_case(fam), ecc_back_case(fam), mean_case(fam), mean_back_case(fam), k2c_case(fam), kck_case(fam, 30 if tier == "quick" else 600),
               m2e_case(fam, 8 if tier == "quick" else 9, 120 if tier == "quick" else 300), m2e_start_case(fam), infos_case(fam)]
    cs += [tle_case(), tle_back_case(), circ_case(False), circ_case(True), equi_case(), c2k_def_case("any"), infos_copy_case()] + \
          [m2e_side_case(k) for k in ((-11, 0, 1, 94) if tier == "quick" else (-200, -11, -2, -1, 0, 1, 2, 3, 94, 200))]
    return cs


def groups(tier):             # noqa: F811
    g = {c.name.replace("/", "_"): (lambda c=c: run_cases([c])) for c in all_cases(tier)}
    g["routing"] = routing_group
    for fam in ("ell", "hyp"):
        g[f"M2E_lemma_{fam}"] = (lambda fam=fam: m2e_lemma_group(fam))
    return g


def replay(ob, model):        # noqa: F811
    if ob["replay"]["case"] == "routing":
        return {"reproduced": True, "signature": "form routing", "detail": ob.get("desc", "")}
    return replay_cases(all_cases("thorough"), ob, model)
