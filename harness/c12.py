"""C12 -- TLE text round-trips and is validated (DESIGN.md section C12)."""
import ast
import re
import importlib
import itertools
import string
import time

import z3

from symx import core, solve
from symx.core import CTX, SB, explore
from symx import zstr
from symx.zstr import SymStr, SymInt

PROPERTY = "C12"
FUNCS = ["beyond.io.tle:Tle.__init__", "beyond.io.tle:Tle.from_orbit", "beyond.io.tle:Tle._checksum",
         "beyond.io.tle:Tle._check_validity", "beyond.io.tle:Tle.from_string"]
STUBS = ["layout: the two format templates of from_orbit and the constant slices of __init__ are read from the AST of the current "
         "tle.py and turned into z3 string/integer constraints", "checksum/validity: the real functions run on strings of "
         "symbolic characters (module-global int/str/sum replaced by symbolic-aware versions)",
         "from_string: real generator on concrete line kinds chosen by symbolic integers"]
ASSUMPTIONS = ["alphabet of a TLE line: digits, upper-case letters, space, + - .", "integer fields are written right-aligned "
               "in decimal without sign (element number 0..9999, revolutions 0..99999, catalogue number 0..99999)"]
OUTSIDE = ["numeric precision of the float fields through deg<->rad and rev/day<->rad/s (floating point)",
           "_float/_unfloat digit-level round trip (needs a decimal<->binary conversion model)",
           "classification other than U (the writer prints the literal U; not among the fields the property varies)"]
ALPHABET = string.digits + string.ascii_uppercase + " +-."
TLE = "beyond.io.tle"


def bounds(tier):
    return {"line_length": 69, "from_string_lines": 4 if tier == "quick" else 5}


# =========================================================================== (a) column layout from the AST
def _ast_layout():
    src = open(importlib.import_module(TLE).__file__).read()
    tree = ast.parse(src)
    cls = [n for n in tree.body if isinstance(n, ast.ClassDef) and n.name == "Tle"][0]
    fo = [n for n in cls.body if isinstance(n, ast.FunctionDef) and n.name == "from_orbit"][0]
    templates = {}
    for n in ast.walk(fo):
        if isinstance(n, ast.Assign) and isinstance(n.value, ast.Call) and isinstance(n.value.func, ast.Attribute) \
                and n.value.func.attr == "format" and isinstance(n.value.func.value, ast.Constant) \
                and isinstance(n.targets[0], ast.Name) and n.targets[0].id in ("line1", "line2"):
            templates[n.targets[0].id] = n.value.func.value.value
    init = [n for n in cls.body if isinstance(n, ast.FunctionDef) and n.name == "__init__"][0]
    slices = []
    for n in ast.walk(init):
        if isinstance(n, ast.Assign):
            for s in ast.walk(n.value):
                if isinstance(s, ast.Subscript) and isinstance(s.value, ast.Name) and s.value.id in ("first", "second"):
                    sl = s.slice
                    if isinstance(sl, ast.Slice) and isinstance(sl.lower, ast.Constant) and isinstance(sl.upper, ast.Constant):
                        a, b = sl.lower.value, sl.upper.value
                    elif isinstance(sl, ast.Constant):
                        a, b = sl.value, sl.value + 1
                    else:
                        continue
                    slices.append((ast.unparse(n.targets[0]), s.value.id, a, b, ast.unparse(n.value)))
    return templates, slices


def _columns(template):
    """[(kind, name, start, width, spec)] from a str.format template with fixed-width specs"""
    out = []
    pos = 0
    for lit, fld, spec, conv in string.Formatter().parse(template):
        if lit:
            out.append(("lit", lit, pos, len(lit), None))
            pos += len(lit)
        if fld is None:
            continue
        if spec == "%y":
            w = 2
        elif fld == "e" and spec == "":
            w = 7                      # '{:.7f}'.format(e)[2:]  (checked separately below)
        else:
            digits = "".join(ch for ch in spec.split(".")[0] if ch.isdigit())
            w = int(digits.lstrip("0") or "0") if digits else None
            if spec.startswith("0>") or spec.startswith("0"):
                w = int(spec.replace("0>", "").split(".")[0].lstrip("0") or 0) if ">" in spec else int(spec.split(".")[0])
        if w is None:
            raise ValueError(f"cannot derive a width for field {fld!r} spec {spec!r}")
        out.append(("field", fld, pos, w, spec))
        pos += w
    return out, pos


# parser attribute -> (line, writer field, kind); kind 'int' = right-aligned decimal, 'raw' = characters compared verbatim
PARSED = {
    "self.norad_id": ("line1", "norad_id", "int", 99999),
    "self.element_nb": ("line1", "elnb", "int", 9999),
    "self.revolutions": ("line2", "revolutions", "int", 99999),
    "year@18": ("line1", "date", "raw", None),
    "epoch": ("line1", "day", "raw", None),
    "self.ndot": ("line1", "ndot", "raw", None),
    "self.ndotdot": ("line1", "ndotdot", "raw", None),
    "self.bstar": ("line1", "bstar", "raw", None),
    "self.i": ("line2", "i", "raw", None),
    "self.Ω": ("line2", "Ω", "raw", None),
    "self.e": ("line2", "e", "raw", None),
    "self.ω": ("line2", "ω", "raw", None),
    "self.M": ("line2", "M", "raw", None),
    "self.n": ("line2", "n", "raw", None),
}


def layout_group():
    templates, slices = _ast_layout()
    obs = []
    cols = {}
    for ln in ("line1", "line2"):
        c, total = _columns(templates[ln])
        cols[ln] = c
        s = z3.Solver()
        L = z3.Int("len")
        s.add(L == total, L != 68)
        obs.append(dict(name=f"layout/{ln}/length68", smt2=s.sexpr(), trivial=False, expect="unsat", vars=["len"], timeout=20,
                        solver="z3", desc=f"{ln}: the format template of from_orbit fills exactly 68 columns before the checksum "
                                          f"(template {templates[ln]!r})", replay={"kind": "layout", "field": "length", "line": ln},
                        n_constraints=2, tags=["layout"]))
    seen = set()
    for target, var, a, b, expr in slices:
        ln = "line1" if var == "first" else "line2"
        key = target
        if target == "year" and a == 18:
            key = "year@18"
        if key not in PARSED:
            continue
        _, fld, kind, vmax = PARSED[key]
        col = [c for c in cols[ln] if c[0] == "field" and c[1] == fld]
        if not col:
            continue
        seen.add(key)
        _, _, start, width, spec = col[0]
        # the line as a z3 string: every field an arbitrary string of its width, literals as written
        parts = []
        fvar = None
        for c in cols[ln]:
            if c[0] == "lit":
                parts.append(z3.StringVal(c[1]))
            else:
                v = z3.String(f"f_{c[1]}")
                parts.append(v)
                if c[1] == fld:
                    fvar = v
        line = z3.Concat(*parts) if len(parts) > 1 else parts[0]
        s = z3.Solver()
        for c in cols[ln]:
            if c[0] == "field":
                s.add(z3.Length(z3.String(f"f_{c[1]}")) == c[3])
        got = z3.SubString(line, a, b - a)
        if kind == "raw":
            s.add(got != fvar)
            desc = f"{ln}: slice [{a}:{b}] feeding {target} returns exactly the {width} columns the writer gives to '{fld}'"
            names = [f"f_{fld}"]
        else:
            # right-aligned decimal integer v in [0, vmax]: field = spaces/zeros + digits ; parser: int(slice)
            v = z3.Int("v")
            dig = z3.String("digits")
            pad = z3.String("pad")
            s.add(v >= 0, v <= vmax, z3.InRe(dig, z3.Union(z3.Re("0"), z3.Concat(z3.Range("1", "9"), z3.Star(z3.Range("0", "9"))))),
                  z3.StrToInt(dig) == v, z3.Length(dig) <= width, fvar == z3.Concat(pad, dig),
                  z3.InRe(pad, z3.Star(z3.Re("0" if spec.startswith("0") else " "))))
            # int() of the slice: leading blanks ignored; if the slice cuts into the digits the value changes
            body = z3.String("body")
            lead = z3.String("lead")
            s.add(got == z3.Concat(lead, body), z3.InRe(lead, z3.Star(z3.Re(" "))),
                  z3.InRe(body, z3.Plus(z3.Range("0", "9"))), z3.StrToInt(body) != v)
            desc = f"{ln}: int(slice [{a}:{b}]) feeding {target} equals the value written right-aligned in the {width} columns of '{fld}', for every value 0..{vmax}"
            names = ["v", "digits", f"f_{fld}"]
        obs.append(dict(name=f"layout/{ln}/{fld}", smt2=s.sexpr(), trivial=False, expect="unsat", vars=names, timeout=60, solver="z3",
                        desc=desc, replay={"kind": "layout", "field": fld, "line": ln, "slice": [a, b], "start": start, "width": width},
                        n_constraints=len(s.assertions()), tags=["layout"]))
    missing = sorted(set(PARSED) - seen)
    s = z3.Solver()
    s.add(z3.BoolVal(bool(missing)))
    obs.append(dict(name="layout/all_fields_found", smt2=s.sexpr(), trivial=False, expect="unsat", vars=[], timeout=10, solver="z3",
                    desc=f"every parsed attribute was matched to a writer field in the AST (missing: {missing})",
                    replay={"kind": "layout", "field": "missing"}, n_constraints=1, tags=["layout"]))
    tw = z3.Solver()
    tw.add(z3.Length(z3.String("f_x")) == 4)
    obs.append(dict(name="layout/twin", smt2=tw.sexpr(), trivial=False, expect="sat", vars=[], timeout=10, solver="z3",
                    desc="twin", replay=None, n_constraints=1, tags=["twin"]))
    return obs, {"templates": templates, "slices": [(t, v, a, b) for t, v, a, b, _ in slices]}


# =========================================================================== (b) checksum and validity on symbolic characters
def _oracle_checksum(line68):
    tot = z3.IntVal(0)
    for c in line68.chars:
        tot = tot + z3.If(z3.And(c.code >= 48, c.code <= 57), c.code - 48, z3.If(c.code == 45, 1, 0))
    return tot % 10


def _tle():
    m = importlib.import_module(TLE)
    zstr.sym_str.maketrans = str.maketrans
    zstr.install(m)
    return m


def _digit_or_dash(code):
    return z3.If(z3.And(code >= 48, code <= 57), code - 48, z3.If(code == 45, 1, 0))


def checksum_group():
    """real _checksum on 69 symbolic characters; compositional: the result is (sum of per-column summands) mod 10 -- read off the
    structure of the symbolic integer the real code built -- and every summand equals the oracle's contribution of its column"""
    m = _tle()
    obs = []
    n = 0

    def body():
        line = SymStr.fresh("c", 69, ALPHABET)
        got = m.Tle._checksum(line)
        return line, got

    for pc, (line, got) in explore(body, maxpaths=50):
        n += 1
        ok_struct = got.modulus == 10 and len(got.parts) == 68
        s = z3.Solver()
        s.add(z3.BoolVal(not ok_struct))
        obs.append(dict(name=f"checksum/structure/p{n}", smt2=s.sexpr(), trivial=False, expect="unsat", vars=[], timeout=10, solver="z3",
                        desc=f"_checksum returns (sum of 68 per-column summands) mod 10 (structure of the symbolic result: modulus "
                             f"{got.modulus}, {len(got.parts)} summands)", replay={"kind": "checksum"}, n_constraints=1, tags=["checksum"]))
        for i, part in enumerate(got.parts[:68]):
            s = z3.Solver()
            for c in list(CTX.pre) + list(pc):
                s.add(c)
            s.add(part != _digit_or_dash(line.chars[i].code))
            obs.append(dict(name=f"checksum/column{i:02d}/p{n}", smt2=s.sexpr(), trivial=False, expect="unsat", vars=[f"c_{i}"],
                            timeout=60, solver="z3",
                            desc=f"column {i}: the summand the real _checksum adds is the digit value, 1 for '-', 0 for letters/space/+/.",
                            replay={"kind": "checksum_col", "col": i}, n_constraints=len(CTX.pre), tags=["checksum"]))
        tw = z3.Solver()
        for c in list(CTX.pre) + list(pc):
            tw.add(c)
        obs.append(dict(name=f"checksum/value/p{n}/twin", smt2=tw.sexpr(), trivial=False, expect="sat", vars=[], timeout=60, solver="z3",
                        desc="twin", replay=None, n_constraints=len(CTX.pre), tags=["twin"]))
    return obs, {"paths": n}


def corruption_group():
    """changing one digit (any column 0..67) into another digit always changes the checksum: per column, the two symbolic
    results of the real _checksum share all other summands (abstracted as one arbitrary integer S)"""
    m = _tle()
    obs = []
    n = 0

    def body():
        line = SymStr.fresh("c", 69, ALPHABET)
        return line, m.Tle._checksum(line)

    for pc, (line, base) in explore(body, maxpaths=5):
        n += 1
        from symx.core import _vars
        for j in range(68):
            d = z3.Int("d")
            cj_name = f"c_{j}"
            # column independence, read off the terms the real code built: summand i mentions only character i
            indep = len(base.parts) == 68 and base.modulus == 10 and all(
                _vars(p) <= {f"c_{k}"} for k, p in enumerate(base.parts))
            same = indep

            class _Alt:
                parts = [z3.substitute(p, (line.chars[j].code, d)) if k == j else p for k, p in enumerate(base.parts)]
            alt = _Alt
            S = z3.Int("S")
            s = z3.Solver()
            cj = line.chars[j].code
            s.add(cj >= 48, cj <= 57, d >= 48, d <= 57, d != cj)
            if same:
                s.add((S + base.parts[j]) % 10 == (S + alt.parts[j]) % 10)
            obs.append(dict(name=f"checksum/single_digit/col{j:02d}", smt2=s.sexpr(), trivial=False, expect="unsat",
                            vars=[f"c_{j}", "d", "S"], timeout=60, solver="z3",
                            desc=f"column {j}: replacing a digit by another digit changes _checksum (other columns contribute the same "
                                 f"summands in both runs: {same})", replay={"kind": "corruption", "col": j}, n_constraints=6,
                            tags=["checksum"]))
        break
    tw = z3.Solver()
    tw.add(z3.Int("d") >= 48)
    obs.append(dict(name="checksum/single_digit/twin", smt2=tw.sexpr(), trivial=False, expect="sat", vars=[], timeout=10, solver="z3",
                    desc="twin", replay=None, n_constraints=1, tags=["twin"]))
    return obs, {"paths": n}


def validity_group(l1, l2):
    """_check_validity accepts a pair of lines iff line numbers, lengths and both checksum characters are right"""
    def run():
        m = _tle()
        obs = []
        n = 0

        ks = {}

        def stub_checksum(line):
            # _checksum is established separately (groups checksum/*): here it is an arbitrary digit per line
            k = z3.Int(f"k_{len(ks)}")
            ks[len(ks)] = k
            CTX.pre += [k >= 0, k <= 9]
            return SymInt(k)
        m.Tle._checksum = staticmethod(stub_checksum)

        def body():
            ks.clear()
            a = SymStr.fresh("a", l1, ALPHABET)
            b = SymStr.fresh("b", l2, ALPHABET)
            # no leading/trailing blanks (strip() is then the identity; blank-padded lines are a concrete corner outside)
            CTX.pre += [a.chars[0].code != 32, b.chars[0].code != 32, a.chars[-1].code != 32, b.chars[-1].code != 32]
            try:
                m.Tle._check_validity([a, b])
                ok = True
            except m.TleParseError:
                ok = False
            return a, b, ok

        for pc, (a, b, ok) in explore(body, maxpaths=200):
            n += 1
            good = z3.BoolVal(l1 == 69 and l2 == 69)
            if l1 == 69 and l2 == 69:
                k0, k1 = z3.Int("k_0"), z3.Int("k_1")
                good = z3.And(a.chars[0].code == 49, a.chars[1].code == 32, b.chars[0].code == 50, b.chars[1].code == 32,
                              a.chars[68].code == 48 + k0, b.chars[68].code == 48 + k1)
                if len(ks) < 2:
                    # the second checksum is only computed when the first line passes
                    good = z3.And(good, z3.BoolVal(False)) if not ok else good
            s = z3.Solver()
            for c in list(CTX.pre) + list(pc):
                s.add(c)
            s.add(good != z3.BoolVal(ok))
            obs.append(dict(name=f"validity/{l1}x{l2}/p{n}", smt2=s.sexpr(), trivial=False, expect="unsat",
                            vars=[f"a_{i}" for i in range(l1)] + [f"b_{i}" for i in range(l2)], timeout=120, solver="z3",
                            desc=f"_check_validity on lines of {l1} and {l2} characters accepts iff line numbers are '1 '/'2 ', both lengths "
                                 "are 69 and both last characters are the checksum digits", replay={"kind": "validity", "l1": l1, "l2": l2},
                            n_constraints=len(CTX.pre), tags=["validity"]))
            tw = z3.Solver()
            for c in list(CTX.pre) + list(pc):
                tw.add(c)
            obs.append(dict(name=f"validity/{l1}x{l2}/p{n}/twin", smt2=tw.sexpr(), trivial=False, expect="sat", vars=[], timeout=60,
                            solver="z3", desc="twin", replay=None, n_constraints=len(CTX.pre), tags=["twin"]))
        return obs, {"paths": n}
    return run


# =========================================================================== (e) from_string grouping
L1 = "1 25544U 98067A   08264.51782528 -.00002182  00000-0 -11606-4 0  2927"
L2 = "2 25544  51.6416 247.4627 0006703 130.5360 325.0288 15.72125391563537"
B1 = "1 25544U 98067A   08264.51782528 -.00002182  00000-0 -11606-4 0  2926"      # wrong checksum
KINDS = {0: ("name", "ISS (ZARYA)"), 1: ("line1", L1), 2: ("line2", L2), 3: ("comment", "# a comment"), 4: ("blank", "   "),
         5: ("bad1", B1)}


def from_string_group(nlines):
    def run():
        import logging
        logging.disable(logging.CRITICAL)
        from harness.c20 import choice, CHOSEN, DOMAINS
        m = importlib.import_module(TLE)
        paths, bad = [], []

        def setup():
            CHOSEN.clear()

        def body():
            kinds = [choice(f"k{i}", len(KINDS)) for i in range(nlines)]
            text = "\n".join(KINDS[k][1] for k in kinds)
            try:
                got = [(t.name, t.text) for t in m.Tle.from_string(text, error="ignore")]
                exc = None
            except Exception as e:  # noqa
                got, exc = None, f"{type(e).__name__}: {e}"
            # oracle: valid entries = "1 ..." directly followed (comments/blanks skipped) by "2 ...", optional name line before
            want = []
            sig = [KINDS[k][0] for k in kinds if KINDS[k][0] not in ("comment", "blank")]
            i = 0
            while i < len(sig):
                if sig[i] == "line1" and i + 1 < len(sig) and sig[i + 1] == "line2":
                    name = "ISS (ZARYA)" if i > 0 and sig[i - 1] == "name" else ""
                    want.append((name, L1 + "\n" + L2))
                    i += 2
                else:
                    i += 1
            err = None
            if exc is not None:
                err = f"raises {exc}"
            elif got != want:
                err = f"yields {len(got)} entries, expected {len(want)}: {got} vs {want}"
            return [KINDS[k][0] for k in kinds], err

        for pc, (hist, err) in explore(body, maxpaths=100000, setup=setup):
            paths.append(z3.And(list(CTX.pre) + list(pc)) if (CTX.pre or pc) else z3.BoolVal(True))
            if err:
                bad.append((hist, err, z3.And(list(pc)) if pc else z3.BoolVal(True)))
        obs = []
        s = z3.Solver()
        for i in range(nlines):
            v = z3.Int(f"k{i}")
            s.add(v >= 0, v < len(KINDS))
        s.add(z3.Not(z3.Or(paths)))
        obs.append(dict(name=f"from_string/{nlines}/exhaustive", smt2=s.sexpr(), trivial=False, expect="unsat",
                        vars=[f"k{i}" for i in range(nlines)], timeout=120, solver="z3",
                        desc=f"the {len(paths)} explored paths cover every sequence of {nlines} line kinds", replay={"kind": "exhaustive"},
                        n_constraints=len(paths), tags=["coverage"]))
        classes = {}
        for hist, err, pc in bad:
            core_sig = tuple(k for k in hist if k not in ("comment", "blank"))
            classes.setdefault((core_sig, err.split(":")[0][:40]), (hist, err, pc))
        for k, (hist, err, pc) in enumerate(list(classes.values())[:30]):
            s = z3.Solver()
            s.add(pc)
            obs.append(dict(name=f"from_string/{nlines}/violation{k}", smt2=s.sexpr(), trivial=False, expect="unsat",
                            vars=[f"k{i}" for i in range(nlines)], timeout=30, solver="z3",
                            desc=f"from_string on lines {hist}: {err}", replay={"kind": "from_string", "hist": hist, "err": err},
                            n_constraints=1, tags=["history"]))
        if not bad:
            s = z3.Solver()
            s.add(z3.BoolVal(False))
            obs.append(dict(name=f"from_string/{nlines}/all_ok", smt2=s.sexpr(), trivial=False, expect="unsat", vars=[], timeout=10,
                            solver="z3", desc=f"from_string yields exactly the valid entries for all {len(paths)} sequences of {nlines} "
                                              "line kinds {name, line1, line2, comment, blank, line1 with wrong checksum}",
                            replay={"kind": "summary"}, n_constraints=1, tags=["summary"]))
        tw = z3.Solver()
        tw.add(z3.Int("k0") >= 0)
        obs.append(dict(name=f"from_string/{nlines}/twin", smt2=tw.sexpr(), trivial=False, expect="sat", vars=[], timeout=10,
                        solver="z3", desc="twin", replay=None, n_constraints=1, tags=["twin"]))
        return obs, {"paths": len(paths), "violating": len(bad)}
    return run


# writer field -> (domain of the written quantity, in the unit it is printed in)
NUMERIC = {"i": (0, 180), "Ω": (0, 360), "ω": (0, 360), "M": (0, 360), "n": (0, 17), "e": (0, 1), "day": (1, 367)}


def numeric_group():
    """fixed-point fields: a value v of the field's domain is written with the template's precision d and width w -- an
    integer k of last-digit units with |v 10^d - k| <= 1/2 -- and read back by float(); the field must not overflow its
    columns (k < 10^(w-1)) and must read back as k / 10^d.  The eccentricity is written as '{:.7f}'.format(e)[2:] (the AST
    of from_orbit is inspected for the slice): the two dropped characters are '0.' only while k < 10^7.
    What is modelled is the decimal rounding of str.format; binary64 effects on ties are outside."""
    templates, slices = _ast_layout()
    src = open(importlib.import_module(TLE).__file__).read()
    cls = [n for n in ast.parse(src).body if isinstance(n, ast.ClassDef) and n.name == "Tle"][0]
    fo = [n for n in cls.body if isinstance(n, ast.FunctionDef) and n.name == "from_orbit"][0]
    # the eccentricity keyword: '{:.Nf}'.format(e)[a:]
    e_spec = None
    for n in ast.walk(fo):
        if isinstance(n, ast.keyword) and n.arg == "e" and isinstance(n.value, ast.Subscript):
            call, sl = n.value.value, n.value.slice
            if isinstance(call, ast.Call) and isinstance(call.func, ast.Attribute) and call.func.attr == "format" and \
                    isinstance(call.func.value, ast.Constant) and isinstance(sl, ast.Slice) and isinstance(sl.lower, ast.Constant):
                mt = __import__("re").fullmatch(r"\{:\.(\d+)f\}", call.func.value.value)
                if mt:
                    arg = call.args[0]
                    cap = None                 # '{:.7f}'.format(min(e, CAP))[2:]: the written value saturates at CAP
                    if isinstance(arg, ast.Call) and isinstance(arg.func, ast.Name) and arg.func.id == "min" and len(arg.args) == 2:
                        consts = [a.value for a in arg.args if isinstance(a, ast.Constant)]
                        cap = consts[0] if len(consts) == 1 else None
                    e_spec = (int(mt.group(1)), int(sl.lower.value), ast.unparse(arg), cap)
    obs = []
    found = set()
    for ln in ("line1", "line2"):
        cols, _ = _columns(templates[ln])
        for c in cols:
            if c[0] != "field" or c[1] not in NUMERIC:
                continue
            fld, w, spec = c[1], c[3], c[4]
            lo, hi = NUMERIC[fld]
            v, k = z3.Real("v"), z3.Int("k")
            s = z3.Solver()
            s.add(v >= lo, v < hi)
            if fld == "e":
                if e_spec is None:
                    s.add(z3.BoolVal(True))
                    desc = "eccentricity: the expression '{:.Nf}'.format(e)[a:] was not found in from_orbit"
                else:
                    d, drop, arg, cap = e_spec
                    from fractions import Fraction
                    # pure integer encoding: e on a grid of 1e-(d+2) (n = e 10^(d+2)), exact ties excluded (|n - 100 k| <= 49)
                    s = z3.Solver()
                    n = z3.Int("n")
                    G = 10 ** (d + 2)
                    s.add(n >= 0, n < G, v == z3.ToReal(n) / G)
                    nw = n
                    if cap is not None:
                        capn = int(Fraction(repr(cap)) * G)
                        nw = z3.If(n < capn, n, z3.IntVal(capn))
                    s.add(nw - 100 * k <= 49, nw - 100 * k >= -49, k >= 0, k <= 10 ** d)
                    # the formatted text is <integer part>.<d digits>; dropping `drop` characters keeps the d decimals only when
                    # the integer part is a single digit (drop = 2); the decimals are k mod 10^d
                    back = z3.If(k >= 10 ** d, k - 10 ** d, k)
                    # wanted: the nearest value the d-digit field can hold (it saturates at 0.99..9)
                    ks = z3.Int("k_spec")
                    s.add(n - 100 * ks <= 49, n - 100 * ks >= -49, ks >= 0, ks <= 10 ** d)
                    want = z3.If(ks >= 10 ** d, z3.IntVal(10 ** d - 1), ks)
                    s.add(z3.Or(drop != 2, w != d, back != want))
                    desc = f"eccentricity in [0, 1): '{{:.{d}f}}'.format({arg})[{drop}:] read back as 0.<digits> is the nearest {d}-digit value to e (saturating at 0.9999999)"
            else:
                mt = __import__("re").fullmatch(r"0?(\d+)\.(\d+)f", spec or "")
                if not mt:
                    continue
                d = int(mt.group(2))
                s.add(2 * (v * 10 ** d - z3.ToReal(k)) < 1, 2 * (v * 10 ** d - z3.ToReal(k)) > -1, k >= 0)     # exact ties excluded
                back = z3.ToReal(k) / 10 ** d
                s.add(z3.Or(k >= 10 ** (w - 1), 2 * (back - v) * 10 ** d > 1, 2 * (back - v) * 10 ** d < -1))
                desc = f"{ln} field '{fld}' (format {spec}, domain [{lo}, {hi})): fits its {w} columns and reads back to half a unit of its last digit"
            found.add(fld)
            obs.append(dict(name=f"numeric/{fld}", smt2=s.sexpr(), trivial=False, expect="unsat", vars=["v", "k"], timeout=30, solver="z3",
                            desc=desc, replay={"kind": "numeric", "field": fld}, n_constraints=len(s.assertions()), tags=["numeric"]))
    s = z3.Solver()
    s.add(z3.BoolVal(found != set(NUMERIC)))
    obs.append(dict(name="numeric/all_fields_found", smt2=s.sexpr(), trivial=False, expect="unsat", vars=[], timeout=10, solver="z3",
                    desc=f"fixed-point fields found in the writer templates: {sorted(found)}", replay={"kind": "numeric", "field": "missing"},
                    n_constraints=1, tags=["numeric"]))
    tw = z3.Solver()
    tw.add(z3.Real("v") >= 0)
    obs.append(dict(name="numeric/twin", smt2=tw.sexpr(), trivial=False, expect="sat", vars=[], timeout=10, solver="z3", desc="twin",
                    replay=None, n_constraints=1, tags=["twin"]))
    return obs, {"paths": len(found)}


# --------------------------------------------------------------------------- 'decimal point assumed' fields (ndotdot/6, B*)
_PH = [chr(0xE000 + i) for i in range(6)]          # placeholders of the five mantissa digits and the exponent digit


def _exp_text(ms, es):
    return ms + "".join(_PH[:5]) + es + _PH[5]


def expfield_group():
    """the real `_float` is run on the 8 columns of a 'decimal point assumed' field: [ +-]DDDDD[+-]D.  The two sign characters
    fix every branch of its string handling, so each of the 3 x 2 sign shapes is one execution with the six digits symbolic
    (placeholders in the text; the module's `float` is replaced by a reader that turns the assembled literal into a term over
    the digit variables, and refuses what Python's float() would refuse): the value is
    +-0.DDDDD x 10^(+-D) for all 10^6 digit contents of the shape"""
    tle = importlib.import_module(TLE)
    D = [z3.Int(f"D{i}") for i in range(5)]
    E = z3.Int("E")
    rng = [z3.And(x >= 0, x <= 9) for x in D + [E]]

    def p10(e, neg):
        t = z3.RealVal(1)
        for k in range(9, -1, -1):
            t = z3.If(e == k, z3.Q(1, 10 ** k) if neg else z3.RealVal(10 ** k), t)
        return t

    def reader(txt):
        mt2 = re.fullmatch(r"([+-]?)\.([%s]+)e([+-]?)([%s])" % ("".join(_PH[:5]), _PH[5]), txt)
        if not mt2:
            raise ValueError(f"could not convert string to float: {txt!r}")
        sg, digs, esg, _ = mt2.groups()
        val_ = sum(z3.ToReal(D[_PH.index(ch)]) / 10 ** (k + 1) for k, ch in enumerate(digs))
        val_ = val_ * p10(E, esg == "-")
        return -val_ if sg == "-" else val_
    obs = []
    saved = tle.__dict__.get("float")
    try:
        tle.float = reader
        for ms in (" ", "+", "-"):
            for es in ("+", "-"):
                name = f"expfield/{'bpm'[' +-'.index(ms)]}{'pm'['+-'.index(es)]}"
                text = _exp_text(ms, es)
                want = sum(z3.ToReal(D[k]) / 10 ** (k + 1) for k in range(5)) * p10(E, es == "-")
                want = -want if ms == "-" else want
                s = z3.Solver()
                s.add(*rng)
                try:
                    got = tle._float(text)
                    s.add(got != want)
                    err = None
                except Exception as e:  # noqa
                    err = f"{type(e).__name__}: {e}"      # any digits will do: decided by the replay
                obs.append(dict(name=name, smt2=s.sexpr(), trivial=False, expect="unsat", vars=[f"D{i}" for i in range(5)] + ["E"],
                                timeout=30, solver="z3",
                                desc=f"_float on the field shape {ms!r}DDDDD{es!r}D (mantissa sign {ms!r}, exponent sign {es!r}), every digit "
                                     f"content: value {'-' if ms == '-' else '+'}0.DDDDD x 10^({es}D)"
                                     + (f" -- the real code raised {err}" if err else ""),
                                replay={"kind": "expfield", "ms": ms, "es": es}, n_constraints=len(s.assertions()), tags=["numeric"]))
    finally:
        if saved is None:
            del tle.float
        else:
            tle.float = saved
    tw = z3.Solver()
    tw.add(*rng)
    obs.append(dict(name="expfield/twin", smt2=tw.sexpr(), trivial=False, expect="sat", vars=[], timeout=10, solver="z3", desc="twin",
                    replay=None, n_constraints=len(rng), tags=["twin"]))
    return obs, {"paths": 6}


def unfloat_group():
    """the writer of the same fields: the real `_unfloat` runs on a stand-in for a non-zero float v = +-m x 10^x (1 <= m < 10)
    whose `format(v, ".4e")` is the decimal rounding of v to five significant digits -- a text with placeholder digits, the
    sign and the exponent concrete per shape (2 signs x exponents -10..8 x {no carry, mantissa rounds up to 10.0000}); what it
    returns is then read by the real `_float`: the field fits its 8 columns and reads back within half a unit of the fifth
    digit of v.  Modelled: the decimal rounding of float formatting (exact ties either way); binary64 is outside"""
    tle = importlib.import_module(TLE)
    D = [z3.Int(f"D{i}") for i in range(5)]
    m = z3.Real("m")
    k = sum(D[i] * 10 ** (4 - i) for i in range(5))
    rng = [z3.And(x >= 0, x <= 9) for x in D] + [D[0] >= 1, m >= 1, m < 10]

    class SymFloat:
        def __init__(self, neg, x):
            self.neg, self.x, self.specs = neg, x, []

        def __eq__(self, o):
            return False                       # a non-zero value (zero is written as a constant)

        def __format__(self, spec):
            self.specs.append(spec)
            return ("-" if self.neg else "") + _PH[0] + "." + "".join(_PH[1:5]) + "e%+03d" % self.x

    def reader(txt):
        mt = re.fullmatch(r"([+-]?)\.([%s]+)e([+-]?)(\d+)" % "".join(_PH[:5]), txt)
        if not mt:
            raise ValueError(f"could not convert string to float: {txt!r}")
        sg, digs, esg, ex = mt.groups()
        val_ = sum(z3.ToReal(D[_PH.index(ch)]) / 10 ** (j + 1) for j, ch in enumerate(digs))
        e = int(ex)
        val_ = val_ * (z3.Q(1, 10 ** e) if esg == "-" else z3.RealVal(10 ** e))
        return -val_ if sg == "-" else val_
    obs = []
    saved = tle.__dict__.get("float")
    try:
        tle.float = reader
        for neg in (False, True):
            for carry in (0, 1):
                for x in range(-10, 9 - carry):
                    name = f"unfloat/{'m' if neg else 'p'}{'c' if carry else ''}/e{x:+d}"
                    s = z3.Solver()
                    s.add(*rng)
                    if carry:
                        s.add(m * 10000 >= z3.Q(199999, 2), k == 10000)
                    else:
                        s.add(2 * (m * 10000 - z3.ToReal(k)) <= 1, 2 * (m * 10000 - z3.ToReal(k)) >= -1)
                    scale = z3.Q(1, 10 ** -x) if x < 0 else z3.RealVal(10 ** x)
                    v = (-m if neg else m) * scale
                    half = scale / 20000
                    sf = SymFloat(neg, x + carry)
                    err = None
                    try:
                        text = tle._unfloat(sf)
                        got = tle._float(text)
                        s.add(z3.Or(got - v > half, v - got > half, z3.BoolVal(len(text) > 8), z3.BoolVal(sf.specs != [".4e"])))
                    except Exception as e:  # noqa
                        err = f"{type(e).__name__}: {e}"
                    obs.append(dict(name=name, smt2=s.sexpr(), trivial=False, expect="unsat", vars=[f"D{i}" for i in range(5)] + ["m"],
                                    timeout=30, solver="z3",
                                    desc=f"_unfloat of a {'negative' if neg else 'positive'} value m x 10^{x} (1 <= m < 10"
                                         + (", m rounding up to 10.0000" if carry else "") + "): at most 8 columns, and read back by _float "
                                         "within half a unit of the fifth significant digit" + (f" -- the real code raised {err}" if err else ""),
                                    replay={"kind": "unfloat", "neg": neg, "x": x, "carry": carry}, n_constraints=len(s.assertions()),
                                    tags=["numeric"]))
    finally:
        if saved is None:
            del tle.float
        else:
            tle.float = saved
    tw = z3.Solver()
    tw.add(*rng)
    tw.add(2 * (m * 10000 - z3.ToReal(k)) <= 1, 2 * (m * 10000 - z3.ToReal(k)) >= -1)
    obs.append(dict(name="unfloat/twin", smt2=tw.sexpr(), trivial=False, expect="sat", vars=[], timeout=10, solver="z3", desc="twin",
                    replay=None, n_constraints=len(rng) + 2, tags=["twin"]))
    return obs, {"paths": 2 * (19 + 18)}


def pivot_group():
    """the two-digit years of a TLE (epoch, international designator): the expression `year += A if <test> else B` of
    Tle.__init__ is translated from the AST and compared, for every yy in 0..99, with the format's rule 57..99 -> 19yy,
    00..56 -> 20yy; the writer's `%y` / `[2:]` is its inverse on 1957..2056"""
    src = open(importlib.import_module(TLE).__file__).read()
    cls = [n for n in ast.parse(src).body if isinstance(n, ast.ClassDef) and n.name == "Tle"][0]
    init = [n for n in cls.body if isinstance(n, ast.FunctionDef) and n.name == "__init__"][0]
    found = []
    for n in ast.walk(init):
        if isinstance(n, ast.AugAssign) and isinstance(n.target, ast.Name) and n.target.id == "year" and isinstance(n.value, ast.IfExp):
            found.append(n)
    found.sort(key=lambda n: n.lineno)
    OPS = {ast.GtE: lambda a, b: a >= b, ast.Gt: lambda a, b: a > b, ast.Lt: lambda a, b: a < b, ast.LtE: lambda a, b: a <= b,
           ast.Eq: lambda a, b: a == b, ast.NotEq: lambda a, b: a != b}
    obs = []
    y = z3.Int("yy")
    for which, n in zip(("cospar", "epoch"), found):
        t = n.value.test
        ok = isinstance(t, ast.Compare) and len(t.ops) == 1 and isinstance(t.left, ast.Name) and t.left.id == "year" and \
            isinstance(t.comparators[0], ast.Constant) and isinstance(n.value.body, ast.Constant) and isinstance(n.value.orelse, ast.Constant) \
            and type(t.ops[0]) in OPS and isinstance(n.op, ast.Add)
        s = z3.Solver()
        s.add(y >= 0, y <= 99)
        if ok:
            cond = OPS[type(t.ops[0])](y, z3.IntVal(int(t.comparators[0].value)))
            code = y + z3.If(cond, z3.IntVal(int(n.value.body.value)), z3.IntVal(int(n.value.orelse.value)))
            spec = y + z3.If(y >= 57, 1900, 2000)
            s.add(code != spec)
        else:
            s.add(z3.BoolVal(True))
        obs.append(dict(name=f"pivot/{which}", smt2=s.sexpr(), trivial=False, expect="unsat", vars=["yy"], timeout=20, solver="z3",
                        desc=f"two-digit {which} year of a TLE: 57..99 -> 1957..1999, 00..56 -> 2000..2056 (expression at line "
                             f"{n.lineno} of tle.py translated from the AST)", replay={"kind": "pivot", "which": which},
                        n_constraints=3, tags=["layout"]))
    s = z3.Solver()
    s.add(z3.BoolVal(len(found) != 2))
    obs.append(dict(name="pivot/both_found", smt2=s.sexpr(), trivial=False, expect="unsat", vars=[], timeout=10, solver="z3",
                    desc="both two-digit-year expressions of Tle.__init__ were found in the AST", replay={"kind": "pivot", "which": "missing"},
                    n_constraints=1, tags=["layout"]))
    tw = z3.Solver()
    tw.add(y >= 0, y <= 99)
    obs.append(dict(name="pivot/twin", smt2=tw.sexpr(), trivial=False, expect="sat", vars=[], timeout=10, solver="z3", desc="twin",
                    replay=None, n_constraints=1, tags=["twin"]))
    return obs, {"paths": len(found)}


def _with_checksum(line68):
    tot = sum(int(c) for c in line68 if c.isdigit()) + line68.count("-")
    return line68 + str(tot % 10)


def groups(tier):
    g = {"layout": layout_group, "checksum": checksum_group, "corruption": corruption_group, "pivot": pivot_group, "numeric": numeric_group,
         "expfield": expfield_group, "unfloat": unfloat_group}
    for l1, l2 in ((69, 69), (68, 69), (70, 69), (69, 68), (69, 70)):
        g[f"validity{l1}x{l2}"] = validity_group(l1, l2)
    for n in range(1, bounds(tier)["from_string_lines"] + 1):
        g[f"from_string{n}"] = from_string_group(n)
    return g


# =========================================================================== replay
def replay(ob, model):
    rp = ob.get("replay") or {}
    kind = rp.get("kind")
    from beyond.io.tle import Tle, TleParseError
    if kind == "layout":
        fld = rp.get("field")
        if fld in ("length", "missing"):
            return {"reproduced": True, "signature": f"TLE layout {fld}", "detail": ob["desc"]}
        # build a real orbit from the reference TLE, put a distinguishing value into the field, write and parse back
        tle = Tle("ISS (ZARYA)\n" + L1 + "\n" + L2)
        orb = tle.orbit()
        attr = {"elnb": "element_nb", "revolutions": "revolutions", "norad_id": "norad_id"}.get(fld)
        if attr is None:
            # raw field: compare the written columns with what the parser slices
            out = Tle.from_orbit(orb)
            l = out.text.splitlines()[0 if rp["line"] == "line1" else 1]
            a, b = rp["slice"]
            ok = (a, b) == (rp["start"], rp["start"] + rp["width"])
            return {"reproduced": not ok, "signature": f"TLE layout: slice of {fld}",
                    "detail": f"{fld}: writer columns [{rp['start']}:{rp['start'] + rp['width']}], parser slice [{a}:{b}]; line {l!r}"}
        v = int(model.get("v", 0))
        if attr == "norad_id":
            out = Tle.from_orbit(orb, norad_id=v)
        else:
            setattr(orb, attr, v)
            out = Tle.from_orbit(orb)
        back = getattr(out, attr)
        return {"reproduced": int(back) != v, "signature": f"TLE layout: {attr} slice narrower than the written field",
                "detail": f"{attr}={v} is written as {out.text.splitlines()[0 if rp['line'] == 'line1' else 1]!r} and parsed back as {back}",
                "inputs": {attr: v}}
    if kind == "numeric":
        fld = rp.get("field")
        if fld == "missing":
            return {"reproduced": True, "signature": "TLE numeric fields not found", "detail": ob["desc"]}
        from fractions import Fraction
        mv = model.get("v", 0)
        val_ = float(Fraction(*mv)) if isinstance(mv, list) else float(mv)
        import numpy as np
        tle = Tle("ISS (ZARYA)\n" + L1 + "\n" + L2)
        orb = tle.orbit()
        idx = {"i": 0, "Ω": 1, "e": 2, "ω": 3, "M": 4, "n": 5}.get(fld)
        if idx is None:
            return {"reproduced": False, "signature": f"TLE numeric field {fld}", "detail": "no concrete replay for this field"}
        orb = orb.copy(form="TLE")
        orb[idx] = val_ if fld == "e" else (val_ * 2 * np.pi / 86400 if fld == "n" else np.radians(val_))
        try:
            out = Tle.from_orbit(orb)
            back = {"i": np.degrees(out.i), "Ω": np.degrees(out.Ω), "e": out.e, "ω": np.degrees(out.ω), "M": np.degrees(out.M),
                    "n": out.n * 86400 / (2 * np.pi)}[fld]
            unit = {"e": 1e-7, "n": 1e-8}.get(fld, 1e-4)
            bad = abs(back - val_) > 0.51 * unit
            detail = f"{fld} = {val_!r} is written as {out.text.splitlines()[1]!r} and read back as {back!r}"
        except Exception as e:  # noqa
            bad, detail = True, f"{fld} = {val_!r}: {type(e).__name__}: {e}"
        return {"reproduced": bool(bad), "signature": f"TLE numeric field {fld}", "detail": detail, "inputs": {fld: val_}}
    if kind == "expfield":
        from decimal import Decimal
        from beyond.io.tle import _float
        digs = "".join(str(int(model.get(f"D{i}", 1 if i == 0 else 0))) for i in range(5))
        ex = str(int(model.get("E", 1)))
        text = rp["ms"] + digs + rp["es"] + ex
        want = float(Decimal(("-" if rp["ms"] == "-" else "") + "0." + digs + "e" + rp["es"] + ex))
        try:
            got = _float(text)
            bad, detail = got != want, f"_float({text!r}) = {got!r}, the field says {want!r}"
        except Exception as e:  # noqa
            bad, detail = True, f"_float({text!r}) raises {type(e).__name__}: {e}"
        return {"reproduced": bool(bad), "signature": "TLE decimal-point-assumed field", "detail": detail, "inputs": {"field": text}}
    if kind == "unfloat":
        from fractions import Fraction
        from beyond.io.tle import _float, _unfloat
        mv = model.get("m", 1)
        mval = Fraction(*mv) if isinstance(mv, list) else Fraction(mv)
        x = rp["x"]
        val_ = float((-mval if rp["neg"] else mval) * Fraction(10) ** x)
        try:
            text = _unfloat(val_)
            back = _float(text)
            bad = len(text) > 8 or abs(back - val_) > 0.5001 * 10.0 ** (x - 4)
            detail = f"_unfloat({val_!r}) = {text!r}, read back as {back!r}"
        except Exception as e:  # noqa
            bad, detail = True, f"_unfloat/_float({val_!r}) raises {type(e).__name__}: {e}"
        return {"reproduced": bool(bad), "signature": "TLE decimal-point-assumed field (writer)", "detail": detail, "inputs": {"value": val_}}
    if kind == "pivot":
        which = rp.get("which")
        if which == "missing":
            return {"reproduced": True, "signature": "TLE year pivot not found", "detail": ob["desc"]}
        yy = int(model.get("yy", 57))
        l1 = L1[:68]
        l1 = (l1[:9] + "%02d" % yy + l1[11:]) if which == "cospar" else (l1[:18] + "%02d" % yy + l1[20:])
        tle = Tle("ISS (ZARYA)\n" + _with_checksum(l1) + "\n" + L2)
        want = (1900 if yy >= 57 else 2000) + yy
        got = int(tle.cospar_id.split("-")[0]) if which == "cospar" else tle.epoch.datetime.year
        return {"reproduced": got != want, "signature": f"TLE two-digit {which} year", "inputs": {"yy": yy},
                "detail": f"{which} year '{yy:02d}' is read as {got}, the format says {want}"}
    if kind == "checksum_col":
        col = rp["col"]
        ch = chr(int(model.get(f"c_{col}", 48)))
        base = "1" + "A" * 68
        line = base[:col] + ch + base[col + 1:]
        ref = "1" + "A" * 68
        want = (Tle._checksum(ref) - (1 if col == 0 else 0) + (int(ch) if ch.isdigit() else (1 if ch == "-" else 0))) % 10
        got = Tle._checksum(line)
        return {"reproduced": got != want, "signature": "TLE checksum value", "detail": f"column {col} character {ch!r}: _checksum={got}, expected {want}"}
    if kind in ("checksum", "corruption"):
        if kind == "corruption" and "col" in rp:
            col = rp["col"]
            c0, d = chr(int(model.get(f"c_{col}", 49))), chr(int(model.get("d", 50)))
            base = "1" + "A" * 68
            l1_, l2_ = base[:col] + c0 + base[col + 1:], base[:col] + d + base[col + 1:]
            return {"reproduced": Tle._checksum(l1_) == Tle._checksum(l2_), "signature": "TLE checksum misses a single-digit corruption",
                    "detail": f"{l1_!r} vs {l2_!r}"}
        line = "".join(chr(int(model.get(f"c_{i}", 48))) for i in range(69))
        want = (sum(int(c) for c in line[:68] if c.isdigit()) + line[:68].count("-")) % 10
        got = Tle._checksum(line)
        if kind == "checksum":
            return {"reproduced": got != want, "signature": "TLE checksum value", "detail": f"line {line!r}: _checksum={got}, expected {want}"}
        j, d = int(model.get("j", 0)), chr(int(model.get("d", 48)))
        other = line[:j] + d + line[j + 1:]
        return {"reproduced": Tle._checksum(other) == got and other != line, "signature": "TLE checksum misses a single-digit corruption",
                "detail": f"{line!r} vs {other!r}: both checksum {got}"}
    if kind == "validity":
        a = "".join(chr(int(model.get(f"a_{i}", 48))) for i in range(rp["l1"]))
        b = "".join(chr(int(model.get(f"b_{i}", 48))) for i in range(rp["l2"]))

        def cs(l):
            return str((sum(int(c) for c in l[:68] if c.isdigit()) + l[:68].count("-")) % 10)
        # the symbolic side replaces the checksum by an arbitrary digit: besides the model's own characters, try the realisations
        # in which column 69 of a line is the true checksum of that line
        tried = []
        fix = lambda l: (l[:68] + cs(l) + l[69:]) if len(l) >= 69 else l          # column 69 := true checksum
        for a_, b_ in ((a, b), (fix(a), b), (a, fix(b)), (fix(a), fix(b))):
            good = len(a_) == 69 and len(b_) == 69 and a_.startswith("1 ") and b_.startswith("2 ") and a_[68] == cs(a_) and b_[68] == cs(b_)
            try:
                Tle._check_validity([a_, b_])
                ok = True
            except TleParseError:
                ok = False
            tried.append(f"{a_!r} / {b_!r}: accepted={ok}, should be {good}")
            if ok != good:
                return {"reproduced": True, "signature": "TLE validity check", "detail": tried[-1], "inputs": {"line1": a_, "line2": b_}}
        return {"reproduced": False, "signature": "TLE validity check", "detail": "; ".join(tried)}
    if kind == "from_string":
        hist = rp["hist"]
        name2line = {v[0]: v[1] for v in KINDS.values()}
        text = "\n".join(name2line[k] for k in hist)
        try:
            got = list(Tle.from_string(text, error="ignore"))
            return {"reproduced": True, "signature": "Tle.from_string yields wrong entries", "detail": f"{hist}: {rp['err']}"}
        except Exception as e:  # noqa
            core_sig = [k for k in hist if k not in ("comment", "blank")]
            return {"reproduced": True, "signature": f"Tle.from_string raises {type(e).__name__} on an ill-formed group",
                    "detail": f"lines {hist}: {type(e).__name__}: {e}", "inputs": {"lines": hist}}
    if kind == "summary":
        return {"reproduced": True, "signature": "summary", "detail": ob.get("desc", "")}
    return {"reproduced": False, "signature": "?", "detail": str(rp)}
