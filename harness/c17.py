"""C17 -- local orbital frames and maneuvers follow their definitions (DESIGN.md section C17)."""
import math
from datetime import timedelta as _td

import numpy as np

from symx.case import Case, Ang, run_cases, replay_cases
from symx.core import R, CTX, var
from symx.npx import det3
from symx.stubs import SymDate, SymTD, carrier

PROPERTY = "C17"
FUNCS = ["beyond.frames.local:to_qsw", "beyond.frames.local:to_tnw", "beyond.frames.local:to_local",
         "beyond.utils.matrix:expand", "beyond.orbits.man:ImpulsiveMan.dv", "beyond.orbits.man:ImpulsiveMan.check",
         "beyond.orbits.man:ContinuousMan.__init__", "beyond.orbits.man:ContinuousMan.accel",
         "beyond.orbits.man:ContinuousMan.check", "beyond.orbits.man:dkep2dv", "beyond.orbits.man:dkep2aol",
         "beyond.orbits.man:KeplerianImpulsiveMan.dv", "beyond.propagators.keplernum:KeplerNum._make_step"]
STUBS = ["Orbit -> object-dtype Carrier (cartesian)", "Date/timedelta -> exact real seconds",
         "orb.infos -> namespace with symbolic a, i, v (dkep2dv)", "KeplerNum._accel -> fresh symbolic derivative vector (the "
         "maneuver clause of _make_step is what is checked here; the integrator schema is C06)"]
ASSUMPTIONS = ["reals instead of binary64", "non-zero angular momentum |r x v| > 0", "forward integration steps (h > 0)"]
OUTSIDE = ["'realises the requested increments to first order' beyond the tangential identity (asymptotic statement)",
           "continuous burns whose edges fall inside an integration step (quadrature error of the integrator)"]


def bounds(tier):
    return {"tiles": 3 if tier == "quick" else 4, "per_query_timeout_s": 60 if tier == "quick" else 600}


RV = ["rx", "ry", "rz", "vx", "vy", "vz"]


def _rv(v):
    return [v[k] for k in RV]


def _cross(a, b):
    return [a[1] * b[2] - a[2] * b[1], a[2] * b[0] - a[0] * b[2], a[0] * b[1] - a[1] * b[0]]


def _norm(env, a):
    return env.sqrt(a[0] * a[0] + a[1] * a[1] + a[2] * a[2])


def pre_h(v):
    h = _cross(_rv(v)[:3], _rv(v)[3:])
    return [h[0] * h[0] + h[1] * h[1] + h[2] * h[2] > 0]


def axes(env, v, kind):
    """independent construction of the local triad (rows) from r, v"""
    r, vel = _rv(v)[:3], _rv(v)[3:]
    h = _cross(r, vel)
    hn = _norm(env, h)
    w = [x / hn for x in h]
    if kind == "QSW":
        rn = _norm(env, r)
        q = [x / rn for x in r]
        return [q, _cross(w, q), w]
    vn = _norm(env, vel)
    t = [x / vn for x in vel]
    return [t, _cross(w, t), w]


def mk_orb(env, v, date=None):
    if env.symbolic:
        return carrier(_rv(v), date=date, frame="EME2000")
    return np.array(_rv(v), dtype=float)


def local_case(kind):
    def run(env, v):
        loc = env.mod("beyond.frames.local")
        env.mod("beyond.utils.matrix")
        fn = loc.to_qsw if kind == "QSW" else loc.to_tnw
        M = fn(mk_orb(env, v))
        M6 = loc.to_local(kind.lower() if kind == "QSW" else kind, mk_orb(env, v))
        M3 = loc.to_local(kind, mk_orb(env, v), expanded=False)
        d = det3(M)
        return {"M": M, "MMt": M @ M.T, "det": d, "M6": M6, "M3": M3}

    def ref(env, v, out):
        A = env.np.array(axes(env, v, kind))
        Z = env.np.zeros((3, 3))
        I = env.np.identity(3)
        M6 = env.np.zeros((6, 6))
        M6[:3, :3] = A
        M6[3:, 3:] = A
        return {"M": A, "MMt": I, "det": 1, "M6": M6, "M3": A}

    return Case(f"local/{kind}", [(k, "real") for k in RV], run, ref, pre=pre_h, timeout=90,
                desc=f"to_{kind.lower()} rows = ({'r^' if kind == 'QSW' else 'v^'}, completion, h^), M M^T = I, det = +1; "
                     "to_local dispatch (case-insensitive) and 6x6 expansion")


def man_case(frame, kind):
    """ImpulsiveMan.dv / ContinuousMan.accel: exactly the stated components along the stated axes"""
    def run(env, v):
        man = env.mod("beyond.orbits.man")
        if env.symbolic:
            env.mod("beyond.frames.local")
            env.mod("beyond.utils.matrix")
            man.log = _NoLog()
            orb = mk_orb(env, v, SymDate(0))
            date = SymDate(var("tm"))
            dur = SymTD(v["dur"])
        else:
            from beyond.dates import Date
            from beyond.orbits import StateVector
            date = Date(2020, 1, 1)
            orb = StateVector(_rv(v), date, "cartesian", "EME2000")
            dur = _td(seconds=v["dur"])
        d = [v["d1"], v["d2"], v["d3"]]
        if kind == "impulsive":
            out = man.ImpulsiveMan(date, d, frame=frame).dv(orb)
        elif kind == "cont_dv":
            m = man.ContinuousMan(date, dur, dv=d, frame=frame)
            out = m.accel(orb) * dur.total_seconds()
        else:
            m = man.ContinuousMan(date, dur, accel=d, frame=frame)
            out = m.accel(orb)
        return {"out": list(out), "n2": out[0] * out[0] + out[1] * out[1] + out[2] * out[2]}

    def ref(env, v, out):
        d = [v["d1"], v["d2"], v["d3"]]
        if frame is None:
            res = d
        else:
            A = axes(env, v, frame.upper())
            res = [sum(d[k] * A[k][j] for k in range(3)) for j in range(3)]
        return {"out": res, "n2": d[0] * d[0] + d[1] * d[1] + d[2] * d[2]}

    return Case(f"man/{kind}/{frame}", [(k, "real") for k in RV + ["d1", "d2", "d3"]] + [("dur", "pos")], run, ref,
                pre=pre_h, timeout=90,
                desc=f"{kind} maneuver given in {frame or 'inertial'} axes contributes exactly its stated components along those "
                     "axes (and the stated magnitude); continuous: accel * duration = dv")


class _NoLog:
    def debug(self, *a, **k):
        pass
    info = warning = error = debug


def window_case(date_pos):
    """ContinuousMan start/stop/median for the three date_pos, and check() <=> start <= date < stop"""
    def run(env, v):
        man = env.mod("beyond.orbits.man")
        if env.symbolic:
            man.log = _NoLog()
            m = man.ContinuousMan(SymDate(v["t0"]), SymTD(v["dur"]), dv=[1, 0, 0], date_pos=date_pos)
            inside = 1 if m.check(SymDate(v["t"])) else 0
            return {"start": m.start.t, "stop": m.stop.t, "median": m.median.t, "inside": inside}
        from beyond.dates import Date
        ref0 = Date(2020, 1, 1)
        m = man.ContinuousMan(ref0 + _td(seconds=v["t0"]), _td(seconds=v["dur"]), dv=[1, 0, 0], date_pos=date_pos)
        f = lambda d: (d - ref0).total_seconds()
        return {"start": f(m.start), "stop": f(m.stop), "median": f(m.median),
                "inside": 1 if m.check(ref0 + _td(seconds=v["t"])) else 0}

    def ref(env, v, out):
        off = {"start": 0, "median": -v["dur"] / 2, "stop": -v["dur"]}[date_pos]
        start = v["t0"] + off
        stop = start + v["dur"]
        inside = 1 if (v["t"] >= start and v["t"] < stop) else 0
        return {"start": start, "stop": stop, "median": start + v["dur"] / 2, "inside": inside}

    return Case(f"window/{date_pos}", [("t0", "real"), ("t", "real"), ("dur", "pos")], run, ref, tol=1e-5, abs_tol=2e-6,
                desc=f"ContinuousMan(date_pos={date_pos}): start/stop/median and membership test")


def tiling_case(K):
    """an impulse strictly inside a span tiled by K consecutive steps is seen by exactly one step: the one containing it"""
    ins = [("t0", "real"), ("d", "real")] + [(f"h{k}", "pos") for k in range(K)]

    def run(env, v):
        man = env.mod("beyond.orbits.man")
        if env.symbolic:
            m = man.ImpulsiveMan(SymDate(v["d"]), [1, 0, 0])
            mk, td = SymDate, SymTD
        else:
            from beyond.dates import Date
            ref0 = Date(2020, 1, 1)
            m = man.ImpulsiveMan(ref0 + _td(seconds=v["d"]), [1, 0, 0])
            mk, td = (lambda t: ref0 + _td(seconds=t)), (lambda h: _td(seconds=h))
        t = v["t0"]
        count = 0
        which = -1
        for k in range(K):
            if m.check(mk(t), td(v[f"h{k}"])):
                count += 1
                which = k
            t = t + v[f"h{k}"]
        return {"count": count, "which": which}

    def ref(env, v, out):
        t = v["t0"]
        which = -1
        for k in range(K):
            if t < v["d"] and v["d"] <= t + v[f"h{k}"]:
                which = k
            t = t + v[f"h{k}"]
        return {"count": 1, "which": which}

    def pre(v):
        tot = v["t0"]
        for k in range(K):
            tot = tot + v[f"h{k}"]
        return [v["d"] > v["t0"], v["d"] <= tot]

    return Case(f"tiling/{K}", ins, run, ref, pre=pre, maxpaths=200, tol=0, abs_tol=0.5,
                desc=f"ImpulsiveMan.check over any tiling of the span by {K} forward steps fires exactly once, in the step that "
                     "contains the maneuver date (so no later than one step after it)")


def makestep_case():
    """the maneuver clause of the real KeplerNum._make_step (Euler tableau, derivative stubbed)"""
    # H: nominal step of the propagator, h: the step actually taken (an adaptive method or the last step before a target
    # date takes a shorter one): the impulse window is that of the step taken
    ins = [(k, "real") for k in RV + ["d1", "d2", "d3", "t0", "d"] + [f"k{i}" for i in range(6)]] + [("h", "pos"), ("H", "pos")]

    def run(env, v):
        kn = env.mod("beyond.propagators.keplernum")
        man = env.mod("beyond.orbits.man")
        ks = [v[f"k{i}"] for i in range(6)]
        if env.symbolic:
            prop = kn.KeplerNum.__new__(kn.KeplerNum)
            prop.method = "euler"
            prop.step = SymTD(v["H"])
            prop.tol = None
            m = man.ImpulsiveMan(SymDate(v["d"]), [v["d1"], v["d2"], v["d3"]])
            orb = carrier(_rv(v), date=SymDate(v["t0"]), frame="EME2000", maneuvers=[m])
            prop._orbit = orb
            prop._accel = lambda y: env.np.array(ks)
            # tableau arrays as exact rationals (values are read from the class: Euler b = [1])
            step, y1 = prop._make_step(orb, SymTD(v["h"]))
            return {"y": list(y1), "step": step.secs, "date": y1.date.t}
        from beyond.dates import Date
        from beyond.orbits import Orbit
        ref0 = Date(2020, 1, 1)
        prop = kn.KeplerNum(_td(seconds=v["H"]), [], method="euler")
        m = man.ImpulsiveMan(ref0 + _td(seconds=v["d"]), [v["d1"], v["d2"], v["d3"]])
        orb = Orbit(_rv(v), ref0 + _td(seconds=v["t0"]), "cartesian", "EME2000", prop)
        orb.maneuvers = [m]
        prop.orbit = orb
        prop._accel = lambda y: np.array(ks)
        step, y1 = prop._make_step(prop.orbit, _td(seconds=v["h"]))
        return {"y": list(np.array(y1)), "step": step.total_seconds(), "date": (y1.date - ref0).total_seconds()}

    def ref(env, v, out):
        y = [_rv(v)[i] + v["h"] * v[f"k{i}"] for i in range(6)]
        if v["t0"] < v["d"] and v["d"] <= v["t0"] + v["h"]:
            y = y[:3] + [y[3] + v["d1"], y[4] + v["d2"], y[5] + v["d3"]]
        return {"y": y, "step": v["h"], "date": v["t0"] + v["h"]}

    return Case("make_step/impulse", ins, run, ref, tol=1e-6, abs_tol=1e-5,
                desc="KeplerNum._make_step (Euler): y + h*f, date advanced by h, and the impulse added iff t0 < date <= t0+h")


class _NS:
    pass


def dkep_case():
    ins = [("mu", "pos"), ("a", "pos"), ("v", "pos"), ("i", "angle", {"lo": "free"}), ("da", "real"), ("di", "real"),
           ("dO", "real")]

    def mkorb(env, v):
        o = _NS()
        o.frame = _NS()
        o.frame.center = _NS()
        o.frame.center.body = _NS()
        o.frame.center.body.mu = v["mu"]
        o.infos = _NS()
        o.infos.kep = _NS()
        o.infos.kep.a, o.infos.kep.i = v["a"], v["i"]
        o.infos.v = v["v"]
        return o

    def run(env, v):
        man = env.mod("beyond.orbits.man")
        out = man.dkep2dv(mkorb(env, v), da=v["da"], di=v["di"], dOmega=v["dO"])
        zero = man.dkep2dv(mkorb(env, v), da=v["da"], di=0, dOmega=0) if True else None
        return {"n": out[1], "t_only": zero[0], "w_only": zero[2], "dvw_nonneg": abs(out[2]) - out[2]}

    def ref(env, v, out):
        dva = v["mu"] * v["da"] / (2 * v["v"] * v["a"] * v["a"])
        return {"n": 0, "t_only": dva, "w_only": 0, "dvw_nonneg": 0}

    def pre(v):
        # non-zero increments, plane change below 2 pi (the property's 'large values' are bounded by a full turn)
        return [v["da"] != 0, v["di"] * v["di"] + v["dO"] * v["dO"] < 36, v["v"] + v["mu"] * v["da"] / (2 * v["v"] * v["a"] * v["a"]) > 0]

    return Case("dkep2dv", ins, run, ref, pre=pre, timeout=120, maxpaths=64,
                desc="dkep2dv: no normal component, out-of-plane component non-negative; a pure da request gives the tangential "
                     "delta-v mu*da/(2 v a^2) (first-order Gauss relation) and nothing else")


def dkep_norm_case():
    """|result|^2 = v^2 + vf^2 - 2 v vf cos(delta) (Al-Kashi) on the non-degenerate branch"""
    ins = [("mu", "pos"), ("a", "pos"), ("v", "pos"), ("i", "angle", {"lo": "free"}), ("da", "real"), ("di", "real"),
           ("dO", "real")]
    base = dkep_case()

    def run(env, v):
        man = env.mod("beyond.orbits.man")
        o = _NS()
        o.frame = _NS(); o.frame.center = _NS(); o.frame.center.body = _NS(); o.frame.center.body.mu = v["mu"]
        o.infos = _NS(); o.infos.kep = _NS(); o.infos.kep.a, o.infos.kep.i = v["a"], v["i"]; o.infos.v = v["v"]
        out = man.dkep2dv(o, da=v["da"], di=v["di"], dOmega=v["dO"])
        n2 = out[0] * out[0] + out[2] * out[2]
        al = alkashi(env, v)
        # exact on the generic branch; on the np.isclose branch (dv_w forced to 0) within that branch's own tolerance
        exact = n2 if out[2] != 0 else al
        close = 1 if abs(n2 - al) <= 3e-5 * al else 0
        return {"n2": exact, "close": close}

    def alkashi(env, v):
        dva = v["mu"] * v["da"] / (2 * v["v"] * v["a"] * v["a"])
        vf = v["v"] + dva
        si = env.sin(v["i"])
        dang = env.sqrt(v["di"] * v["di"] + v["dO"] * v["dO"] * si * si)
        return v["v"] * v["v"] + vf * vf - 2 * v["v"] * vf * env.cos(dang)

    def ref(env, v, out):
        return {"n2": alkashi(env, v), "close": 1}

    def pre(v):
        return [v["da"] != 0, v["di"] * v["di"] + v["dO"] * v["dO"] < 36,
                v["v"] + v["mu"] * v["da"] / (2 * v["v"] * v["a"] * v["a"]) > 0]

    return Case("dkep2dv/norm", ins, run, ref, pre=pre, timeout=120, maxpaths=64, tol=2e-5, abs_tol=1e-9,
                desc="dkep2dv: |delta-v|^2 equals the Al-Kashi value v^2+vf^2-2 v vf cos(plane change) "
                     "(np.isclose branch: within its own 1e-5 tolerance)")


def kepcont_case():
    """KeplerianContinuousMan: the thrust acceleration integrated over the duration of the burn is the delta-v of the same
    element increments (here a pure da: tangential), whatever the duration -- fractions of a second, more than a day"""
    ins = [("mu", "pos"), ("a", "pos"), ("da", "real"), ("dur", "pos")] + [(k, "real") for k in RV]

    def pre(v):
        return pre_h(v) + [v["da"] != 0]

    def speed(env, v):
        vel = _rv(v)[3:]
        return _norm(env, vel)

    def run(env, v):
        man = env.mod("beyond.orbits.man") if env.symbolic else __import__("importlib").import_module("beyond.orbits.man")
        if env.symbolic:
            env.mod("beyond.frames.local")
            vn = speed(env, v)

            class Orb(np.ndarray):
                def copy(self, form=None, frame=None):
                    return self
            o = np.empty(6, dtype=object)
            o[:] = _rv(v)
            o = o.view(Orb)
            o.frame = _NS(); o.frame.center = _NS(); o.frame.center.body = _NS(); o.frame.center.body.mu = v["mu"]
            o.infos = _NS(); o.infos.kep = _NS(); o.infos.kep.a, o.infos.kep.i = v["a"], 0; o.infos.v = vn
            o.date = SymDate(0)
            m = man.KeplerianContinuousMan(SymDate(0), SymTD(v["dur"]), da=v["da"])
            acc = m.accel(o)
            return {"dv_delivered": [acc[k] * v["dur"] for k in range(3)]}
        from beyond.dates import Date
        from beyond.orbits import StateVector
        sc = lambda xs: [xs[0] * 1e6 + 7e6, xs[1] * 1e6, xs[2] * 1e6, xs[3] * 1e3, xs[4] * 1e3 + 7.5e3, xs[5] * 1e3]
        o = StateVector(sc(_rv(v)), Date(2020, 1, 1), "cartesian", "EME2000")
        dur = float(v["dur"])
        m = man.KeplerianContinuousMan(o.date, _td(seconds=dur), da=float(v["da"]) * 1e3)
        imp = man.KeplerianImpulsiveMan(o.date, da=float(v["da"]) * 1e3)
        acc = np.array(m.accel(o))
        return {"dv_delivered": list((acc * dur - np.array(imp.dv(o))) / max(1e-9, float(np.linalg.norm(imp.dv(o)))))}

    def ref(env, v, out):
        if not env.symbolic:
            return {"dv_delivered": [0, 0, 0]}
        vn = speed(env, v)
        dva = v["mu"] * v["da"] / (2 * vn * v["a"] * v["a"])
        t = [x / vn for x in _rv(v)[3:]]
        return {"dv_delivered": [dva * t[k] for k in range(3)]}
    return Case("kepler_continuous", ins, run, ref, pre=pre, timeout=120, maxpaths=64, tol=1e-9, abs_tol=1e-9,
                extra_points=[{"dur": 30.5}, {"dur": 90000.0}, {"dur": 86400.0}],
                desc="KeplerianContinuousMan(da): acceleration x duration = the tangential delta-v mu da/(2 v a^2) along the velocity, "
                     "for any duration")


def kepimp_form_case():
    """KeplerianImpulsiveMan.dv(orb) for an orbit expressed in *spherical* form: the TNW delta-v of dkep2dv (two arbitrary reals
    here: tangential and out-of-plane parts) is carried to the frame of the orbit along the velocity and the angular momentum
    of the state -- of its position and velocity, whatever the six numbers the state is stored as (ImpulsiveMan.dv,
    ContinuousMan.accel and KeplerianContinuousMan.accel all say `orb.copy(form="cartesian")` first)"""
    ins = [("r", "pos"), ("th", "angle", {"lo": "free"}), ("ph", "angle", {"lo": "-pi"}), ("rd", "real"), ("thd", "real"), ("phd", "real"),
           ("dt", "real"), ("dw", "real")]

    def pre(v):
        c = v["ph"].cos()
        # non-degenerate: off the polar axis, non-zero angular momentum
        return [c > 0, v["thd"] * v["thd"] * c * c + v["phd"] * v["phd"] > 0]

    def cart(env, v):
        r, th, ph, rd, thd, phd = (v[k] for k in ("r", "th", "ph", "rd", "thd", "phd"))
        ct, st, cp, sp = env.cos(th), env.sin(th), env.cos(ph), env.sin(ph)
        pos = [r * cp * ct, r * cp * st, r * sp]
        vel = [rd * cp * ct - r * sp * ct * phd - r * cp * st * thd, rd * cp * st - r * sp * st * phd + r * cp * ct * thd,
               rd * sp + r * cp * phd]
        return pos + vel

    def run(env, v):
        man = env.mod("beyond.orbits.man") if env.symbolic else __import__("importlib").import_module("beyond.orbits.man")
        el = [v[k] for k in ("r", "th", "ph", "rd", "thd", "phd")]
        saved = man.dkep2dv
        try:
            if env.symbolic:
                from symx.stubs import carrier
                env.mod("beyond.frames.local")
                env.mod("beyond.orbits.forms")
                forms = __import__("importlib").import_module("beyond.orbits.forms")
                man.dkep2dv = lambda orb, **kw: env.vec(v["dt"], 0, v["dw"])
                fr = _NS(); fr.name = "EME2000"; fr.center = _NS(); fr.center.body = _NS(); fr.center.body.mu = 1
                o = carrier(el, date=SymDate(0), frame=fr, form=forms.SPHE)
                return {"dv": list(man.KeplerianImpulsiveMan(SymDate(0), da=1).dv(o))}
            from beyond.dates import Date
            from beyond.orbits import StateVector
            el = [7e6 * (1 + abs(float(v["r"])) % 3), float(v["th"]), float(v["ph"]), 1e3 * float(v["rd"]), 1e-3 * float(v["thd"]),
                  1e-3 * float(v["phd"])]
            man.dkep2dv = lambda orb, **kw: np.array([float(v["dt"]), 0.0, float(v["dw"])])
            o = StateVector(el, Date(2020, 1, 1), "spherical", "EME2000")
            got = np.array(man.KeplerianImpulsiveMan(o.date, da=1).dv(o), dtype=float)
            c = np.array(o.copy(form="cartesian"), dtype=float)
            t = c[3:] / np.linalg.norm(c[3:])
            w = np.cross(c[:3], c[3:])
            w /= np.linalg.norm(w)
            return {"dv": list(got - (float(v["dt"]) * t + float(v["dw"]) * w))}
        finally:
            man.dkep2dv = saved

    def ref(env, v, out):
        if not env.symbolic:
            return {"dv": [0, 0, 0]}
        c = cart(env, v)
        A = axes(env, dict(zip(RV, c)), "TNW")
        return {"dv": [v["dt"] * A[0][k] + v["dw"] * A[2][k] for k in range(3)]}
    return Case("kepler_impulsive/form", ins, run, ref, pre=pre, timeout=120, maxpaths=64, tol=1e-9, abs_tol=1e-9,
                signature="KeplerianImpulsiveMan.dv builds the TNW axes from the raw elements of a non-cartesian state",
                desc="KeplerianImpulsiveMan.dv on a state stored in spherical form: tangential part along the velocity, out-of-plane part "
                     "along r x v of the state's cartesian position and velocity")


def man_form_case(frame, kind):
    """ImpulsiveMan.dv / ContinuousMan.accel in QSW/TNW axes for an orbit stored in *spherical* form: the axes are those of the
    state's cartesian position and velocity, whatever the six numbers the state is stored as"""
    k0 = kepimp_form_case()
    ins = [i for i in k0.inputs if i[0] not in ("dt", "dw")] + [("d1", "real"), ("d2", "real"), ("d3", "real")]

    def cart(env, v):
        r, th, ph, rd, thd, phd = (v[k] for k in ("r", "th", "ph", "rd", "thd", "phd"))
        ct, st, cp, sp = env.cos(th), env.sin(th), env.cos(ph), env.sin(ph)
        pos = [r * cp * ct, r * cp * st, r * sp]
        vel = [rd * cp * ct - r * sp * ct * phd - r * cp * st * thd, rd * cp * st - r * sp * st * phd + r * cp * ct * thd,
               rd * sp + r * cp * phd]
        return pos + vel

    def run(env, v):
        man = env.mod("beyond.orbits.man") if env.symbolic else __import__("importlib").import_module("beyond.orbits.man")
        el = [v[k] for k in ("r", "th", "ph", "rd", "thd", "phd")]
        d = [v["d1"], v["d2"], v["d3"]]
        if env.symbolic:
            from symx.stubs import carrier
            env.mod("beyond.frames.local")
            env.mod("beyond.utils.matrix")
            env.mod("beyond.orbits.forms")
            man.log = _NoLog()
            forms = __import__("importlib").import_module("beyond.orbits.forms")
            fr = _NS(); fr.name = "EME2000"; fr.center = _NS(); fr.center.body = _NS(); fr.center.body.mu = 1
            o = carrier(el, date=SymDate(0), frame=fr, form=forms.SPHE)
            if kind == "impulsive":
                return {"dv": list(man.ImpulsiveMan(SymDate(var("tm")), d, frame=frame).dv(o))}
            return {"dv": list(man.ContinuousMan(SymDate(var("tm")), SymTD(R.const(1)), accel=d, frame=frame).accel(o))}
        from beyond.dates import Date
        from beyond.orbits import StateVector
        el = [7e6 * (1 + abs(float(v["r"])) % 3), float(v["th"]), float(v["ph"]), 1e3 * float(v["rd"]), 1e-3 * float(v["thd"]),
              1e-3 * float(v["phd"])]
        d = [float(x) for x in d]
        o = StateVector(el, Date(2020, 1, 1), "spherical", "EME2000")
        if kind == "impulsive":
            got = np.array(man.ImpulsiveMan(o.date, d, frame=frame).dv(o), dtype=float)
        else:
            got = np.array(man.ContinuousMan(o.date, _td(seconds=1), accel=d, frame=frame).accel(o), dtype=float)
        c = np.array(o.copy(form="cartesian"), dtype=float)
        w = np.cross(c[:3], c[3:])
        w /= np.linalg.norm(w)
        if frame == "QSW":
            a = c[:3] / np.linalg.norm(c[:3])
            A = [a, np.cross(w, a), w]
        else:
            a = c[3:] / np.linalg.norm(c[3:])
            A = [a, np.cross(w, a), w]
        return {"dv": list(got - (d[0] * A[0] + d[1] * A[1] + d[2] * A[2]))}

    def ref(env, v, out):
        if not env.symbolic:
            return {"dv": [0, 0, 0]}
        A = axes(env, dict(zip(RV, cart(env, v))), frame)
        d = [v["d1"], v["d2"], v["d3"]]
        return {"dv": [sum(d[k] * A[k][j] for k in range(3)) for j in range(3)]}
    return Case(f"man_form/{kind}/{frame}", ins, run, ref, pre=k0.pre, timeout=120, maxpaths=64, tol=1e-9, abs_tol=1e-9,
                signature=f"{kind} maneuver builds the {frame} axes from the raw elements of a non-cartesian state",
                desc=f"{kind} maneuver in {frame} axes on a state stored in spherical form: components along the axes of the state's "
                     "cartesian position and velocity")


def late_start_case(a_frac, tm_frac):
    """the real KeplerNum._iter + _make_step (Euler, free motion: zero acceleration) + the real Ephem (Lagrange order 2) for an
    iteration that starts a_frac steps after the epoch with an impulse tm_frac steps after the epoch (a_frac < tm_frac): every
    state yielded after the maneuver date carries the delta-v exactly once"""
    ins = [(k, "real") for k in RV + ["d1", "d2", "d3"]]
    from fractions import Fraction
    H = 60
    a, tm = Fraction(a_frac) * H, Fraction(tm_frac) * H

    def run(env, v):
        if not env.symbolic:
            return run_conc(env, v)
        kn = env.mod("beyond.propagators.keplernum")
        man = env.mod("beyond.orbits.man")
        eph = env.mod("beyond.orbits.ephem")
        env.mod("beyond.utils.interp")
        kn.sign = lambda x: (1 if bool(R.lift(x) >= 0) else -1)
        saved = (eph.StateVector, eph.Ephem.DEFAULT_ORDER)

        class Sv(type(carrier([0]))):
            def as_orbit(self, prop):
                return self

        def mk(vals, date, mans):
            o = carrier(vals, date=date, frame="EME2000", maneuvers=mans).view(Sv)
            o.date, o.frame, o.form, o.maneuvers = date, "EME2000", "cartesian", mans
            return o
        eph.StateVector = lambda arr, date, form, frame: mk(list(arr), date, [])
        eph.Ephem.DEFAULT_ORDER = 2
        kn.Ephem = eph.Ephem
        try:
            prop = kn.KeplerNum.__new__(kn.KeplerNum)
            prop.method, prop.step, prop.tol, prop.bodies, prop.frame = "euler", SymTD(H), None, [], "EME2000"
            m = man.ImpulsiveMan(SymDate(R.const(tm)), [v["d1"], v["d2"], v["d3"]])
            orb = mk(_rv(v), SymDate(0), [m])
            prop._orbit = orb
            prop._accel = lambda y: env.np.array([y[3], y[4], y[5], 0, 0, 0])
            out = list(prop._iter(start=SymDate(R.const(a)), stop=SymDate(R.const(a + 3 * H)), step=SymTD(H)))
            last = out[-1]
            return {"final_velocity": [last[3], last[4], last[5]], "n_points": len(out)}
        finally:
            eph.StateVector, eph.Ephem.DEFAULT_ORDER = saved

    def run_conc(env, v):
        from datetime import timedelta
        from beyond.dates import Date
        from beyond.orbits import Orbit
        from beyond.orbits.man import ImpulsiveMan
        from beyond.propagators.keplernum import KeplerNum
        from beyond.env.solarsystem import get_body
        d0 = Date(2020, 1, 1)
        dv = np.array([v["d1"], v["d2"], v["d3"]], dtype=float)

        def mk():
            o = Orbit([7e6, 0, 0, 0, 7.5e3, 0], d0, "cartesian", "EME2000", KeplerNum(timedelta(seconds=H), get_body("Earth")))
            o.maneuvers = [ImpulsiveMan(d0 + timedelta(seconds=float(tm)), dv)]
            return o
        late = list(mk().iter(start=d0 + timedelta(seconds=float(a)), stop=d0 + timedelta(seconds=float(a) + 10 * H), step=timedelta(seconds=H)))
        ref = [o for o in mk().iter(start=d0, stop=late[-1].date, step=timedelta(seconds=H / 4))
               if abs((o.date - late[-1].date).total_seconds()) < 1e-6][0]
        d = np.array(late[-1])[3:] - np.array(ref)[3:]
        n = max(1e-9, float(np.linalg.norm(dv)))
        return {"final_velocity": list(d / n), "n_points": 4}

    def ref(env, v, out):
        if not env.symbolic:
            return {"final_velocity": [0, 0, 0], "n_points": 4}
        return {"final_velocity": [v["vx"] + v["d1"], v["vy"] + v["d2"], v["vz"] + v["d3"]], "n_points": 4}
    return Case(f"late_start/{a_frac}-{tm_frac}", ins, run, ref, timeout=120, maxpaths=400, tol=1e-3, abs_tol=1e-3,
                signature="KeplerNum._iter: impulse shortly after a start later than the epoch pollutes the start state",
                desc=f"numerical iteration starting {a_frac} step after the epoch, impulse {tm_frac} step after the epoch: the states after "
                     "the maneuver carry its delta-v exactly once")


def all_cases(tier):
    cs = [local_case("QSW"), local_case("TNW")]
    for fr in (None, "QSW", "TNW"):
        for kind in ("impulsive", "cont_dv", "cont_accel"):
            cs.append(man_case(fr, kind))
    cs += [window_case(p) for p in ("start", "median", "stop")]
    cs += [tiling_case(bounds(tier)["tiles"]), makestep_case(), dkep_case(), dkep_norm_case(), kepcont_case(), kepimp_form_case()] + [man_form_case(f, k) for f in ("QSW", "TNW") for k in ("impulsive", "cont_accel")] + [late_start_case("1/2", "3/4"),
           late_start_case("1", "3/2"), late_start_case("3/2", "7/4")]
    return cs


def groups(tier):
    return {c.name.replace("/", "_"): (lambda c=c: run_cases([c])) for c in all_cases(tier)}


def replay(ob, model):
    return replay_cases(all_cases("thorough") + all_cases("quick"), ob, model)
