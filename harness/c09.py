"""C09 -- ephemeris interpolation is exact at nodes and reproduces polynomials (DESIGN.md section C09)."""
import importlib

import numpy as np
import z3

from symx import core, solve, zstr
from symx.case import Case, Holds, run_cases, replay_cases, Env
from symx.core import R, CTX, SB, explore, var
from symx.zstr import SymInt

PROPERTY = "C09"
FUNCS = ["beyond.utils.interp:Interp.__call__", "beyond.utils.interp:Interp._prev_idx", "beyond.utils.interp:Interp._linear",
         "beyond.utils.interp:Interp._lagrange", "beyond.utils.interp:DatedInterp.__call__", "beyond.orbits.ephem:Ephem.interpolate"]
STUBS = ["tables of symbolic reals in object-dtype arrays (real numpy tile/repeat/diag/mask/prod/@)",
         "window arithmetic: _prev_idx stubbed by a symbolic index, len() of the table symbolic, the slice statement records "
         "(start, stop) and cuts the path", "Date -> object with a symbolic _mjd (DatedInterp)"]
ASSUMPTIONS = ["reals instead of binary64 (bit-precise node exactness is outside)", "strictly increasing abscissae"]
OUTSIDE = ["'within centimetres for a smooth orbit' (needs a derivative bound of the orbit: analysis)",
           "polynomial reproduction for orders above 6 (orders 7 and 8 exhaust 3.5 GB / 900 s per query in z3's non-linear "
           "arithmetic; for those orders the value is checked to be the Lagrange-basis combination over the right window, and "
           "exact at the nodes, from which reproduction follows by the uniqueness of the interpolating polynomial -- a step not "
           "made by the solver)", "bit-precise exactness at nodes in binary64"]


def bounds(tier):
    q = tier == "quick"
    return {"prev_idx_table_len": 8 if q else 16, "lagrange_orders": [2, 3, 4, 5, 6],
            "basis_orders": [7, 8] if q else [7, 8, 9, 10, 12],
            "window_orders": "2..12 (symbolic)", "table_len_for_reproduction": "order + 2"}


def interp_mod(env):
    return env.mod("beyond.utils.interp")


# --------------------------------------------------------------------------- (a) binary search
def previdx_case(n):
    ins = [(f"x{i}", "real") for i in range(n)] + [("x", "real")]

    def pre(v):
        return [v[f"x{i}"] < v[f"x{i + 1}"] for i in range(n - 1)] + [v["x0"] <= v["x"], v["x"] <= v[f"x{n - 1}"]]

    def run(env, v):
        m = interp_mod(env)
        it = m.Interp.__new__(m.Interp)
        it.xs = env.vec(*[v[f"x{i}"] for i in range(n)])
        i = it._prev_idx(v["x"])
        xs = [v[f"x{k}"] for k in range(n)]
        if env.symbolic:
            ok = ((xs[i] < v["x"]) & (v["x"] <= xs[i + 1])) | SB(z3.And(z3.BoolVal(i == 0), (v["x"] == xs[0]).t)) if i + 1 < n \
                else SB(z3.BoolVal(False))
            return {"bracket": Holds(ok), "index": i}
        ok = i + 1 < n and ((xs[i] < v["x"] <= xs[i + 1]) or (i == 0 and v["x"] == xs[0]))
        return {"bracket": Holds(ok), "index": i}

    def ref(env, v, out):
        xs = [v[f"x{k}"] for k in range(n)]
        j = 0
        for k in range(n - 1):
            if xs[k] < v["x"]:
                j = k
        return {"bracket": None, "index": j}
    return Case(f"prev_idx/{n}", ins, run, ref, pre=pre, maxpaths=200, tol=0, abs_tol=0.5,
                desc=f"_prev_idx on any strictly increasing table of {n} abscissae and any x inside: returns i with xs[i] < x <= xs[i+1] "
                     "(i = 0 when x = xs[0]); all paths of the binary search")


# --------------------------------------------------------------------------- (b) window arithmetic, table length symbolic
class _Cut(Exception):
    pass


def window_group():
    m = importlib.import_module("beyond.utils.interp")
    obs = []
    npaths = 0
    n, k, p = z3.Int("n"), z3.Int("order"), z3.Int("prev_idx")

    class Table:
        def __getitem__(self, sl):
            rec["slice"] = (sl.start, sl.stop)
            raise _Cut()

    rec = {}

    def setup():
        CTX.pre += [k >= 2, k <= 12, n >= k, p >= 0, p <= n - 2]

    def body():
        rec.clear()
        it = m.Interp.__new__(m.Interp)
        it.order = SymInt(k)
        it.xs = Table()
        it.ys = Table()
        it._prev_idx = lambda x: SymInt(p)
        m.len = lambda obj: SymInt(n) if isinstance(obj, Table) else len(obj)
        try:
            it._lagrange(None)
        except _Cut:
            pass
        finally:
            del m.len
        return rec["slice"]

    for pc, (start, stop) in explore(body, maxpaths=50, setup=setup):
        npaths += 1
        s_, e_ = (start.t if isinstance(start, SymInt) else z3.IntVal(start)), (stop.t if isinstance(stop, SymInt) else z3.IntVal(stop))
        eff_stop = z3.If(e_ > n, n, e_)            # Python slices clip at the end of the table
        good = z3.And(s_ >= 0, eff_stop - s_ == k, s_ <= p, p + 1 < eff_stop, e_ >= 0)
        s = z3.Solver()
        for c in list(CTX.pre) + list(pc):
            s.add(c)
        s.add(z3.Not(good))
        obs.append(dict(name=f"window/p{npaths}", smt2=s.sexpr(), trivial=False, expect="unsat", vars=["n", "order", "prev_idx"],
                        timeout=60, solver="z3",
                        desc="for every table length n >= order, order 2..12 and prev_idx in [0, n-2] the slice taken by _lagrange has "
                             "exactly `order` points, lies inside the table and contains prev_idx and prev_idx+1",
                        replay={"kind": "window"}, n_constraints=len(pc) + len(CTX.pre), tags=["window"]))
        tw = z3.Solver()
        for c in list(CTX.pre) + list(pc):
            tw.add(c)
        obs.append(dict(name=f"window/p{npaths}/twin", smt2=tw.sexpr(), trivial=False, expect="sat", vars=[], timeout=30, solver="z3",
                        desc="twin", replay=None, n_constraints=len(pc), tags=["twin"]))
    return obs, {"paths": npaths}


# --------------------------------------------------------------------------- (c,d) reproduction of polynomials / node exactness
def lagrange_case(order, where):
    """table of order+2 symbolic nodes; the query point sits in the first / a middle / the last interval (prev_idx concrete per
    case, the real _prev_idx is covered by prev_idx/*); data = monomials 1, x, ..., x^(order-1)"""
    n = order + 2
    ins = [(f"x{i}", "real") for i in range(n)] + [("x", "real")]
    pidx = {"first": 0, "middle": n // 2 - 1, "last": n - 2}[where]

    def pre(v):
        return [v[f"x{i}"] < v[f"x{i + 1}"] for i in range(n - 1)] + [v[f"x{pidx}"] < v["x"], v["x"] <= v[f"x{pidx + 1}"]]

    def run(env, v):
        m = interp_mod(env)
        xs = [v[f"x{i}"] for i in range(n)]
        out = {}
        for deg in range(order):
            ys = [x ** deg if deg else (x * 0 + 1) for x in xs]
            it = m.Interp(env.vec(*xs), env.vec(*ys), "lagrange", order)
            if env.symbolic:
                it._prev_idx = lambda x: pidx
            out[f"deg{deg}"] = it(v["x"])
        return out

    def ref(env, v, out):
        return {f"deg{deg}": (v["x"] ** deg if deg else 1) for deg in range(order)}
    return Case(f"lagrange/{order}/{where}", ins, run, ref, pre=pre, timeout=90 if order <= 6 else 900, tol=1e-7, abs_tol=1e-9,
                use_nf=False,
                desc=f"Lagrange interpolation of order {order} reproduces 1, x, ..., x^{order - 1} for any distinct nodes, query point in "
                     f"the {where} interval of the table (edge windows included)")


def basis_case(order, where):
    """orders beyond the reach of the reproduction obligations: the value is sum_j y_j prod_{m != j} (x - x_m)/(x_j - x_m) over
    the documented window (order nodes centred on the query interval, shifted inside the table at the edges) for arbitrary data"""
    n = order + 2
    ins = [(f"x{i}", "real") for i in range(n)] + [(f"y{i}", "real") for i in range(n)] + [("x", "real")]
    pidx = {"first": 0, "middle": n // 2 - 1, "last": n - 2}[where]

    def pre(v):
        return [v[f"x{i}"] < v[f"x{i + 1}"] for i in range(n - 1)] + [v[f"x{pidx}"] < v["x"], v["x"] <= v[f"x{pidx + 1}"]]

    def run(env, v):
        m = interp_mod(env)
        it = m.Interp(env.vec(*[v[f"x{i}"] for i in range(n)]), env.vec(*[v[f"y{i}"] for i in range(n)]), "lagrange", order)
        if env.symbolic:
            it._prev_idx = lambda x: pidx
        return {"value": it(v["x"])}

    def ref(env, v, out):
        lo = pidx - order // 2 + 1                     # order//2 nodes up to and including prev_idx, the rest after it
        lo = max(0, min(lo, n - order))
        idx = range(lo, lo + order)
        tot = 0
        for j in idx:
            w = v[f"y{j}"]
            for k in idx:
                if k != j:
                    w = w * (v["x"] - v[f"x{k}"]) / (v[f"x{j}"] - v[f"x{k}"])
            tot = tot + w
        return {"value": tot}
    return Case(f"basis/{order}/{where}", ins, run, ref, pre=pre, timeout=120, tol=1e-7, abs_tol=1e-9, use_nf=False,
                desc=f"Lagrange order {order}, query in the {where} interval: the value is the Lagrange-basis combination of the "
                     "tabulated data over the centred (edge-shifted) window of `order` nodes")


def node_case(order):
    """at a node the interpolated value is the tabulated one (reals)"""
    n = order + 1
    ins = [(f"x{i}", "real") for i in range(n)] + [(f"y{i}", "real") for i in range(n)]

    def pre(v):
        return [v[f"x{i}"] < v[f"x{i + 1}"] for i in range(n - 1)]

    def run(env, v):
        m = interp_mod(env)
        xs = [v[f"x{i}"] for i in range(n)]
        ys = [v[f"y{i}"] for i in range(n)]
        out = {}
        for meth in ("lagrange", "linear"):
            it = m.Interp(env.vec(*xs), env.vec(*ys), meth, order)
            for j in range(n):
                out[f"{meth}@{j}"] = it(xs[j])
        return out

    def ref(env, v, out):
        return {f"{meth}@{j}": v[f"y{j}"] for meth in ("lagrange", "linear") for j in range(n)}
    return Case(f"node/{order}", ins, run, ref, pre=pre, timeout=90, maxpaths=400, tol=1e-9, abs_tol=1e-9,
                desc=f"interpolating (Lagrange order {order}, and linear) at any node of the table returns the tabulated value, "
                     "first and last node included; the real binary search is executed")


def linear_case():
    n = 4
    ins = [(f"x{i}", "real") for i in range(n)] + [(f"y{i}", "real") for i in range(n)] + [("x", "real")]

    def pre(v):
        return [v[f"x{i}"] < v[f"x{i + 1}"] for i in range(n - 1)] + [v["x0"] <= v["x"], v["x"] <= v[f"x{n - 1}"]]

    def run(env, v):
        m = interp_mod(env)
        it = m.Interp(env.vec(*[v[f"x{i}"] for i in range(n)]), env.vec(*[v[f"y{i}"] for i in range(n)]), "linear")
        return {"y": it(v["x"])}

    def ref(env, v, out):
        xs = [v[f"x{i}"] for i in range(n)]
        ys = [v[f"y{i}"] for i in range(n)]
        for j in range(n - 1):
            if (xs[j] <= v["x"]) and (v["x"] <= xs[j + 1]):
                return {"y": ys[j] + (ys[j + 1] - ys[j]) * (v["x"] - xs[j]) / (xs[j + 1] - xs[j])}
        raise AssertionError("x outside")
    return Case("linear", ins, run, ref, pre=pre, timeout=60, maxpaths=200, tol=1e-9, abs_tol=1e-9,
                desc="linear interpolation equals the piecewise-linear interpolant of the table on every interval")


# --------------------------------------------------------------------------- (e) outside the table: refused
def outside_case(method):
    n = 4
    ins = [(f"x{i}", "real") for i in range(n)] + [("x", "real")]

    def pre(v):
        return [v[f"x{i}"] < v[f"x{i + 1}"] for i in range(n - 1)]

    def run(env, v):
        m = interp_mod(env)
        xs = [v[f"x{i}"] for i in range(n)]

        class D:
            def __init__(self, mjd):
                self._mjd = mjd
        it = m.DatedInterp([D(x) for x in xs], env.vec(*[x * 2 for x in xs]), method, 3)
        inside = (xs[0] <= v["x"]) and (v["x"] <= xs[-1])
        try:
            it(D(v["x"]))
            refused = 0
            msg_ok = 1
        except ValueError as e:
            refused = 1
            msg_ok = 1 if str(e).startswith("Date ") else 0
        return {"refused_iff_outside": refused + (1 if inside else 0), "message": msg_ok}

    def ref(env, v, out):
        return {"refused_iff_outside": 1, "message": 1}
    return Case(f"outside/{method}", ins, run, ref, pre=pre, timeout=60, maxpaths=200, tol=0, abs_tol=0.5,
                desc=f"DatedInterp ({method}) returns a value iff the date lies in [first, last]; outside it raises ValueError with the "
                     "date-range message, never an extrapolated value")


def ephem_case(change):
    """the real Ephem on three symbolic points: interpolating at one of its own dates returns that point, an interpolated point
    carries the ephemeris' frame -- also after the ephemeris has been interpolated once and then moved to another frame
    (`ephem.frame = ...`, the usage shown in the class docstring); `change` = False: no frame change (baseline)"""
    ins = [(f"t{i}", "real") for i in range(3)] + [(f"p{i}{k}", "real") for i in range(3) for k in range(6)] + \
          [("x", "real"), ("psi", "angle", {"lo": "free"})] + ([("sc", "real")] if change == "form" else [])

    def pre(v):
        return [v["t0"] < v["t1"], v["t1"] < v["t2"], v["t0"] <= v["x"], v["x"] <= v["t2"]]

    def run(env, v):
        import importlib
        if env.symbolic:
            from symx.stubs import SymDate, carrier
            eph = env.mod("beyond.orbits.ephem")
            fr = env.mod("beyond.frames.frames")
            for mname in ("beyond.utils.matrix", "beyond.frames.orient", "beyond.frames.center", "beyond.utils.interp"):
                env.mod(mname)
            iau = env.mod("beyond.frames.iau1980")
            importlib.import_module("beyond.frames.orient").iau1980 = iau
            rot3 = importlib.import_module("beyond.utils.matrix").rot3
            iau.precesion = lambda date: rot3(v["psi"])          # MOD <-> EME2000: an arbitrary rotation about z
            forms = importlib.import_module("beyond.orbits.forms")

            class D(SymDate):
                _mjd = property(lambda self: self.t)
            saved = eph.StateVector
            eph.StateVector = lambda arr, date, form, frame: carrier(list(arr), date=date, frame=frame, form=form)
            try:
                dates = [D(v[f"t{i}"]) for i in range(3)]
                orbs = [carrier([v[f"p{i}{k}"] for k in range(6)], date=dates[i], frame=fr.EME2000, form=forms.CART) for i in range(3)]
                if change == "form":
                    # the form conversion itself is C01's: here it is a stub, an arbitrary scaling `sc` of the six numbers
                    from symx.stubs import Carrier

                    class FC(Carrier):
                        @property
                        def form(self):
                            return self.__dict__.get("form")

                        @form.setter
                        def form(self, new):
                            if self.__dict__.get("form") is forms.CART and new == "spherical":
                                for k in range(6):
                                    np.ndarray.__setitem__(self, k, np.ndarray.__getitem__(self, k) * v["sc"])
                            self.__dict__["form"] = new
                    orbs = [o.view(FC) for o in orbs]
                    for o, d in zip(orbs, dates):
                        o.date, o.frame = d, fr.EME2000
                        o.__dict__["form"] = forms.CART
                e = eph.Ephem(orbs, method="linear")
                e.interpolate(D(v["x"]))                        # first use: the interpolator is built
                if change == "form":
                    e.form = "spherical"
                    node = e.interpolate(dates[1])
                    mid = e.interpolate(D(v["x"]))
                    lab = node.form == "spherical" and mid.form == "spherical" and all(o.form == "spherical" for o in e)
                    return {"node": [node[k] - e[1][k] for k in range(6)], "label": Holds(SB(z3.BoolVal(bool(lab)))),
                            "between": [_between(mid[k], e, v, k) for k in range(6)]}
                if change:
                    e.frame = fr.MOD
                node = e.interpolate(dates[1])
                mid = e.interpolate(D(v["x"]))
                w = (v["x"] - v["t0"]) / (v["t1"] - v["t0"]) if bool(v["x"] <= v["t1"]) else None
                lab = getattr(node.frame, "name", node.frame) == ("MOD" if change else "EME2000") and \
                    getattr(mid.frame, "name", mid.frame) == ("MOD" if change else "EME2000")
                return {"node": [node[k] - e[1][k] for k in range(6)], "label": Holds(SB(z3.BoolVal(bool(lab)))),
                        "between": [_between(mid[k], e, v, k) for k in range(6)]}
            finally:
                eph.StateVector = saved
        from beyond.orbits import StateVector, Ephem
        from beyond.dates import Date
        d0 = Date(2020, 1, 1)
        ts = sorted([float(v["t0"]), float(v["t1"]), float(v["t2"])])
        from datetime import timedelta
        dates = [d0 + timedelta(seconds=600 * (t - ts[0]) / max(ts[2] - ts[0], 1e-9)) for t in ts]
        orbs = [StateVector([7e6 + 1e5 * v[f"p{i}0"], 1e5 * v[f"p{i}1"], 1e5 * v[f"p{i}2"], 1e2 * v[f"p{i}3"], 7.5e3 + 1e2 * v[f"p{i}4"],
                             1e2 * v[f"p{i}5"]], dates[i], "cartesian", "EME2000") for i in range(3)]
        e = Ephem(orbs, method="linear")
        xq = dates[0] + timedelta(seconds=600 * (min(max(float(v["x"]), ts[0]), ts[2]) - ts[0]) / max(ts[2] - ts[0], 1e-9))
        e.interpolate(xq)
        if change == "form":
            e.form = "spherical"
        elif change:
            e.frame = "MOD"
        node = e.interpolate(dates[1])
        mid = e.interpolate(xq)
        lab = node.frame.name == ("MOD" if change is True else "EME2000") and mid.frame.name == node.frame.name
        if change == "form":
            lab = lab and node.form.name == "spherical" and mid.form.name == "spherical"
        lo, hi = (0, 1) if xq <= dates[1] else (1, 2)
        w = (xq - dates[lo]).total_seconds() / (dates[hi] - dates[lo]).total_seconds()
        exp = np.array(e[lo]) * (1 - w) + np.array(e[hi]) * w
        sc = np.array([7e6] * 3 + [7.5e3] * 3) * 1e-3
        if change == "form":
            sc = np.array([7e6, 1, 1, 7.5e3, 1e-3, 1e-3]) * 1e-3
        return {"node": list((np.array(node) - np.array(e[1])) / sc), "label": Holds(bool(lab)),
                "between": list((np.array(mid) - exp) / sc)}

    def _between(val, e, v, k):
        # linear interpolant of the *current* points of the ephemeris
        if bool(v["x"] <= v["t1"]):
            w = (v["x"] - v["t0"]) / (v["t1"] - v["t0"])
            return val - (e[0][k] * (1 - w) + e[1][k] * w)
        w = (v["x"] - v["t1"]) / (v["t2"] - v["t1"])
        return val - (e[1][k] * (1 - w) + e[2][k] * w)

    def ref(env, v, out):
        return {"node": [0] * 6, "label": None, "between": [0] * 6}
    if change == "form":
        return Case("ephem/form_change", ins, run, ref, pre=pre, timeout=90, maxpaths=200, tol=0, abs_tol=1e-7,
                    signature="Ephem.interpolate after a form change returns stale coordinates",
                    desc="Ephem (linear): after a first interpolation and `ephem.form = spherical` (the conversion of the six numbers "
                         "stubbed by an arbitrary scaling; real conversion in the replay) interpolation at a node returns the node, "
                         "between nodes the linear interpolant of the ephemeris' current points, labelled with the new form")
    return Case(f"ephem/{'frame_change' if change else 'plain'}", ins, run, ref, pre=pre, timeout=90, maxpaths=200, tol=0, abs_tol=1e-7,
                signature="Ephem.interpolate after a frame change returns stale coordinates" if change else None,
                desc="Ephem (linear): interpolation at a node returns the node, between nodes the linear interpolant of the "
                     "ephemeris' current points, labelled with the ephemeris' frame" + (" -- after `ephem.frame = MOD` following a first "
                     "interpolation" if change else ""))


def ephem_setting_case(kind):
    """`ephem.order = k` / `ephem.method = m` take effect whether or not the ephemeris has been interpolated before: four symbolic
    points of a quadratic trajectory, the setting changed to Lagrange order 3 (which reproduces it exactly), query anywhere in
    the table.  kind: 'order_after' (built with order 2, interpolated once, then order = 3), 'method_after' (built linear,
    interpolated once, then method = lagrange and order = 3), 'order_before' (order set before the first use)"""
    ins = [(f"t{i}", "real") for i in range(4)] + [("a", "real"), ("b", "real"), ("c", "real"), ("x", "real")]

    def pre(v):
        return [v[f"t{i}"] < v[f"t{i + 1}"] for i in range(3)] + [v["t0"] <= v["x"], v["x"] <= v["t3"]]

    def settings(e, interpolate):
        if kind == "order_after":
            interpolate()
            e.order = 3
        elif kind == "method_after":
            interpolate()
            e.method = "lagrange"
            e.order = 3
        else:
            e.order = 3
        return e.order == 3 and e.method == "lagrange"

    def run(env, v):
        import importlib
        first = dict(method="linear", order=3) if kind == "method_after" else dict(method="lagrange", order=2)
        if env.symbolic:
            from symx.stubs import SymDate, carrier
            eph = env.mod("beyond.orbits.ephem")
            fr = env.mod("beyond.frames.frames")
            env.mod("beyond.utils.interp")
            forms = importlib.import_module("beyond.orbits.forms")

            class D(SymDate):
                _mjd = property(lambda self: self.t)
            saved = eph.StateVector
            eph.StateVector = lambda arr, date, form, frame: carrier(list(arr), date=date, frame=frame, form=form)
            try:
                q = lambda t, k: (k + 1) * (v["a"] + v["b"] * t + v["c"] * t * t)
                dates = [D(v[f"t{i}"]) for i in range(4)]
                orbs = [carrier([q(v[f"t{i}"], k) for k in range(6)], date=dates[i], frame=fr.EME2000, form=forms.CART) for i in range(4)]
                e = eph.Ephem(orbs, **first)
                seen = settings(e, lambda: e.interpolate(D(v["x"])))
                mid = e.interpolate(D(v["x"]))
                return {"setting_read_back": Holds(SB(z3.BoolVal(bool(seen)))), "value": [mid[k] - q(v["x"], k) for k in range(6)]}
            finally:
                eph.StateVector = saved
        from beyond.orbits import StateVector, Ephem
        from beyond.dates import Date
        from datetime import timedelta
        d0 = Date(2020, 1, 1)
        ts = sorted(float(v[f"t{i}"]) for i in range(4))
        span = max(ts[3] - ts[0], 1e-9)
        sec = lambda t: 600 * (t - ts[0]) / span
        a, b, c = float(v["a"]), float(v["b"]), float(v["c"])
        q = lambda s, k: (k + 1) * (a + b * s / 600 + c * (s / 600) ** 2)
        dates = [d0 + timedelta(seconds=sec(t)) for t in ts]
        orbs = [StateVector([q((d - d0).total_seconds(), k) for k in range(6)], d, "cartesian", "EME2000") for d in dates]
        e = Ephem(orbs, **first)
        xq = d0 + timedelta(seconds=sec(min(max(float(v["x"]), ts[0]), ts[3])))
        seen = settings(e, lambda: e.interpolate(xq))
        mid = e.interpolate(xq)
        sc = max(1.0, abs(a), abs(b), abs(c))
        return {"setting_read_back": Holds(bool(seen)), "value": [(float(mid[k]) - q((xq - d0).total_seconds(), k)) / sc for k in range(6)]}

    def ref(env, v, out):
        return {"setting_read_back": None, "value": [0] * 6}
    return Case(f"ephem/setting/{kind}", ins, run, ref, pre=pre, timeout=90, maxpaths=200, tol=0, abs_tol=1e-7,
                desc=f"Ephem on four points of a quadratic trajectory, {kind.replace('_', ' ')} the first interpolation: the new "
                     "order/method reads back and Lagrange order 3 reproduces the trajectory at any date of the table")


def all_cases(tier):
    b = bounds(tier)
    cs = [previdx_case(n) for n in range(2, b["prev_idx_table_len"] + 1)]
    for o in b["lagrange_orders"]:
        for w in ("first", "middle", "last"):
            cs.append(lagrange_case(o, w))
    for o in (7, 8) if tier == "quick" else (7, 8, 9, 10, 12):
        for w in ("first", "middle", "last"):
            cs.append(basis_case(o, w))
    cs += [node_case(2), node_case(3), node_case(4), linear_case(), outside_case("lagrange"), outside_case("linear")]
    cs += [ephem_case(False), ephem_case(True), ephem_case("form")]
    cs += [ephem_setting_case(k) for k in ("order_after", "method_after", "order_before")]
    if tier != "quick":
        cs.append(node_case(8))
    return cs


def groups(tier):
    g = {c.name.replace("/", "_"): (lambda c=c: run_cases([c])) for c in all_cases(tier)}
    g["window"] = window_group
    return g


def replay(ob, model):
    rp = ob.get("replay") or {}
    if rp.get("kind") == "window":
        from beyond.utils.interp import Interp
        n, k, p = int(model.get("n", 8)), int(model.get("order", 8)), int(model.get("prev_idx", 0))
        xs = np.arange(n, dtype=float)
        it = Interp(xs, xs ** 2, "lagrange", k)
        x = p + 0.5
        try:
            got = float(it(x))
            ok = abs(got - x * x) < 1e-6 * max(1.0, x * x) if k >= 3 else True
            detail = f"n={n} order={k} prev_idx={p}: value {got} vs {x * x}"
        except Exception as e:  # noqa
            ok, detail = False, f"n={n} order={k} prev_idx={p}: {type(e).__name__}: {e}"
        return {"reproduced": not ok, "signature": "Interp._lagrange window", "detail": detail}
    return replay_cases(all_cases("thorough"), ob, model)
