"""C08 -- propagation and iteration contract; independence from call history (DESIGN.md section C08)."""
import importlib
import types
from datetime import timedelta as _td

import numpy as np
import z3

from symx import core, dtmodel
from symx.case import Case, Holds, run_cases, replay_cases
from symx.core import R, CTX, SB, var, uf
from symx.dtmodel import SF, SI, STD, SDT
from harness import c03

PROPERTY = "C08"
FUNCS = ["beyond.propagators.base:AnalyticalPropagator.iter", "beyond.propagators.base:AnalyticalPropagator._iter",
         "beyond.propagators.base:NumericalPropagator.iter", "beyond.propagators.base:NumericalPropagator.propagate",
         "beyond.dates.date:DateRange.__iter__", "beyond.orbits.ephem:Ephem.iter", "beyond.orbits.ephem:Ephem.__init__",
         "beyond.propagators.keplernum:KeplerNum._iter", "beyond.orbits.orbit:Orbit.propagate", "beyond.orbits.orbit:Orbit.iter",
         "beyond.propagators.listeners:Speaker.clear_listeners"]
STUBS = ["dates: the real Date class on the exact-real model (C03); symbolic start / span / step", "propagate(date) -> record whose "
         "payload is an uninterpreted function of the instant", "KeplerNum._make_step -> 'advance by exactly the requested step' "
         "(the integrator itself is C06); Ephem.interpolate -> record tagged with the requested instant",
         "listeners -> objects recording clear()/check() calls"]
ASSUMPTIONS = ["exact reals for date arithmetic", "bounded number of yielded points (unwinding bound, asserted)"]
OUTSIDE = ["numeric equality of resampled numerical states with direct propagation (interpolation error: C06/C09)"]


def bounds(tier):
    return {"max_points": 4 if tier == "quick" else 6, "ephem_table": 3, "keplernum_steps": 3 if tier == "quick" else 5}


INS = c03.EOP_IN + [("d", "int"), ("s", "real"), ("off", "real"), ("span", "real"), ("step", "real")]


def base_pre(v, K, sign=None):
    p = c03.eop_pre(v) + [v["d"] >= 41317, v["d"] <= 58000, v["s"] >= 0, v["s"] < 86400, v["off"] > -1e5, v["off"] < 1e5]
    if sign == 1:
        p += [v["step"] > 0, v["span"] >= 0, v["span"] < K * v["step"]]
    elif sign == -1:
        p += [v["step"] > 0, v["span"] < 0, -v["span"] < K * v["step"]]
    return p


class Rec:
    """what a stub propagator returns: remembers the requested date"""
    def __init__(self, date):
        self.date = date
        self.event = None

    def copy(self):
        r = Rec(self.date)
        return r


def tsec(env, date, ref):
    x = (date - ref).total_seconds()
    return x.r if isinstance(x, (SF, SI)) else x


def analytical_case(sign, stop_kind, K):
    """AnalyticalPropagator.iter(start, stop, step): exactly start + k*step (step sign fixed up for backward ranges), first to last
    inclusive, nothing beyond stop, each yielded state is propagate(date); listeners cleared first"""
    def run(env, v):
        m = c03.datemod(env)
        c03.install_eop(env, m, v)
        try:
            base = env.mod("beyond.propagators.base") if env.symbolic else importlib.import_module("beyond.propagators.base")
            if env.symbolic:
                base.Date = m.Date
                base.timedelta = STD
            epoch = c03.mk_date(env, m, v["d"], v["s"], "UTC")
            td = (lambda x: STD.of(x)) if env.symbolic else (lambda x: _td(seconds=float(x)))
            start = epoch + td(v["off"])
            stop = td(v["span"]) if stop_kind == "timedelta" else start + td(v["span"])
            calls = []
            cleared = []

            class L:
                def clear(self):
                    cleared.append(1)

                def check(self, orb):
                    return False
            lst = [L()] if env.symbolic else []

            class P(base.AnalyticalPropagator):
                orbit = types.SimpleNamespace(date=epoch)

                def propagate(self, date):
                    calls.append(date)
                    return Rec(date)
            out = {}
            n = 0
            for k, orb in enumerate(P().iter(start=start, stop=stop, step=td(v["step"]), listeners=lst)):
                out[f"t{k}"] = tsec(env, orb.date, start)
                n += 1
                if k > K + 1:
                    raise AssertionError("unwinding bound exceeded")
            out["count"] = n
            out["one_propagate_per_point"] = 1 if len(calls) == n else 0
            out["listeners_cleared_once"] = 1 if (len(cleared) == 1 or not env.symbolic) else 0
            return out
        finally:
            if not env.symbolic:
                c03.restore_eop()

    def ref(env, v, out):
        n = out["count"]
        cnt = 0
        for k in range(K + 2):
            offk = k * v["step"]
            if (offk <= v["span"]) if sign > 0 else (-offk >= v["span"]):
                cnt += 1
        r = {"count": cnt, "one_propagate_per_point": 1, "listeners_cleared_once": 1}
        for k in range(n):
            r[f"t{k}"] = sign * k * v["step"]
        return r
    tag = ("fwd" if sign > 0 else "bwd") + "_" + stop_kind
    return Case(f"analytical/{tag}", INS, run, ref, pre=lambda v: base_pre(v, K, sign), timeout=90, maxpaths=400, tol=1e-9, abs_tol=3e-6,
                desc=f"AnalyticalPropagator.iter, {'forward' if sign > 0 else 'backward'} range, stop given as {stop_kind}, start anywhere "
                     "w.r.t. the epoch: yields exactly start + k*step up to and including stop, one propagate() per point, listeners cleared")


def dates_case():
    """iteration over an explicit list of dates yields exactly those dates in order"""
    def run(env, v):
        m = c03.datemod(env)
        c03.install_eop(env, m, v)
        try:
            base = env.mod("beyond.propagators.base") if env.symbolic else importlib.import_module("beyond.propagators.base")
            epoch = c03.mk_date(env, m, v["d"], v["s"], "UTC")
            td = (lambda x: STD.of(x)) if env.symbolic else (lambda x: _td(seconds=float(x)))
            dates = [epoch + td(v["off"]), epoch + td(v["span"]), epoch + td(v["step"])]

            class P(base.AnalyticalPropagator):
                orbit = types.SimpleNamespace(date=epoch)

                def propagate(self, date):
                    return Rec(date)
            got = [tsec(env, o.date, epoch) for o in P().iter(dates=dates)]
            return {"n": len(got), "dates": got, "empty_list_count": len(list(P().iter(dates=[]))),
                    "generator_count": len(list(P().iter(dates=(x for x in dates))))}
        finally:
            if not env.symbolic:
                c03.restore_eop()

    def ref(env, v, out):
        return {"n": 3, "dates": [v["off"], v["span"], v["step"]], "empty_list_count": 0, "generator_count": 3}
    return Case("analytical/dates", INS, run, ref, pre=lambda v: base_pre(v, 1), timeout=60, maxpaths=50, tol=1e-9, abs_tol=3e-6,
                desc="iter(dates=[...]) yields exactly the given dates, in the given order (any order, any position w.r.t. the epoch); "
                     "an empty list yields nothing, a generator of dates is consumed like a list")


def ephem_case(mode, K):
    """Ephem.iter on a 3-point table: (step) start + k*step inside [start, stop]; (nostep) the table's own points inside
    [start, stop], as copies; strict range check"""
    ins = INS + [("g1", "pos"), ("g2", "pos")]

    def pre(v):
        tot = v["g1"] + v["g2"]
        p = c03.eop_pre(v) + [v["d"] >= 41317, v["d"] <= 58000, v["s"] >= 0, v["s"] < 86400,
                              v["off"] >= 0, v["off"] <= tot, v["span"] >= 0, v["off"] + v["span"] <= tot]
        if mode == "step":
            p += [v["step"] > 0, v["span"] < K * v["step"]]
        return p

    def run(env, v):
        m = c03.datemod(env)
        c03.install_eop(env, m, v)
        try:
            eph = env.mod("beyond.orbits.ephem") if env.symbolic else importlib.import_module("beyond.orbits.ephem")
            if env.symbolic:
                eph.timedelta = STD
            t0 = c03.mk_date(env, m, v["d"], v["s"], "UTC")
            td = (lambda x: STD.of(x)) if env.symbolic else (lambda x: _td(seconds=float(x)))
            pts = [Rec(t0), Rec(t0 + td(v["g1"])), Rec(t0 + td(v["g1"] + v["g2"]))]
            if env.symbolic:
                e = eph.Ephem.__new__(eph.Ephem)
                e._orbits = pts                       # already sorted by construction (g1, g2 > 0)
                e._method, e._order = "linear", 2
            else:
                from beyond.orbits import StateVector
                pts = [StateVector([7e6 + k, 0, 0, 0, 7.5e3, 0], p.date, "cartesian", "EME2000") for k, p in enumerate(pts)]
                e = eph.Ephem(pts, method="linear")
            if env.symbolic:
                e.propagate = lambda date: Rec(date)
            start = t0 + td(v["off"])
            stop = start + td(v["span"])
            kw = {"start": start, "stop": stop}
            if mode == "step":
                kw["step"] = td(v["step"])
            cleared = []

            class Lst:
                prev = "stale state of an earlier iteration"

                def clear(self):
                    cleared.append(1)
                    self.prev = None

                def check(self, orb):
                    return False
            kw["listeners"] = [Lst()]
            if mode == "dates":
                kw = {"dates": [start, stop], "listeners": kw.get("listeners", [])}
            out = {}
            n = 0
            for k, o in enumerate(e.iter(**kw)):
                out[f"t{k}"] = tsec(env, o.date, t0)
                if mode == "nostep" and env.symbolic:
                    out[f"copy{k}"] = 1 if all(o is not p for p in pts) else 0
                n += 1
                if k > K + 2:
                    raise AssertionError("unwinding bound exceeded")
            out["count"] = n
            out["listeners_cleared_once"] = 1 if len(cleared) == 1 else 0
            if mode == "dates":
                # an explicit but empty list of dates yields nothing
                out["empty_list_count"] = len(list(e.iter(dates=[])))
            return out
        finally:
            if not env.symbolic:
                c03.restore_eop()

    def ref(env, v, out):
        n = out["count"]
        r = {"listeners_cleared_once": 1}
        if mode == "dates":
            r["empty_list_count"] = 0
            r["count"] = 2
            r["t0"] = v["off"]
            r["t1"] = v["off"] + v["span"]
            return r
        if mode == "step":
            cnt = 0
            for k in range(K + 3):
                if k * v["step"] <= v["span"]:
                    cnt += 1
            r["count"] = cnt
            for k in range(n):
                r[f"t{k}"] = v["off"] + k * v["step"]
        else:
            table = [0, v["g1"], v["g1"] + v["g2"]]
            inside = [t for t in table if (v["off"] <= t) and (t <= v["off"] + v["span"])]
            r["count"] = len(inside)
            for k in range(n):
                r[f"t{k}"] = inside[k] if k < len(inside) else -1
                if env.symbolic:
                    r[f"copy{k}"] = 1
        return r
    what = {"step": "with a step: start + k*step up to stop", "nostep": "without step: exactly the table points inside [start, stop], as copies",
            "dates": "over an explicit list of dates: exactly those dates"}[mode]
    return Case(f"ephem/{mode}", ins, run, ref, pre=pre, timeout=90, maxpaths=600, tol=1e-9, abs_tol=3e-6,
                desc=f"Ephem.iter on any 3-point table and any [start, stop] inside it, {what}; the listeners passed in are cleared "
                     "exactly once before the first point (re-used listener objects start from a clean state)")


def ephem_bwd_case(K):
    """Ephem.iter with a negative step from a later start to an earlier stop inside the table"""
    ins = INS + [("g1", "pos")]

    def pre(v):
        return c03.eop_pre(v) + [v["d"] >= 41317, v["d"] <= 58000, v["s"] >= 0, v["s"] < 86400, v["off"] >= 0, v["off"] <= v["g1"],
                                 v["span"] > 0, v["span"] <= v["off"], v["step"] > 0, v["span"] < K * v["step"]]

    def run(env, v):
        m = c03.datemod(env)
        c03.install_eop(env, m, v)
        try:
            eph = env.mod("beyond.orbits.ephem") if env.symbolic else importlib.import_module("beyond.orbits.ephem")
            if env.symbolic:
                eph.timedelta = STD
            t0 = c03.mk_date(env, m, v["d"], v["s"], "UTC")
            td = (lambda x: STD.of(x)) if env.symbolic else (lambda x: _td(seconds=float(x)))
            if env.symbolic:
                pts = [Rec(t0), Rec(t0 + td(v["g1"]))]
                e = eph.Ephem.__new__(eph.Ephem)
                e._orbits = pts
                e._method, e._order = "linear", 2
                e.propagate = lambda date: Rec(date)
                off, span, step = v["off"], v["span"], v["step"]
            else:
                from beyond.orbits import StateVector
                off, span, step = 500.0, 300.0, 100.0
                e = eph.Ephem([StateVector([7e6 + k, 0, 0, 0, 7.5e3, 0], t0 + td(600.0 * k), "cartesian", "EME2000") for k in range(2)],
                              method="linear")
            start = t0 + td(off)
            stop = start - td(span)
            out = {}
            n = 0
            try:
                for k, o in enumerate(e.iter(start=start, stop=stop, step=-td(step))):
                    out[f"t{k}"] = tsec(env, o.date, start)
                    n += 1
                    if k > K + 2:
                        raise AssertionError("unwinding bound exceeded")
                out["raised"] = 0
            except ValueError:
                out["raised"] = 1
            out["count"] = n
            out["_c"] = [float(span), float(step)] if not env.symbolic else 0
            return out
        finally:
            if not env.symbolic:
                c03.restore_eop()

    def ref(env, v, out):
        span, step = (v["span"], v["step"]) if env.symbolic else out["_c"]
        cnt = 0
        for k in range(K + 3):
            if k * step <= span:
                cnt += 1
        r = {"raised": 0, "count": cnt, "_c": out["_c"]}
        for k in range(out["count"]):
            r[f"t{k}"] = -k * step
        return r
    return Case("ephem/bwd", ins, run, ref, pre=pre, timeout=60, maxpaths=300, tol=1e-9, abs_tol=3e-6,
                signature="Ephem.iter: backward range yields nothing",
                desc="Ephem.iter with a negative step, start after stop (both inside the table): yields start - k*|step| down to stop")


def ephem_strict_case():
    ins = INS + [("g1", "pos")]

    def pre(v):
        return c03.eop_pre(v) + [v["d"] >= 41317, v["d"] <= 58000, v["s"] >= 0, v["s"] < 86400, v["off"] > -1e5, v["off"] < 1e5,
                                 v["span"] >= 0, v["span"] < 1e5]

    def run(env, v):
        m = c03.datemod(env)
        c03.install_eop(env, m, v)
        try:
            eph = env.mod("beyond.orbits.ephem") if env.symbolic else importlib.import_module("beyond.orbits.ephem")
            if env.symbolic:
                eph.timedelta = STD
            t0 = c03.mk_date(env, m, v["d"], v["s"], "UTC")
            td = (lambda x: STD.of(x)) if env.symbolic else (lambda x: _td(seconds=float(x)))
            pts = [Rec(t0), Rec(t0 + td(v["g1"]))]
            if env.symbolic:
                e = eph.Ephem.__new__(eph.Ephem)
                e._orbits = pts
                e._method, e._order = "linear", 2
                e.propagate = lambda date: Rec(date)
            else:
                from beyond.orbits import StateVector
                e = eph.Ephem([StateVector([7e6 + k, 0, 0, 0, 7.5e3, 0], p.date, "cartesian", "EME2000") for k, p in enumerate(pts)],
                              method="linear")
            start = t0 + td(v["off"])
            stop = start + td(v["span"])
            inside = (v["off"] >= 0) and (v["off"] + v["span"] <= v["g1"])
            try:
                first = next(iter(e.iter(start=start, stop=stop, step=td(1 + v["g1"]))))
                refused = 0
            except ValueError:
                refused = 1
            except StopIteration:
                refused = 0
            return {"refused_iff_outside": refused + (1 if inside else 0)}
        finally:
            if not env.symbolic:
                c03.restore_eop()

    def ref(env, v, out):
        return {"refused_iff_outside": 1}
    return Case("ephem/strict", ins, run, ref, pre=pre, timeout=60, maxpaths=200, tol=0, abs_tol=0.5,
                desc="Ephem.iter(strict=True) refuses (ValueError) exactly the ranges that leave [first, last] of the table")


DATE_ORDER = {"dates_list": [0, 1, 2, 3], "dates_unordered": [2, 0, 3, 1]}


def keplernum_case(kind, K):
    """control skeleton of KeplerNum._iter with _make_step = 'advance by exactly step' and the interpolation order bounded to 3:
    dates yielded for a range starting at the epoch are start + k*out_step, first to last inclusive, none beyond stop, no error --
    kind: 'fwd_long' (span >= 2 integration steps), 'fwd_short' (span below one integration step: fewer points than the
    interpolation order), 'bwd' (stop before start)"""
    ORDER = 3
    direction = -1 if kind == "bwd" else 1
    ins = c03.EOP_IN + [("d", "int"), ("s", "real"), ("h", "pos"), ("span", "real"), ("step", "pos")] + \
          ([("rho", "pos")] if kind == "adaptive" else [])

    def pre(v):
        p = c03.eop_pre(v) + [v["d"] >= 41317, v["d"] <= 58000, v["s"] >= 0, v["s"] < 86400, 2 * v["step"] >= v["h"]]
        if kind == "adaptive":
            # the integrator shortens every step to rho * h (3/4 <= rho <= 1); output step left to its default (= h)
            p += [v["step"] == v["h"], v["span"] >= 2 * v["h"], v["span"] < K * v["h"], 4 * v["rho"] >= 3, v["rho"] <= 1]
        elif kind in ("dates_list", "dates_unordered"):
            p += [v["span"] == 3 * v["step"], 3 * v["step"] >= 2 * v["h"], 3 * v["step"] < K * v["h"]]
        elif kind == "fwd_long":
            p += [v["span"] >= 2 * v["h"], v["span"] < K * v["h"], v["span"] < K * v["step"]]
        elif kind == "fwd_short":
            p += [v["span"] > 0, v["span"] < v["h"], v["span"] < K * v["step"]]
        else:
            p += [v["span"] < 0, -v["span"] < K * v["h"], -v["span"] < K * v["step"]]
        return p

    def run(env, v):
        m = c03.datemod(env)
        c03.install_eop(env, m, v)
        try:
            if env.symbolic:
                kn = env.mod("beyond.propagators.keplernum")
                base = env.mod("beyond.propagators.base")
                eph = env.mod("beyond.orbits.ephem")
                base.timedelta = STD
                eph.timedelta = STD
                kn.sign = lambda x: (1 if bool(R.lift(x) >= 0) else -1)
                td = lambda x: STD.of(x)
                epoch = c03.mk_date(env, m, v["d"], v["s"], "UTC")

                class Sv(Rec):
                    def as_orbit(self, prop):
                        return self

                    def copy(self):
                        return Sv(self.date)
                prop = kn.KeplerNum.__new__(kn.KeplerNum)
                prop.step = td(v["h"])
                prop.bodies, prop.method, prop.frame, prop.tol = [], "euler", "EME2000", None
                prop._orbit = Sv(epoch)
                if kind == "adaptive":
                    prop._make_step = lambda orb, step: (td(v["h"] * v["rho"]), Sv(orb.date + td(v["h"] * v["rho"])))
                else:
                    prop._make_step = lambda orb, step: (step, Sv(orb.date + step))
                prop.copy = lambda: prop

                def interp(self, date):
                    if len(self._orbits) < self.order:
                        raise ValueError(f"len={len(self._orbits)} < order={self.order} : impossible to interpolate")
                    if not ((self._orbits[0].date <= date) and (date <= self._orbits[-1].date)):
                        raise ValueError("date not in range")
                    return Sv(date)
                saved = (eph.Ephem.interpolate, eph.Ephem.DEFAULT_ORDER)
                eph.Ephem.interpolate = interp
                eph.Ephem.DEFAULT_ORDER = ORDER
                try:
                    stop = epoch + td(v["span"])
                    out = {}
                    n = 0
                    try:
                        if kind in ("dates_list", "dates_unordered"):
                            # an explicit list of dates (plain Python list): start + k*step, 4 points (in order, or shuffled)
                            gen = prop.iter(dates=[epoch + td(v["step"] * k) for k in DATE_ORDER[kind]])
                        elif kind == "adaptive":
                            gen = prop.iter(start=epoch, stop=stop)
                        else:
                            gen = prop.iter(start=epoch, stop=stop, step=td(v["step"]))
                        for k, o in enumerate(gen):
                            out[f"t{k}"] = tsec(env, o.date, epoch)
                            n += 1
                            if k > 3 * K + 6:
                                raise AssertionError("unwinding bound exceeded")
                        out["raised"] = 0
                    except (ValueError, AttributeError):
                        out["raised"] = 1
                    out["count"] = n
                    return out
                finally:
                    eph.Ephem.interpolate, eph.Ephem.DEFAULT_ORDER = saved
            from beyond.propagators.keplernum import KeplerNum
            from beyond.orbits import Orbit
            from beyond.env.solarsystem import get_body
            epoch = c03.mk_date(env, m, 58000, 0.0, "UTC")
            h, span, step = {"fwd_long": (60.0, 1000.0, 510.0), "fwd_short": (60.0, 100.0, 55.0), "bwd": (60.0, -1000.0, 55.0),
                             "dates_list": (60.0, 1650.0, 550.0), "dates_unordered": (60.0, 1650.0, 550.0),
                             "adaptive": (120.0, 1200.0, 120.0)}[kind]
            if kind == "adaptive":
                orb = Orbit([6.7e6, 0, 0, 0, 9.5e3, 0], epoch, "cartesian", "EME2000",
                            KeplerNum(_td(seconds=h), get_body("Earth"), method="dopri54", tol=1e-4))
            else:
                orb = Orbit([7e6, 0, 0, 0, 7.5e3, 0], epoch, "cartesian", "EME2000", KeplerNum(_td(seconds=h), get_body("Earth")))
            out = {}
            n = 0
            try:
                if kind in ("dates_list", "dates_unordered"):
                    gen = orb.iter(dates=[epoch + _td(seconds=step * k) for k in DATE_ORDER[kind]])
                elif kind == "adaptive":
                    gen = orb.iter(start=epoch, stop=epoch + _td(seconds=span))
                else:
                    gen = orb.iter(start=epoch, stop=epoch + _td(seconds=span), step=_td(seconds=step))
                for k, o in enumerate(gen):
                    out[f"t{k}"] = (o.date - epoch).total_seconds()
                    n += 1
                out["raised"] = 0
            except (ValueError, AttributeError):
                out["raised"] = 1
            out["count"] = n
            out["_conc"] = [span, step]
            return out
        finally:
            if not env.symbolic:
                c03.restore_eop()

    def ref(env, v, out):
        n = out["count"]
        if env.symbolic:
            span, step = v["span"], v["step"]
        else:
            span, step = out["_conc"]
        cnt = 0
        for k in range(3 * K + 8):
            if (k * step <= span) if direction > 0 else (-k * step >= span):
                cnt += 1
        r = {"raised": 0, "count": cnt}
        if not env.symbolic:
            r["_conc"] = out["_conc"]
        for k in range(n):
            r[f"t{k}"] = direction * (DATE_ORDER[kind][k] if kind in DATE_ORDER and k < 4 else k) * step
        return r
    what = {"fwd_long": "a point beyond stop is yielded", "fwd_short": "span shorter than the interpolation order raises ValueError",
            "bwd": "backward range raises ValueError", "dates_list": "dates given as a plain list raise AttributeError",
            "dates_unordered": "dates given in another order than chronological are not yielded in the given order",
            "adaptive": "default output step yields the irregular nodes of an adaptive integrator"}[kind]
    return Case(f"keplernum/{kind}", ins, run, ref, pre=pre, timeout=90, maxpaths=1500, tol=1e-9, abs_tol=3e-6,
                signature=f"KeplerNum._iter: {what}",
                desc=f"KeplerNum iteration skeleton ({kind}) from the epoch: yields start + k*step first to last inclusive, nothing beyond "
                     "stop, and does not raise")


def keplernum_late_start_case():
    """KeplerNum._iter for a range that starts *after* the epoch, with an output step different from the integration step:
    whatever leg is being integrated (epoch -> start, then start -> stop), the integrator is asked for steps of its own length h
    (the output step only re-samples), and the dates yielded are start + k * output step"""
    K = 4
    ins = c03.EOP_IN + [("d", "int"), ("s", "real"), ("h", "pos"), ("off", "pos"), ("span", "pos"), ("step", "pos")]

    def pre(v):
        return c03.eop_pre(v) + [v["d"] >= 41317, v["d"] <= 58000, v["s"] >= 0, v["s"] < 86400, v["off"] <= 2 * v["h"],
                                 v["span"] >= 2 * v["h"], v["span"] < K * v["h"], v["span"] < K * v["step"], v["step"] < 3 * v["h"]]

    def run(env, v):
        m = c03.datemod(env)
        c03.install_eop(env, m, v)
        try:
            if not env.symbolic:
                kn = importlib.import_module("beyond.propagators.keplernum")
                from beyond.orbits import Orbit
                from beyond.env.solarsystem import get_body
                epoch = c03.mk_date(env, m, 58000, 0.0, "UTC")
                asked = []
                prop = kn.KeplerNum(_td(seconds=60.0), get_body("Earth"))
                real = prop._make_step
                prop._make_step = lambda orb, step: (asked.append(abs(step.total_seconds())) or real(orb, step))
                prop.copy = lambda: prop
                orb = Orbit([7e6, 0, 0, 0, 7.5e3, 0], epoch, "cartesian", "EME2000", prop)
                got = list(orb.iter(start=epoch + _td(seconds=90.0), stop=epoch + _td(seconds=90.0 + 1000.0), step=_td(seconds=170.0)))
                return {"every_step_asked_is_h": Holds(all(abs(a - 60.0) < 1e-9 for a in asked)),
                        "first": float(v["off"]) * (got[0].date - epoch).total_seconds() / 90.0}
            kn = env.mod("beyond.propagators.keplernum")
            base = env.mod("beyond.propagators.base")
            eph = env.mod("beyond.orbits.ephem")
            base.timedelta = STD
            eph.timedelta = STD
            kn.sign = lambda x: (1 if bool(R.lift(x) >= 0) else -1)
            td = lambda x: STD.of(x)
            epoch = c03.mk_date(env, m, v["d"], v["s"], "UTC")

            class Sv(Rec):
                def as_orbit(self, prop):
                    return self

                def copy(self):
                    return Sv(self.date)
            prop = kn.KeplerNum.__new__(kn.KeplerNum)
            prop.step = td(v["h"])
            prop.bodies, prop.method, prop.frame, prop.tol = [], "euler", "EME2000", None
            prop._orbit = Sv(epoch)
            asked = []

            def make_step(orb, step):
                asked.append(abs(step.total_seconds().r))
                return step, Sv(orb.date + step)
            prop._make_step = make_step
            prop.copy = lambda: prop

            def interp(self, date):
                return Sv(date)
            saved = (eph.Ephem.interpolate, eph.Ephem.DEFAULT_ORDER)
            eph.Ephem.interpolate = interp
            eph.Ephem.DEFAULT_ORDER = 3
            try:
                start = epoch + td(v["off"])
                gen = prop.iter(start=start, stop=start + td(v["span"]), step=td(v["step"]))
                first = next(gen)
                worst_hi, worst_lo = asked[0], asked[0]
                ok = SB(z3.BoolVal(True))
                for a in asked:
                    ok = ok & (a == v["h"])
                return {"every_step_asked_is_h": Holds(ok), "first": tsec(env, first.date, epoch)}
            finally:
                eph.Ephem.interpolate, eph.Ephem.DEFAULT_ORDER = saved
        finally:
            if not env.symbolic:
                c03.restore_eop()

    def ref(env, v, out):
        return {"every_step_asked_is_h": None, "first": v["off"]}
    return Case("keplernum/late_start", ins, run, ref, pre=pre, timeout=90, maxpaths=400, tol=1e-9, abs_tol=3e-6,
                desc="KeplerNum iteration starting after the epoch with an output step other than the integration step: every step "
                     "asked of the integrator has the integration step's length, the first date yielded is the requested start")


def numiter_args_case(stop_kind):
    """NumericalPropagator.iter: what the range arguments mean before they reach _iter -- a timedelta `stop` is counted from
    `start` (not from the epoch of the orbit), start=None means the epoch, the step is turned round for a backward range"""
    ins = c03.EOP_IN + [("d", "int"), ("s", "real"), ("off", "real"), ("span", "real"), ("step", "pos"), ("h", "pos")]

    def pre(v):
        return c03.eop_pre(v) + [v["d"] >= 41317, v["d"] <= 58000, v["s"] >= 0, v["s"] < 86400,
                                 v["off"] > -86400, v["off"] < 86400, v["span"] > -86400, v["span"] < 86400]

    def run(env, v):
        m = c03.datemod(env)
        c03.install_eop(env, m, v)
        try:
            if env.symbolic:
                base = env.mod("beyond.propagators.base")
                base.timedelta = STD
                td = lambda x: STD.of(x)
            else:
                base = importlib.import_module("beyond.propagators.base")
                td = lambda x: _td(seconds=float(x))
            epoch = c03.mk_date(env, m, v["d"], v["s"], "UTC") if env.symbolic else c03.mk_date(env, m, 58000, 0.0, "UTC")
            start = epoch + td(v["off"])
            got = []

            class P(base.NumericalPropagator):
                step = td(v["h"])
                orbit = Rec(epoch)

                def _iter(self, **kw):
                    got.append(kw)
                    return iter(())
            stop = td(v["span"]) if stop_kind == "timedelta" else start + td(v["span"])
            list(P().iter(start=start, stop=stop, step=td(v["step"])))
            list(P().iter(start=None, stop=stop))
            a, b = got
            sec = lambda x: tsec(env, x, epoch)
            stp = lambda x: (x.total_seconds().r if env.symbolic else x.total_seconds())
            b_stop = v["span"] if stop_kind == "timedelta" else v["off"] + v["span"]
            return {"start": sec(a["start"]), "stop": sec(a["stop"]), "step": stp(a["step"]),
                    "default_start": sec(b["start"]) if b["start"] is not None else 0,
                    "default_start_resolved": Holds(b["start"] is not None) if not env.symbolic else Holds(SB(z3.BoolVal(b["start"] is not None))),
                    "default_stop": sec(b["stop"]), "default_step": stp(b["step"]), "_bstop": b_stop}
        finally:
            if not env.symbolic:
                c03.restore_eop()

    def ref(env, v, out):
        back = v["span"] < 0
        bstop = out["_bstop"]
        return {"start": v["off"], "stop": v["off"] + v["span"], "step": -v["step"] if back else v["step"],
                "default_start": 0, "default_start_resolved": None, "default_stop": bstop, "default_step": (-v["h"] if bstop < 0 else v["h"]), "_bstop": bstop}
    return Case(f"numiter_args/{stop_kind}", ins, run, ref, pre=pre, timeout=60, tol=1e-9, abs_tol=3e-6,
                desc=f"NumericalPropagator.iter(start, stop as {stop_kind}, step): the range handed to the integrator is start .. "
                     "start + stop (a timedelta stop counts from start), step sign fixed up for backward ranges; start=None is the epoch")


def ephem_interleaved_case():
    """two iterations of the same Ephem consumed alternately (two `ephem.iter()` generators alive at once, native step): each
    yields every point of the table, in order -- iterations on the same object do not disturb each other"""
    ins = INS + [("g1", "pos"), ("g2", "pos")]

    def pre(v):
        return c03.eop_pre(v) + [v["d"] >= 41317, v["d"] <= 58000, v["s"] >= 0, v["s"] < 86400]

    def run(env, v):
        m = c03.datemod(env)
        c03.install_eop(env, m, v)
        try:
            eph = env.mod("beyond.orbits.ephem") if env.symbolic else importlib.import_module("beyond.orbits.ephem")
            t0 = c03.mk_date(env, m, v["d"], v["s"], "UTC")
            td = (lambda x: STD.of(x)) if env.symbolic else (lambda x: _td(seconds=float(x)))
            pts = [Rec(t0), Rec(t0 + td(v["g1"])), Rec(t0 + td(v["g1"] + v["g2"]))]
            if env.symbolic:
                e = eph.Ephem.__new__(eph.Ephem)
                e._orbits = pts
                e._method, e._order = "linear", 2
            else:
                from beyond.orbits import StateVector
                pts = [StateVector([7e6 + k, 0, 0, 0, 7.5e3, 0], p.date, "cartesian", "EME2000") for k, p in enumerate(pts)]
                e = eph.Ephem(pts, method="linear")
            ga, gb = e.iter(), e.iter()
            seq = {"a": [], "b": []}
            for which in "abababab":
                g = ga if which == "a" else gb
                try:
                    seq[which].append(tsec(env, next(g).date, t0))
                except StopIteration:
                    pass
            out = {"count_a": len(seq["a"]), "count_b": len(seq["b"])}
            for w in "ab":
                for k in range(3):
                    out[f"{w}{k}"] = seq[w][k] if k < len(seq[w]) else -1
            # the plain iteration protocol (`for p in ephem`): nested loops over the same ephemeris see every pair
            out["nested_pairs"] = sum(1 for p in e for q in e)
            return out
        finally:
            if not env.symbolic:
                c03.restore_eop()

    def ref(env, v, out):
        ts = [0, v["g1"], v["g1"] + v["g2"]]
        r = {"count_a": 3, "count_b": 3, "nested_pairs": 9}
        for w in "ab":
            for k in range(3):
                r[f"{w}{k}"] = ts[k]
        return r
    return Case("ephem/interleaved", ins, run, ref, pre=pre, timeout=60, tol=1e-9, abs_tol=3e-6,
                signature="Ephem.iter: two live iterations share one cursor",
                desc="two Ephem.iter() generators on one ephemeris, advanced alternately, each yield the three points in order; "
                     "nested `for` loops over the ephemeris itself see all 9 pairs")


def none_case():
    """the 'none' propagator: the state is kept, the date is the requested one -- given as a date or, like every propagator
    accepts, as a timedelta from the epoch"""
    from symx.stubs import SymDate, SymTD, carrier
    ins = [("dt", "real")] + [(f"p{k}", "real") for k in range(6)]

    def run(env, v):
        if env.symbolic:
            mod = env.mod("beyond.propagators.none")
            if hasattr(mod, "timedelta"):
                mod.timedelta = SymTD
            p = mod.NonePropagator()
            p.orbit = carrier([v[f"p{k}"] for k in range(6)], date=SymDate(0), frame="EME2000")
            a = p.propagate(SymDate(v["dt"]))
            b = p.propagate(SymTD(v["dt"]))
            okb = isinstance(b.date, SymDate)
            return {"by_date": [a.date.t] + list(a), "by_timedelta": [b.date.t if okb else -12345] + list(b),
                    "date_type": Holds(SB(z3.BoolVal(bool(okb))))}
        from beyond.dates import Date
        from beyond.orbits import Orbit
        d0 = Date(2020, 1, 1)
        orb = Orbit([7e6 + v["p0"], v["p1"], v["p2"], v["p3"], 7.5e3 + v["p4"], v["p5"]], d0, "cartesian", "EME2000", "NonePropagator")
        a = orb.propagate(d0 + _td(seconds=float(v["dt"])))
        b = orb.propagate(_td(seconds=float(v["dt"])))
        okb = isinstance(b.date, Date)
        base = np.array(orb)
        return {"by_date": [(a.date - d0).total_seconds()] + list(np.array(a) - base + np.array([v[f"p{k}"] for k in range(6)])),
                "by_timedelta": [((b.date - d0).total_seconds() if okb else -12345)] + list(np.array(b) - base + np.array([v[f"p{k}"] for k in range(6)])),
                "date_type": Holds(bool(okb))}

    def ref(env, v, out):
        st = [v[f"p{k}"] for k in range(6)]
        return {"by_date": [v["dt"]] + st, "by_timedelta": [v["dt"]] + st, "date_type": None}
    return Case("none_propagator", ins, run, ref, timeout=30, tol=1e-9, abs_tol=3e-6,
                signature="NonePropagator.propagate(timedelta)",
                desc="NonePropagator.propagate keeps the state and dates it at the requested date, given as a Date or as a timedelta")


def all_cases(tier):
    K = bounds(tier)["max_points"]
    cs = []
    for sign in (1, -1):
        for sk in ("date", "timedelta"):
            cs.append(analytical_case(sign, sk, K))
    cs += [dates_case(), ephem_case("step", K), ephem_case("nostep", K), ephem_case("dates", K), ephem_strict_case(), ephem_bwd_case(K), ephem_interleaved_case(),
           keplernum_case("fwd_long", bounds(tier)["keplernum_steps"]), keplernum_case("fwd_short", bounds(tier)["keplernum_steps"]),
           keplernum_case("bwd", bounds(tier)["keplernum_steps"]), keplernum_case("dates_list", bounds(tier)["keplernum_steps"]),
           keplernum_case("dates_unordered", bounds(tier)["keplernum_steps"]), keplernum_late_start_case(), keplernum_case("adaptive", bounds(tier)["keplernum_steps"]),
           numiter_args_case("timedelta"), numiter_args_case("date"), none_case()]
    return cs


def groups(tier):
    return {c.name.replace("/", "_"): (lambda c=c: run_cases([c])) for c in all_cases(tier)}


def replay(ob, model):
    return replay_cases(all_cases("thorough") + all_cases("quick"), ob, model)
