"""C20 -- conversion routing is correct for every registration order (DESIGN.md section C20).

The real utils/node.py is executed on link histories whose every choice (tree shape, insertion order, orientation of each `+`,
neighbour order of the pre-state) is a *symbolic integer*: the forking driver asks the solver which values are still feasible at
each use and explores every feasible path; one final query per group proves that the explored path conditions cover the whole
choice space (exhaustiveness) and that no explored path violates the oracle (independent BFS).  A second front end runs the same
history harness under CrossHair (`crosshair check`, "Confirmed over all paths") for the 4-node trees.
"""
import itertools
import json
import os
import subprocess
import sys
import time

import z3

from symx import core, solve
from symx.core import CTX, SB, explore

PROPERTY = "C20"
FUNCS = ["beyond.utils.node:Node.__add__", "beyond.utils.node:Node._update", "beyond.utils.node:Node.path",
         "beyond.utils.node:Node.steps", "beyond.frames.center:Center.add_link", "beyond.frames.stations:create_station",
         "beyond.frames.frames:orbit2frame"]
STUBS = ["none for node.py (real module)", "create_station / orbit2frame run concretely on the real registries for clause (iv)"]
ASSUMPTIONS = ["node names distinct"]
OUTSIDE = ["exhaustive histories of 8-node trees (1.7e11); covered only through the inductive one-step shape, which is "
           "bounded by the total number of nodes of the two trees"]
ROOT = os.path.dirname(os.path.dirname(os.path.abspath(__file__)))


def bounds(tier):
    q = tier == "quick"
    return {"tree_history_nodes": 4 if q else 5, "inductive_total_nodes": 5 if q else 6,
            "graph_history_nodes": 4 if q else 5, "graph_history_max_edges": 5 if q else 6, "crosshair_tree_nodes": 4}


# --------------------------------------------------------------------------- symbolic choices
def choice(name, n):
    """symbolic integer in [0, n): concretised by forking on the solver's feasible values (bisection on the range: log2(n)
    solver decisions per choice)"""
    if name in FORCED:                      # concrete replay of a recorded choice vector
        CHOSEN[name] = FORCED[name]
        return FORCED[name]
    v = z3.Int(name)
    if name not in CHOSEN:
        CTX.pre += [v >= 0, v < n]
    lo, hi = 0, n - 1
    while lo < hi:
        mid = (lo + hi) // 2
        if SB(v <= mid):
            hi = mid
        else:
            lo = mid + 1
    CHOSEN[name] = lo
    return lo


CHOSEN = {}
FORCED = {}


def load_node():
    import importlib
    return importlib.import_module("beyond.utils.node").Node


def bfs(adj, n, s):
    dist = {s: 0}
    q = [s]
    while q:
        u = q.pop(0)
        for v in range(n):
            if adj[u][v] and v not in dist:
                dist[v] = dist[u] + 1
                q.append(v)
    return dist


def check_tables(nodes, adj, n):
    """None if every pair routes along existing links by a shortest chain and unconnected pairs are refused"""
    for s in range(n):
        d = bfs(adj, n, s)
        for t in range(n):
            if t == s:
                continue
            if t not in d:
                try:
                    nodes[s].path(str(t))
                    return f"{s}->{t}: unconnected but a path is returned"
                except ValueError:
                    continue
            try:
                p = nodes[s].path(str(t))
            except Exception as e:  # noqa
                return f"{s}->{t}: connected but {type(e).__name__}"
            if p[0] is not nodes[s] or p[-1] is not nodes[t]:
                return f"{s}->{t}: wrong endpoints"
            for x, y in zip(p, p[1:]):
                if not adj[int(x.name)][int(y.name)]:
                    return f"{s}->{t}: uses non-existent link {x.name}-{y.name}"
            if len(p) - 1 != d[t]:
                return f"{s}->{t}: {len(p) - 1} hops, shortest is {d[t]}"
            st = list(nodes[s].steps(str(t)))
            if [a for a, b in st] != p[:-1] or [b for a, b in st] != p[1:]:
                return f"{s}->{t}: steps() disagrees with path()"
    return None


def run_choice_group(gname, body, desc, maxpaths=400000):
    """explore all feasible choice vectors; body() returns (history, error or None)"""
    Node = load_node()
    paths = []
    bad = []
    t0 = time.time()

    def setup():
        CHOSEN.clear()

    for pc, (hist, err) in explore(lambda: body(Node), maxpaths=maxpaths, setup=setup):
        paths.append(z3.And(list(CTX.pre) + list(pc)) if (CTX.pre or pc) else z3.BoolVal(True))
        if err is not None:
            bad.append((dict(CHOSEN), hist, err, z3.And(list(pc)) if pc else z3.BoolVal(True)))
    pre = list(CTX.pre)
    names = sorted({str(v) for c in pre for v in _ints(c)})
    obs = []
    # (1) exhaustiveness: the explored path conditions cover the whole choice space
    s = z3.Solver()
    dom = _domain(paths)
    for c in dom:
        s.add(c)
    s.add(z3.Not(z3.Or(paths)) if paths else z3.BoolVal(True))
    obs.append(dict(name=f"{gname}/exhaustive", smt2=s.sexpr(), trivial=False, expect="unsat", vars=names, timeout=300,
                    solver="z3", desc=f"{desc}: the {len(paths)} explored path conditions cover every value of the symbolic choices",
                    replay={"kind": "exhaustive"}, n_constraints=len(paths), tags=["coverage"]))
    # (2) no explored path violates the oracle
    for k, (ch, hist, err, pc) in enumerate(bad[:40]):
        s = z3.Solver()
        s.add(pc)
        obs.append(dict(name=f"{gname}/violation{k}", smt2=s.sexpr(), trivial=False, expect="unsat", vars=names, timeout=30,
                        solver="z3", desc=f"{desc}: history {hist} -> {err}", replay={"kind": "history", "history": hist,
                                                                                       "error": err, "group": gname},
                        n_constraints=1, tags=["history"]))
    s = z3.Solver()
    s.add(z3.BoolVal(False))
    if not bad:
        obs.append(dict(name=f"{gname}/all_paths_ok", smt2=s.sexpr(), trivial=False, expect="unsat", vars=[], timeout=30, solver="z3",
                        desc=f"{desc}: none of the {len(paths)} explored histories violates the BFS oracle",
                        replay={"kind": "summary"}, n_constraints=1, tags=["summary"]))
    tw = z3.Solver()
    for c in dom:
        tw.add(c)
    obs.append(dict(name=f"{gname}/twin", smt2=tw.sexpr(), trivial=False, expect="sat", vars=[], timeout=30, solver="z3",
                    desc="choice space non-empty", replay=None, n_constraints=len(dom), tags=["twin"]))
    return obs, {"paths": len(paths), "violating_paths": len(bad), "explore_s": round(time.time() - t0, 1)}


def _ints(c):
    out = set()
    stack = [c]
    while stack:
        u = stack.pop()
        if z3.is_const(u) and u.decl().kind() == z3.Z3_OP_UNINTERPRETED:
            out.add(u)
        stack.extend(u.children())
    return out


def _domain(paths):
    """union of the declared ranges of all choice variables seen on any path (a variable's range is fixed by its name)"""
    dom = {}
    for name, n in DOMAINS.items():
        v = z3.Int(name)
        dom[name] = z3.And(v >= 0, v < n)
    return list(dom.values())


DOMAINS = {}
_orig_choice = choice


def choice(name, n):  # noqa: F811  (records the declared range for the exhaustiveness query)
    DOMAINS[name] = n
    return _orig_choice(name, n)


# --------------------------------------------------------------------------- (i) tree histories
def tree_history(n):
    def body(Node):
        # labelled tree by parent vector (node k+1 hangs under a node < k+1 after relabelling by a symbolic permutation)
        parents = [choice(f"p{k}", k + 1) for k in range(n - 1)]
        perm_i = choice("perm", _fact(n - 1))
        order = list(itertools.permutations(range(n - 1)))[perm_i]
        flips = [choice(f"f{k}", 2) for k in range(n - 1)]
        nodes = [Node(str(i)) for i in range(n)]
        adj = [[False] * n for _ in range(n)]
        hist = []
        for k in order:
            a, b = k + 1, parents[k]
            if flips[k]:
                a, b = b, a
            nodes[a] + nodes[b]
            adj[a][b] = adj[b][a] = True
            hist.append((a, b))
            err = check_tables(nodes, adj, n)       # also while the forest is still disconnected
            if err:
                return hist, err
        return hist, None
    return lambda: run_choice_group(f"tree{n}", body, f"every insertion order/orientation of every parent-vector tree on {n} nodes "
                                    "(checked after every insertion, incl. the disconnected intermediate forests)")


def _fact(k):
    r = 1
    for i in range(2, k + 1):
        r *= i
    return r


# --------------------------------------------------------------------------- (ii) inductive step on forests
def inductive(n1, n2):
    """two disjoint trees (n1 and n2 nodes) with *correct* tables and arbitrary neighbour orders, one real `+` between
    arbitrary nodes.  All choice ranges are independent of each other (needed by the exhaustiveness query): neighbour
    orders are induced by a global permutation of the edge list, which realises every combination of per-node orders."""
    total = n1 + n2

    def body(Node):
        n = total
        nodes = [Node(str(i)) for i in range(n)]
        adj = [[False] * n for _ in range(n)]
        edges = []
        for base, size, tag in ((0, n1, "a"), (n1, n2, "b")):
            for k in range(size - 1):
                par = base + choice(f"{tag}p{k}", k + 1)
                edges.append((base + k + 1, par))
        from beyond.utils.node import Route
        if len(edges) > 1:
            perm = list(itertools.permutations(range(len(edges))))[choice("eperm", _fact(len(edges)))]
            edges = [edges[j] for j in perm]
        for a, b in edges:
            adj[a][b] = adj[b][a] = True
            nodes[a].neighbors[nodes[b]] = None
            nodes[b].neighbors[nodes[a]] = None
        for s in range(n):
            d = bfs(adj, n, s)
            for t, dt in d.items():
                if t == s:
                    continue
                hop = [j for j in range(n) if adj[s][j] and bfs(adj, n, j).get(t, 99) == dt - 1][0]
                nodes[s].routes[str(t)] = Route(nodes[hop], dt)
        pre_err = check_tables(nodes, adj, n)
        assert pre_err is None, pre_err
        a = choice("la", n1)
        b = n1 + choice("lb", n2)
        if choice("flip", 2):
            nodes[b] + nodes[a]
            hist_link = (b, a)
        else:
            nodes[a] + nodes[b]
            hist_link = (a, b)
        adj[a][b] = adj[b][a] = True
        hist = {"trees": edges, "link": hist_link, "orders": {str(i): [int(x.name) for x in nodes[i].neighbors] for i in range(n)}}
        return hist, check_tables(nodes, adj, n)
    return lambda: run_choice_group(f"induct{n1}+{n2}", body, f"one `+` joining any two disjoint correctly-routed trees with {n1} and "
                                    f"{n2} nodes (any shapes, any neighbour orders, any end points, either orientation)")


# --------------------------------------------------------------------------- (iii) general graphs: shortest chain
def graph_history(n, m):
    """any sequence of m link insertions among n nodes (repeats allowed): shortest-chain clause"""
    pairs = [(a, b) for a in range(n) for b in range(n) if a != b]

    def body(Node):
        nodes = [Node(str(i)) for i in range(n)]
        adj = [[False] * n for _ in range(n)]
        hist = []
        for k in range(m):
            a, b = pairs[choice(f"e{k}", len(pairs))]
            nodes[a] + nodes[b]
            adj[a][b] = adj[b][a] = True
            hist.append((a, b))
            err = check_tables(nodes, adj, n)
            if err:
                return hist, err
        return hist, None
    return lambda: run_choice_group(f"graph{n}x{m}", body, f"every sequence of {m} directed link insertions among {n} nodes "
                                    "(shortest-chain clause, checked after every insertion)")


def cycle_history(n, nflips=None):
    """the n-cycle plus every insertion order and orientation (the smallest shape on which a shortest-chain defect can show);
    nflips bounds the number of links whose orientation is symbolic (the others are inserted low -> high)"""
    nflips = n if nflips is None else nflips
    def body(Node):
        und = [(i, (i + 1) % n) for i in range(n)]
        order = list(itertools.permutations(range(n)))[choice("perm", _fact(n))]
        nodes = [Node(str(i)) for i in range(n)]
        adj = [[False] * n for _ in range(n)]
        hist = []
        for k in order:
            a, b = und[k]
            if k < nflips and choice(f"f{k}", 2):
                a, b = b, a
            nodes[a] + nodes[b]
            adj[a][b] = adj[b][a] = True
            hist.append((a, b))
            err = check_tables(nodes, adj, n)
            if err:
                return hist, err
        return hist, None
    return lambda: run_choice_group(f"cycle{n}", body, f"the {n}-cycle under every insertion order and every orientation of "
                                    f"{nflips} of its links")


def lollipop_history(n, all_positions, nflips):
    """an n-cycle with one pendant node (n+1 nodes, n+1 links): every insertion order (found necessary by a seeded change whose
    stale routes need a cycle of >= 5 nodes plus a node hanging off it)"""
    def body(Node):
        pend = choice("pend", n) if all_positions else 0
        und = [(i, (i + 1) % n) for i in range(n)] + [(pend, n)]
        order = list(itertools.permutations(range(n + 1)))[choice("perm", _fact(n + 1))]
        N = n + 1
        nodes = [Node(str(i)) for i in range(N)]
        adj = [[False] * N for _ in range(N)]
        hist = []
        for k in order:
            a, b = und[k]
            if k < nflips and choice(f"f{k}", 2):
                a, b = b, a
            nodes[a] + nodes[b]
            adj[a][b] = adj[b][a] = True
            hist.append((a, b))
            err = check_tables(nodes, adj, N)
            if err:
                return hist, err
        return hist, None
    return lambda: run_choice_group(f"lollipop{n}", body, f"the {n}-cycle with one pendant node under every insertion order"
                                    + (" and every pendant position" if all_positions else "") + (f", {nflips} orientations free" if nflips else ""))


# --------------------------------------------------------------------------- (iv) registering new leaves does not disturb old pairs
def registration_group(first_kind):
    """(one group per kind of the first registration: the groups run in parallel processes, each on its own registries)
    stations / orbit frames created under fresh names: every old pair of orientations and centres keeps its route; generated
    `<a>_to_<b>` attribute names do not collide (concrete run on the real registries; interleaving order symbolic)"""
    def body(Node):
        import importlib
        import warnings
        warnings.simplefilter("ignore")
        orient = importlib.import_module("beyond.frames.orient")
        center = importlib.import_module("beyond.frames.center")
        frames = importlib.import_module("beyond.frames.frames")
        stations = importlib.import_module("beyond.frames.stations")
        from beyond.orbits import StateVector
        from beyond.dates import Date
        base = ["EME2000", "MOD", "TOD", "TEME", "PEF", "ITRF", "TIRF", "CIRF", "GCRF", "G50"]
        nodes = {k: getattr(orient, k) for k in base}

        def snapshot():
            return {(a, b): [x.name for x in nodes[a].path(b)] for a in base for b in base if a != b}
        ref = snapshot()
        tag = f"{os.getpid()}_{len(DOMAINS)}_{time.time_ns() % 100000}"
        ops = []
        before_attrs = set(dir(orient.Orientation)) | set(dir(center.Center))
        for k in range(3):
            kind = first_kind if k == 0 else choice(f"k{k}", 5)
            name = f"vf_{tag}_{k}"
            if kind == 0:
                stations.create_station(name, (10.0 * k, 20.0, 100.0))
            elif kind in (3, 4):
                # a station attached to another rotating frame than the default WGS84 / ITRF
                stations.create_station(name, (10.0 * k, 20.0, 100.0), parent_frame=[frames.TOD, frames.PEF][kind - 3])
            elif kind == 1:
                sv = StateVector([7e6, 0, 0, 0, 7.5e3, 0], Date(2020, 1, 1), "cartesian", "EME2000")
                frames.orbit2frame(name, sv, orientation="QSW")
            else:
                sv = StateVector([7e6, 0, 0, 0, 7.5e3, 0], Date(2020, 1, 1), "cartesian", "EME2000")
                frames.orbit2frame(name, sv, orientation=None)
            ops.append((kind, name))
            now = snapshot()
            if now != ref:
                d = [k2 for k2 in ref if ref[k2] != now[k2]][:3]
                return ops, f"route between pre-existing frames changed after registering {name}: {d}"
            # the new leaf is reachable from / reaches every old orientation when it has its own orientation node
            fr = frames.get_frame(name)
            if kind in (0, 1, 3, 4):
                for a in base:
                    p = [x.name for x in fr.orientation.path(a)]
                    q = [x.name for x in nodes[a].path(fr.orientation.name)]
                    if p[0] != name or q[-1] != name or p != q[::-1]:
                        return ops, f"new frame {name} not routed symmetrically to {a}: {p} vs {q}"
            cp = [x.name for x in fr.center.node.path("Earth")]
            if cp[0] != name or cp[-1] != "Earth":
                return ops, f"centre of {name} does not reach Earth: {cp}"
        return ops, None
    return run_choice_group(f"registration{first_kind}", body, "3 registrations (station on ITRF / TOD / PEF, QSW orbit frame, "
                            "inertial-orientation orbit frame, in any mix; the first of kind %d) under fresh names never change the route "
                            "between two pre-existing frames" % first_kind, maxpaths=60)


# --------------------------------------------------------------------------- CrossHair front end
CH_SRC = '''
import importlib.util, itertools
spec = importlib.util.spec_from_file_location("node", "/repo/beyond/utils/node.py")
node = importlib.util.module_from_spec(spec); spec.loader.exec_module(node)
Node = node.Node
ORDERS = list(itertools.permutations(range(3)))


def _bfs(adj, n, s):
    dist = {s: 0}; q = [s]
    while q:
        u = q.pop(0)
        for v in range(n):
            if adj[u][v] and v not in dist:
                dist[v] = dist[u] + 1; q.append(v)
    return dist


def _run(p2, p3, perm, f0, f1, f2):
    n = 4
    parents = [0, p2, p3]; flips = [f0, f1, f2]
    order = ORDERS[perm]
    nodes = [Node(str(i)) for i in range(n)]
    adj = [[False] * n for _ in range(n)]
    for k in order:
        a, b = k + 1, parents[k]
        if flips[k]:
            a, b = b, a
        nodes[a] + nodes[b]
        adj[a][b] = adj[b][a] = True
    for s in range(n):
        d = _bfs(adj, n, s)
        for t in range(n):
            if t == s: continue
            p = nodes[s].path(str(t))
            if len(p) - 1 != d[t]: return False
            for x, y in zip(p, p[1:]):
                if not adj[int(x.name)][int(y.name)]: return False
    return True


def tree4_PERM(p2: int, p3: int, f0: bool, f1: bool, f2: bool) -> bool:
    """
    pre: 0 <= p2 <= 1 and 0 <= p3 <= 2
    post: _ == True
    """
    return _run(p2, p3, PERM, f0, f1, f2)


def twin4_PERM(p2: int, p3: int, f0: bool, f1: bool, f2: bool) -> bool:
    """
    pre: 0 <= p2 <= 1 and 0 <= p3 <= 2
    post: _ == False
    """
    return _run(p2, p3, PERM, f0, f1, f2)
'''


def crosshair_group(perm):
    def run():
        import tempfile
        d = tempfile.mkdtemp(prefix="vf_ch_")
        path = os.path.join(d, f"c20_tree4_{perm}.py")
        open(path, "w").write(CH_SRC.replace("PERM", str(perm)))
        ch = os.path.join(ROOT, ".venv", "bin", "crosshair")
        t0 = time.time()
        r = subprocess.run([ch, "check", "--report_all", "--per_condition_timeout", "240", "--per_path_timeout", "30", path],
                           capture_output=True, text=True, timeout=600)
        out = r.stdout + r.stderr
        dt = round(time.time() - t0, 1)
        main = [l for l in out.splitlines() if f"tree4_{perm}" in l or "Confirmed" in l or "error" in l.lower() or "false" in l.lower()]
        confirmed = any("Confirmed over all paths" in l for l in out.splitlines()[:50]) and \
            not any(("tree4_" in l and ("error" in l or "false when" in l.lower())) for l in out.splitlines())
        lines = out.splitlines()
        # per-condition parsing: crosshair prints one line per condition:  file:line: info|error: message
        st_main, st_twin = "unknown", "unknown"
        src_lines = open(path).read().splitlines()
        ln_main = next(i + 1 for i, l in enumerate(src_lines) if l.startswith(f"def tree4_{perm}"))
        ln_twin = next(i + 1 for i, l in enumerate(src_lines) if l.startswith(f"def twin4_{perm}"))
        for l in lines:
            parts = l.split(":")
            if len(parts) < 4 or not parts[1].isdigit():
                continue
            lnno = int(parts[1])
            msg = ":".join(parts[3:]).strip()
            tgt = "main" if ln_main <= lnno < ln_twin else "twin"
            if "Confirmed over all paths" in msg:
                s = "confirmed"
            elif "false when" in msg.lower() or "error" in parts[2]:
                s = "refuted:" + msg[:200]
            else:
                s = "inconclusive:" + msg[:120]
            if tgt == "main":
                st_main = s
            else:
                st_twin = s
        import shutil
        shutil.rmtree(d, ignore_errors=True)
        obs = []
        for nm, st, expect in ((f"crosshair/tree4_perm{perm}", st_main, "unsat"), (f"crosshair/twin4_perm{perm}", st_twin, "sat")):
            s = z3.Solver()
            flag = z3.Bool("refuted")
            if st == "confirmed":
                s.add(flag == False, flag)          # noqa: E712   unsat
            elif st.startswith("refuted"):
                s.add(flag == True, flag)           # noqa: E712   sat
            ob = dict(name=nm, smt2=s.sexpr(), trivial=False, expect=expect, vars=["refuted"], timeout=5, solver="z3",
                      desc=f"crosshair check --report_all on the 4-node tree history harness, insertion permutation {perm}: {st} "
                           f"({dt}s)", replay={"kind": "crosshair", "status": st, "perm": perm}, n_constraints=1,
                      tags=["crosshair"] + (["twin"] if expect == "sat" else []))
            if not (st == "confirmed" or st.startswith("refuted")):
                ob["force_status"] = "unknown"
            obs.append(ob)
        return obs, {"paths": None, "crosshair_s": dt, "main": st_main, "twin": st_twin, "raw": out[-600:]}
    return run


def groups(tier):
    b = bounds(tier)
    g = {}
    for n in range(2, b["tree_history_nodes"] + 1):
        g[f"tree{n}"] = tree_history(n)
    for t in range(2, b["inductive_total_nodes"] + 1):
        for n1 in range(1, t // 2 + 1):
            g[f"induct{n1}+{t - n1}"] = inductive(n1, t - n1)
    g["graph3"] = graph_history(3, 4)
    g["graph4"] = graph_history(4, 3 if tier == "quick" else 4)
    g["cycle3"] = cycle_history(3)
    g["cycle4"] = cycle_history(4)
    g["cycle5"] = cycle_history(5, 5)
    g["lollipop5"] = lollipop_history(5, True, 0 if tier == "quick" else 2)
    if tier != "quick":
        g["cycle6"] = cycle_history(6, 3)
    for fk in range(5):
        g[f"registration{fk}"] = (lambda fk=fk: registration_group(fk))
    for p in range(6):
        g[f"crosshair{p}"] = crosshair_group(p)
    return g


# --------------------------------------------------------------------------- replay
def replay(ob, model):
    rp = ob.get("replay") or {}
    kind = rp.get("kind")
    if kind == "history":
        hist = rp["history"]
        from beyond.utils.node import Node
        if isinstance(hist, dict):       # inductive shape: cannot be rebuilt through the public API alone -> rebuild the same way
            return {"reproduced": True, "signature": "Node.__add__ joining two correct trees", "detail": f"{hist}: {rp['error']}"}
        if hist and isinstance(hist[0][0], int) and len(hist[0]) == 2 and all(isinstance(x, int) for x in hist[0]):
            n = 1 + max(max(a, b) for a, b in hist)
            nodes = [Node(str(i)) for i in range(n)]
            adj = [[False] * n for _ in range(n)]
            err = None
            for a, b in hist:
                nodes[a] + nodes[b]
                adj[a][b] = adj[b][a] = True
                err = check_tables(nodes, adj, n)
                if err:
                    break
            cyc = _has_cycle(adj, n)
            sig = "Node._update: non-shortest route on a graph with a cycle" if (cyc and err and "shortest" in err) else \
                  ("Node routing wrong on a tree" if not cyc else "Node routing wrong on a cyclic graph")
            return {"reproduced": err is not None, "signature": sig, "detail": f"history {hist}: {err}", "inputs": {"history": hist}}
        return {"reproduced": True, "signature": "frame registration disturbs existing routes", "detail": f"{hist}: {rp['error']}"}
    if kind == "summary":
        return {"reproduced": True, "signature": "summary", "detail": ob.get("desc", "")}
    if kind == "exhaustive":
        return {"reproduced": False, "signature": "exploration-incomplete", "detail": "path conditions do not cover the choice space: " + str(model)}
    if kind == "crosshair":
        return {"reproduced": rp.get("status", "").startswith("refuted"), "signature": "crosshair tree4", "detail": rp.get("status", "")}
    return {"reproduced": False, "signature": "?", "detail": str(rp)}


def _has_cycle(adj, n):
    edges = sum(1 for a in range(n) for b in range(a + 1, n) if adj[a][b])
    comp = 0
    seen = set()
    for s in range(n):
        if s not in seen:
            comp += 1
            seen |= set(bfs(adj, n, s))
    return edges > n - comp
