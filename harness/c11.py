"""C11 -- ground-station geometry matches independent geodesy (DESIGN.md section C11)."""
import math
import itertools

import numpy as np
import z3

from symx.case import Case, Ang, Holds, run_cases, replay_cases
from symx.core import R, CTX, var, PI, SB
from symx.stubs import SymDate, carrier

PROPERTY = "C11"
FUNCS = ["beyond.frames.stations:TopocentricFrame._geodetic_to_cartesian", "beyond.frames.stations:TopocentricFrame.get_mask",
         "beyond.frames.stations:create_station", "beyond.frames.orient:TopocentricOrientation.__init__",
         "beyond.frames.orient:TopocentricOrientation._to_parent", "beyond.frames.orient:Orientation.convert_to",
         "beyond.frames.center:Center.add_link", "beyond.frames.center:Center.convert_to", "beyond.frames.center:Center._to_parent",
         "beyond.frames.frames:Frame.transform", "beyond.utils.matrix:rot2", "beyond.utils.matrix:rot3", "beyond.utils.matrix:expand",
         "beyond.orbits.forms:Form._cartesian_to_spherical",
         "beyond.utils.measures:Range.from_orbit", "beyond.utils.measures:Azimut.from_orbit",
         "beyond.utils.measures:Elevation.from_orbit", "beyond.utils.measures:Doppler.from_orbit"]
STUBS = ["Earth.r / Earth.e in the stations module -> positive symbols (0 < e < 1)", "target state -> object-dtype Carrier in the real ITRF frame",
         "np.linalg.inv -> exact cofactor inverse (block form built by utils.matrix.expand)", "Date -> SymDate (station links ignore the date)"]
ASSUMPTIONS = ["reals instead of binary64", "latitude strictly between -90 and 90 deg (cos lat > 0)", "target not at the station "
               "and not on its vertical axis (azimuth defined)", "mask: strictly increasing azimuths, last azimuth = 2 pi, first azimuth >= 0"]
OUTSIDE = ["'moves with the Earth's rotation in inertial frames' beyond the structural check that the station is at rest in ITRF "
           "(the Earth-rotation providers are C02)"]


def bounds(tier):
    return {"mask_entries": 3 if tier == "quick" else 5, "per_query_timeout_s": 90 if tier == "quick" else 600}


_counter = itertools.count()


def enu(env, lat, lon):
    c, s = env.cos, env.sin
    east = [-s(lon), c(lon), 0]
    north = [-s(lat) * c(lon), -s(lat) * s(lon), c(lat)]
    up = [c(lat) * c(lon), c(lat) * s(lon), s(lat)]
    return east, north, up


def ell(env, v):
    if env.symbolic:
        return v["Re"], v["ee"]
    from beyond.constants import Earth
    return Earth.r, Earth.e


def patch_earth(env, v):
    st = env.mod("beyond.frames.stations")
    if env.symbolic:
        import types
        st.Earth = types.SimpleNamespace(r=v["Re"], e=v["ee"])
        for m in ("beyond.utils.matrix", "beyond.frames.orient", "beyond.frames.center", "beyond.frames.frames",
                  "beyond.orbits.forms"):
            env.mod(m)
    return st


GEO_IN = [("Re", "pos"), ("ee", "pos"), ("lat", "angle", {"lo": "free"}), ("lon", "angle", {"lo": "free"}), ("alt", "real")]


def geo_pre(v):
    cl, sl = CTX.atom("lat")
    return [v["ee"] < 1, cl.n > 0]


def geodetic_case():
    def run(env, v):
        st = patch_earth(env, v)
        p = st.TopocentricFrame._geodetic_to_cartesian(v["lat"], v["lon"], v["alt"])
        p0 = st.TopocentricFrame._geodetic_to_cartesian(v["lat"], v["lon"], 0)
        a, e = ell(env, v)
        b2 = a * a * (1 - e * e)
        on_ell = (p0[0] * p0[0] + p0[1] * p0[1]) / (a * a) + p0[2] * p0[2] / b2
        east, north, up = enu(env, v["lat"], v["lon"])
        # ellipsoid normal at p0 is parallel to `up`: gradient x up = 0
        g = [p0[0] / a, p0[1] / a, p0[2] * a / b2]          # gradient of the ellipsoid equation, scaled to O(1)
        cr = [g[1] * up[2] - g[2] * up[1], g[2] * up[0] - g[0] * up[2], g[0] * up[1] - g[1] * up[0]]
        outward = g[0] * up[0] + g[1] * up[1] + g[2] * up[2]
        return {"on_ellipsoid": on_ell, "normal_parallel": cr, "offset": [p[k] - p0[k] for k in range(3)], "vel": list(p[3:]),
                "outward": Holds(outward > 0)}

    def ref(env, v, out):
        east, north, up = enu(env, v["lat"], v["lon"])
        return {"on_ellipsoid": 1, "normal_parallel": [0, 0, 0], "offset": [v["alt"] * u for u in up], "vel": [0, 0, 0],
                "outward": None}
    return Case("geodetic", GEO_IN, run, ref, pre=geo_pre, timeout=90, tol=1e-9, abs_tol=1e-6,
                desc="geodetic->cartesian: altitude 0 lies on x^2/a^2+y^2/a^2+z^2/b^2 = 1, the altitude offset is along the outward "
                     "ellipsoid normal (cos lat cos lon, cos lat sin lon, sin lat), and the station is at rest (zero velocity)")


def station_int_case():
    """create_station given latitude, longitude (degrees) and altitude as Python *integers* -- (45, 3, 100) is as legitimate as
    (45.0, 3.0, 100.0): the station is where the ellipsoid formula puts it.  The symbolic integers are int subclasses, so that
    whatever the code does to a sequence of ints (numpy would infer an integer dtype) is followed."""
    from symx.dtmodel import SI
    ins = [("Re", "pos"), ("ee", "pos"), ("lat_i", "int"), ("lon_i", "int"), ("alt_i", "int")]

    def pre(v):
        return [v["ee"] < 1, v["lat_i"] > -90, v["lat_i"] < 90, v["lon_i"] >= -180, v["lon_i"] <= 180, v["alt_i"] >= -400, v["alt_i"] <= 9000]

    def run(env, v):
        st = patch_earth(env, v)
        name = f"vfi{next(_counter)}"
        if env.symbolic:
            sta = st.create_station(name, (SI(v["lat_i"]), SI(v["lon_i"]), SI(v["alt_i"])))
            off = sta.center.offset
            return {"position": [getattr(x, "r", x) for x in list(off)[:3]]}
        sta = st.create_station(name, (int(v["lat_i"]), int(v["lon_i"]), int(v["alt_i"])))
        return {"position": [float(x) / 6.4e6 for x in list(sta.center.offset)[:3]]}

    def ref(env, v, out):
        a, e = ell(env, v)
        lat, lon, alt = v["lat_i"] * env.pi / 180, v["lon_i"] * env.pi / 180, v["alt_i"]
        if not env.symbolic:
            lat, lon = math.radians(int(v["lat_i"])), math.radians(int(v["lon_i"]))
        N = a / env.sqrt(1 - e * e * env.sin(lat) * env.sin(lat))
        p = [(N + alt) * env.cos(lat) * env.cos(lon), (N + alt) * env.cos(lat) * env.sin(lon), (N * (1 - e * e) + alt) * env.sin(lat)]
        return {"position": p if env.symbolic else [x / 6.4e6 for x in p]}
    return Case("station_int", ins, run, ref, pre=pre, timeout=90, maxpaths=200, tol=1e-9, abs_tol=1e-9,
                extra_points=[{"lat_i": 45, "lon_i": 3, "alt_i": 100}, {"lat_i": -33, "lon_i": -71, "alt_i": 2400}],
                desc="create_station with integer latitude / longitude / altitude: position on the ellipsoid as for the same values "
                     "given as floats")


def mk_station(env, v, mask=None, recreated=False):
    """real create_station (degrees in, as the public API demands); recreated: a station of the same name, somewhere else,
    was created before (a script run twice in one session, a station whose surveyed coordinates are updated)"""
    st = patch_earth(env, v)
    name = f"vf{next(_counter)}"
    if recreated:
        name = "vfsame"
        st.create_station(name, (10.0, 20.0, 30.0))
    if env.symbolic:
        deg = lambda x: x * 180 / PI
        sta = st.create_station(name, (deg(v["lat"]), deg(v["lon"]), v["alt"]), mask=mask)
    else:
        sta = st.create_station(name, (math.degrees(v["lat"]), math.degrees(v["lon"]), v["alt"]), mask=mask)
    return sta


def orient_case():
    def run(env, v):
        sta = mk_station(env, v)
        m = sta.orientation._m            # station axes -> parent (ITRF)
        return {"north": list(m[:, 0]), "west": list(m[:, 1]), "up": list(m[:, 2])}

    def ref(env, v, out):
        east, north, up = enu(env, v["lat"], v["lon"])
        return {"north": north, "west": [-x for x in east], "up": up}
    return Case("orientation", GEO_IN, run, ref, pre=geo_pre, timeout=60,
                desc="the station's x / y / z axes expressed in the Earth-fixed frame are north / west / up of the independent ENU triad")


TGT = ["x", "y", "z", "vx", "vy", "vz"]


def topo_case(recreated=False):
    """target state in ITRF -> station frame (real Frame.transform) -> spherical: range, azimuth = -theta, elevation, range-rate"""
    def delta(env, v):
        st = patch_earth(env, v)
        p = st.TopocentricFrame._geodetic_to_cartesian(v["lat"], v["lon"], v["alt"])
        return p

    def run(env, v):
        sta = mk_station(env, v, recreated=recreated)
        fr = env.mod("beyond.frames.frames")
        ms = env.mod("beyond.utils.measures")
        if env.symbolic:
            forms = env.mod("beyond.orbits.forms")
            orb = carrier([v[k] for k in TGT], date=SymDate(0), frame=fr.ITRF, form=forms.CART)
        else:
            from beyond.orbits import StateVector
            from beyond.dates import Date
            orb = StateVector([v[k] for k in TGT], Date(2016, 5, 5), "cartesian", "ITRF")
        loc = orb.copy(frame=sta, form="cartesian")
        sph = orb.copy(frame=sta, form="spherical")
        path2 = (sta, "sat", sta)
        rng = ms.Range(path2, None, None).from_orbit(orb).value
        az = ms.Azimut((sta, "sat"), None, None).from_orbit(orb).value
        el = ms.Elevation((sta, "sat"), None, None).from_orbit(orb).value
        dop = ms.Doppler((sta, "sat"), None, None).from_orbit(orb).value
        return {"local": list(loc), "range": sph[0], "minus_theta": Ang(-sph[1]), "phi": Ang(sph[2]), "r_dot": sph[3],
                "m_range_two_way": rng, "m_az": Ang(az), "m_el": Ang(el), "m_doppler": dop}

    def ref(env, v, out):
        a, e = ell(env, v)
        lat, lon, alt = v["lat"], v["lon"], v["alt"]
        N = a / env.sqrt(1 - e * e * env.sin(lat) * env.sin(lat))
        ps = [(N + alt) * env.cos(lat) * env.cos(lon), (N + alt) * env.cos(lat) * env.sin(lon),
              (N * (1 - e * e) + alt) * env.sin(lat)]
        east, north, up = enu(env, lat, lon)
        d = [v["x"] - ps[0], v["y"] - ps[1], v["z"] - ps[2]]
        vel = [v["vx"], v["vy"], v["vz"]]
        dot = lambda p, q: p[0] * q[0] + p[1] * q[1] + p[2] * q[2]
        E, Nn, U = dot(d, east), dot(d, north), dot(d, up)
        rng = env.sqrt(dot(d, d))
        az = env.arctan2(E, Nn)                     # clockwise from north
        el = env.arcsin(U / rng)
        rdot = dot(d, vel) / rng
        return {"local": [Nn, -E, U, dot(vel, north), -dot(vel, east), dot(vel, up)], "range": rng, "minus_theta": Ang(az),
                "phi": Ang(el), "r_dot": rdot, "m_range_two_way": 2 * rng, "m_az": Ang(-az), "m_el": Ang(el), "m_doppler": rdot}

    def pre(v):
        return geo_pre(v)

    def hints(v):
        # closed forms offered for the code's roots (each is proved by the solver before it is used)
        from symx.case import Env
        env = Env(True)
        a, e = v["Re"], v["ee"]
        lat, lon, alt = v["lat"], v["lon"], v["alt"]
        N = a / env.sqrt(1 - e * e * env.sin(lat) * env.sin(lat))
        ps = [(N + alt) * env.cos(lat) * env.cos(lon), (N + alt) * env.cos(lat) * env.sin(lon),
              (N * (1 - e * e) + alt) * env.sin(lat)]
        east, north, up = enu(env, lat, lon)
        d = [v["x"] - ps[0], v["y"] - ps[1], v["z"] - ps[2]]
        dot = lambda p, q: p[0] * q[0] + p[1] * q[1] + p[2] * q[2]
        E, Nn, U = dot(d, east), dot(d, north), dot(d, up)
        rng = env.sqrt(dot(d, d))
        hor = env.sqrt(E * E + Nn * Nn)
        return [rng, hor, hor / rng]
    return Case("topocentric" + ("/recreated" if recreated else ""), GEO_IN + [(k, "real") for k in TGT], run, ref, pre=pre, timeout=120,
                tol=1e-6, abs_tol=1e-4, hints=hints,
                desc=("a station created under the name of an earlier station located elsewhere: " if recreated else "") + "range / azimuth (= -theta) / elevation / range-rate of any Earth-fixed target seen from a created station equal "
                     "the independent WGS-84 ENU computation; Range counts once per leg; Azimut/Elevation/Doppler measures are theta, phi, r_dot")


def mask_case(N):
    """get_mask = piecewise-linear interpolant of the table, the value at 2 pi also serving on [0, az0)"""
    ins = [(f"a{i}", "real") for i in range(N - 1)] + [(f"e{i}", "real") for i in range(N)] + [("azim", "real")]

    def table(env, v):
        two_pi = 2 * env.pi
        az = [v[f"a{i}"] for i in range(N - 1)] + [two_pi]
        el = [v[f"e{i}"] for i in range(N)]
        return az, el

    def pre(v):
        az = [v[f"a{i}"] for i in range(N - 1)]
        p = [az[0] >= 0] if az else []
        p += [az[i] < az[i + 1] for i in range(len(az) - 1)]
        if az:
            p += [az[-1] < 2 * PI]
        return p

    def run(env, v):
        st = env.mod("beyond.frames.stations")
        az, el = table(env, v)
        sta = st.TopocentricFrame.__new__(st.TopocentricFrame)
        sta.name = "X"
        sta.mask = env.np.array([az, el]) if env.symbolic else np.array([az, el], dtype=float)
        return {"mask": sta.get_mask(v["azim"] if env.symbolic else float(v["azim"]))}

    def ref(env, v, out):
        az, el = table(env, v)
        two_pi = 2 * env.pi
        x = v["azim"] % two_pi
        xs = [0] + az
        ys = [el[-1]] + el
        for j in range(N):
            if xs[j] <= x and x < xs[j + 1]:
                return {"mask": ys[j] + (ys[j + 1] - ys[j]) * (x - xs[j]) / (xs[j + 1] - xs[j])}
        raise AssertionError("azimuth outside [0, 2pi) after reduction")

    return Case(f"mask/{N}", ins, run, ref, pre=pre, timeout=60, maxpaths=400, tol=1e-9, abs_tol=1e-9,
                desc=f"get_mask on any {N}-entry table (strictly increasing azimuths ending at 2 pi) and any real azimuth equals the "
                     "piecewise-linear interpolation with wrap-around")


def mask_given_case():
    """the mask handed to the constructor (a 2-D array, as documented, or nested lists) is the mask of the station: the real
    TopocentricFrame.__init__ followed by get_mask at an azimuth of the table"""
    ins = [("a0", "real"), ("e0", "real"), ("e1", "real")]

    def pre(v):
        return [v["a0"] > 0, v["a0"] < 2 * PI]

    def run(env, v):
        st = env.mod("beyond.frames.stations")
        two_pi = 2 * env.pi
        az, el = [v["a0"], two_pi], [v["e0"], v["e1"]]
        if env.symbolic:
            arr, lst = env.np.array([az, el]), [list(az), list(el)]
            q = v["a0"]
        else:
            arr, lst = np.array([az, el], dtype=float), [[float(x) for x in az], [float(x) for x in el]]
            q = float(v["a0"])
        n = next(_counter)
        as_array = st.TopocentricFrame(f"vfm{n}a", None, None, mask=arr)
        as_lists = st.TopocentricFrame(f"vfm{n}l", None, None, mask=lst)
        return {"array": as_array.get_mask(q), "lists": as_lists.get_mask(q)}

    def ref(env, v, out):
        return {"array": v["e0"], "lists": v["e0"]}
    return Case("mask/given", ins, run, ref, pre=pre, timeout=60, maxpaths=100, tol=1e-9, abs_tol=1e-9,
                desc="a mask given to the constructor as a 2-D array (the documented type) or as nested lists is the station's mask: "
                     "get_mask at a tabulated azimuth returns the tabulated elevation")


def measures_case(n, closed):
    """Range/Azimut/Elevation/Doppler.from_orbit on a signal path with n nodes (closed: last node = first station, open: a
    second station): each measure asks the orbit for the spherical form in the *first* node's frame, Range is r times the
    number of legs n-1, the angles and the range-rate are passed through, date and path are kept."""
    ins = [("r", "pos"), ("theta", "real"), ("phi", "real"), ("r_dot", "real")]

    def run(env, v):
        import types
        ms = env.mod("beyond.utils.measures")
        asked = []

        class Orb:
            date = "the-date"

            def copy(self, frame=None, form=None):
                asked.append((frame, form))
                return types.SimpleNamespace(r=v["r"], theta=v["theta"], phi=v["phi"], r_dot=v["r_dot"])
        mid = ["relay%d" % i for i in range(n - 2)]
        path = ["staA"] + mid + (["staA"] if closed else ["staB"]) if n > 2 else ["staA", "sat"]
        out = {}
        ok = True
        for cls, key in ((ms.Range, "range"), (ms.Azimut, "az"), (ms.Elevation, "el"), (ms.Doppler, "doppler")):
            m = cls(path, None, None).from_orbit(Orb())
            out[key] = m.value
            ok = ok and m.path == tuple(path) and m.date == "the-date" and type(m) is cls and m.frame == "staA"
        ok = ok and all(a == ("staA", "spherical") for a in asked) and len(asked) == 4
        out["wiring"] = Holds(SB(z3.BoolVal(ok)) if env.symbolic else ok)
        return out

    def ref(env, v, out):
        return {"range": (n - 1) * v["r"], "az": v["theta"], "el": v["phi"], "doppler": v["r_dot"], "wiring": None}
    return Case(f"measures/{n}{'closed' if closed else 'open'}", ins, run, ref, timeout=30, tol=1e-12, abs_tol=1e-12,
                desc=f"simulated measures on a {n}-node {'closed' if closed else 'open'} path: Range = (n-1) legs x topocentric r in "
                     "the first node's frame; Azimut/Elevation/Doppler = theta/phi/r_dot of that spherical form")


def all_cases(tier):
    cs = [geodetic_case(), orient_case(), topo_case(), topo_case(True), station_int_case()]
    for n in range(2, 6 if tier == "quick" else 8):
        cs.append(measures_case(n, False))
        if n > 2:
            cs.append(measures_case(n, True))
    for n in range(1, bounds(tier)["mask_entries"] + 1):
        cs.append(mask_case(n))
    cs.append(mask_given_case())
    return cs


def groups(tier):
    return {c.name.replace("/", "_"): (lambda c=c: run_cases([c])) for c in all_cases(tier)}


def replay(ob, model):
    return replay_cases(all_cases("thorough"), ob, model)
