"""C10 -- event detection is sound, complete w.r.t. sampling, ordered and sharp (DESIGN.md section C10)."""
import importlib
import types
from datetime import timedelta as _td

import numpy as np
import z3

from symx import core, dtmodel
from symx.case import Case, Holds, run_cases, replay_cases
from symx.core import R, CTX, SB, var, uf
from symx.dtmodel import SF, SI, STD, SDT
from harness import c03

PROPERTY = "C10"
FUNCS = ["beyond.propagators.listeners:Speaker.listen", "beyond.propagators.listeners:Speaker._bisect",
         "beyond.propagators.listeners:Speaker.clear_listeners", "beyond.propagators.listeners:Listener.check",
         "beyond.propagators.listeners:Listener.clear", "beyond.propagators.listeners:AnomalyListener._diff",
         "beyond.propagators.listeners:AnomalyListener.check", "beyond.propagators.listeners:StationSignalListener.info",
         "beyond.propagators.listeners:StationMaxListener.check", "beyond.propagators.listeners:StationMaskListener.check",
         "beyond.propagators.listeners:NodeListener.info", "beyond.propagators.listeners:events_iterator",
         "beyond.propagators.base:AnalyticalPropagator.iter", "beyond.frames.stations:TopocentricFrame.visibility"]
STUBS = ["watched quantity of listener l = uninterpreted function g_l(instant); propagate(date) = record of the date",
         "dates: real Date class on the exact-real model (C03); timedelta halving is exact (microsecond rounding of the real "
         "timedelta not modelled)", "orbit.copy(frame, form) for the station/anomaly listeners -> namespace of symbolic phi, phi_dot, ..."]
ASSUMPTIONS = ["exact reals", "bisection: loop explored up to the unwinding bound; the invariant is checked on the first iteration from an "
               "arbitrary bracket (inductive step) and the exit condition on every explored exit"]
OUTSIDE = ["coincidence with closed-form Keplerian node/apsis times and the 0.01 s / 0.5 s shadow timing (needs the orbit as a "
           "function of time)", "LightListener geometry (not encoded)", "termination count of the bisection under the "
           "real microsecond rounding (arithmetic: the width halves, 2^40 us > 12 days)"]


def bounds(tier):
    return {"listeners": 2 if tier == "quick" else 3, "bisect_decisions": 10 if tier == "quick" else 14, "samples": 3}


INS = c03.EOP_IN + [("d", "int"), ("s", "real")]


def pre0(v):
    return c03.eop_pre(v) + [v["d"] >= 41317, v["d"] <= 58000, v["s"] >= 0, v["s"] < 86400]


class Orb:
    def __init__(self, date):
        self.date = date
        self.event = None

    def copy(self, **kw):
        o = Orb(self.date)
        return o


def setup_mods(env, v):
    m = c03.datemod(env)
    c03.install_eop(env, m, v)
    ls = env.mod("beyond.propagators.listeners") if env.symbolic else importlib.import_module("beyond.propagators.listeners")
    if env.symbolic:
        ls.timedelta = STD
        ls.Date = m.Date
        ls.Speaker._eps_bisect = STD.of(R.const("1e-6") if False else 1e-6)
    return m, ls


def g_of(env, name, date, t0):
    x = (date - t0).total_seconds()
    x = x.r if isinstance(x, (SF, SI)) else x
    return uf(name, x) if env.symbolic else None


def listen_case(nl):
    """listen(): an event for listener l iff sign g_l changes between its previous sample and this one; result sorted by date;
    every listener's prev updated; first call after clear() emits nothing"""
    ins = INS + [("dt", "pos")] + [(f"m{i}", "real") for i in range(nl)]

    def pre(v):
        return pre0(v) + [v[f"m{i}"] > 0 for i in range(nl)] + [v[f"m{i}"] < v["dt"] for i in range(nl)]

    def run(env, v):
        m, ls = setup_mods(env, v)
        try:
            t0 = c03.mk_date(env, m, v["d"], v["s"], "UTC")
            td = (lambda x: STD.of(x)) if env.symbolic else (lambda x: _td(seconds=float(x)))
            t1 = t0 + td(v["dt"])
            if not env.symbolic:
                return {"_skip": 0}

            class L(ls.Listener):
                def __init__(self, i):
                    self.i = i

                def info(self, orb):
                    return ("event", self.i)

                def __call__(self, orb):
                    return SF(g_of(env, f"g{self.i}", orb.date, t0))
            listeners = [L(i) for i in range(nl)]

            class Sp(ls.Speaker):
                def propagate(self, date):
                    return Orb(date)

                def _bisect(self, begin, end, listener):
                    o = Orb(t0 + td(v[f"m{listener.i}"]))       # some date strictly between the two samples
                    o.event = listener.info(o)
                    o._l = listener.i
                    return o
            sp = Sp()
            sp.clear_listeners(listeners)
            first = sp.listen(Orb(t0), listeners)
            second = sp.listen(Orb(t1), listeners)
            out = {"first_call_silent": 1 if len(first) == 0 else 0}
            got = {o._l for o in second}
            for i in range(nl):
                a = uf(f"g{i}", R.const(0))
                b = uf(f"g{i}", R.lift(v["dt"]))
                sgn = lambda x: z3.If(x.term() > 0, 1, z3.If(x.term() < 0, -1, 0))
                changed = sgn(a) != sgn(b)
                out[f"event_iff_sign_change{i}"] = Holds(SB(changed == z3.BoolVal(i in got)))
                out[f"prev_updated{i}"] = 1 if listeners[i].prev is not None and listeners[i].prev.date is t1 else 0
            srt = True
            for x, y in zip(second, second[1:]):
                srt = srt and bool(x.date <= y.date)
            out["sorted_by_date"] = 1 if srt else 0
            return out
        finally:
            if not env.symbolic:
                c03.restore_eop()

    def ref(env, v, out):
        if not env.symbolic:
            return {"_skip": 0}
        r = {"first_call_silent": 1, "sorted_by_date": 1}
        for i in range(nl):
            r[f"event_iff_sign_change{i}"] = None
            r[f"prev_updated{i}"] = 1
        return r
    return Case(f"listen/{nl}", ins, run, ref, pre=pre, timeout=60, maxpaths=3000, tol=0, abs_tol=0.5,
                desc=f"Speaker.listen with {nl} simultaneous listeners: after clear() the first sample is silent; at the next sample an event "
                     "is returned for exactly the listeners whose watched quantity changed sign; the list is in chronological order; prev updated")


def bisect_case(maxdepth):
    """real Speaker._bisect on an arbitrary bracket [b, e] with a sign change of g"""
    ins = INS + [("w", "pos")]
    rec = {}

    def pre(v):
        return pre0(v) + [v["w"] < 2e6]

    def run(env, v):
        m, ls = setup_mods(env, v)
        try:
            if not env.symbolic:
                return {"_skip": 0}
            t0 = c03.mk_date(env, m, v["d"], v["s"], "UTC")
            td = lambda x: STD.of(x)
            tb, te = t0, t0 + td(v["w"])
            states = []

            class L(ls.Listener):
                def info(self, orb):
                    return "label"

                def __call__(self, orb):
                    return SF(g_of(env, "g", orb.date, t0))

            class Sp(ls.Speaker):
                def propagate(self, date):
                    o = Orb(date)
                    states.append(date)
                    return o
            gb, ge = uf("g", R.const(0)), uf("g", R.lift(v["w"]))
            CTX.assume(gb.term() * ge.term() <= 0)
            res = Sp()._bisect(Orb(tb), Orb(te), L())
            tr = (res.date - t0).total_seconds().r
            out = {"inside": Holds((tr >= 0) & (tr <= v["w"])), "labelled": 1 if res.event == "label" else 0}
            # sharpness: the returned date closes a bracket of width < 2 eps on which g changes sign
            eps = 1e-6
            if states:
                last_mid = (states[-1] - t0).total_seconds().r
            out["n_iterations"] = len(states)
            # inductive step, checked on the first iteration (arbitrary bracket): midpoint and halving
            if states:
                mid = (states[0] - t0).total_seconds().r
                out["first_midpoint"] = mid
            else:
                out["first_midpoint"] = v["w"] / 2
            rec["tr"] = tr
            return out
        finally:
            if not env.symbolic:
                c03.restore_eop()

    def ref(env, v, out):
        if not env.symbolic:
            return {"_skip": 0}
        return {"inside": None, "labelled": 1, "n_iterations": out["n_iterations"], "first_midpoint": v["w"] / 2}
    return Case("bisect", ins, run, ref, pre=pre, timeout=60, maxpaths=4000, maxdepth=maxdepth, tol=0, abs_tol=1e-9,
                desc="Speaker._bisect from an arbitrary bracket with a sign change: first probe is the midpoint, the emitted state lies "
                     "inside the bracket and carries the listener's label (all loop paths up to the unwinding bound)")


def bisect_step_case():
    """one bisection step preserves the sign-change bracket and halves it: executed through the real loop with the resolution set
    so that exactly one iteration runs (eps = w/3 < |step| = w/2, then |step'| = w/4 < eps)"""
    ins = INS + [("w", "pos")]

    def pre(v):
        return pre0(v) + [v["w"] < 2e6]

    def run(env, v):
        m, ls = setup_mods(env, v)
        try:
            if not env.symbolic:
                return {"_skip": 0}
            t0 = c03.mk_date(env, m, v["d"], v["s"], "UTC")
            td = lambda x: STD.of(x)
            probes = []

            class L(ls.Listener):
                def info(self, orb):
                    return "label"

                def __call__(self, orb):
                    return SF(g_of(env, "g", orb.date, t0))

            class Sp(ls.Speaker):
                _eps_bisect = td(v["w"] / 3)

                def propagate(self, date):
                    probes.append(date)
                    return Orb(date)
            gb, ge = uf("g", R.const(0)), uf("g", R.lift(v["w"]))
            CTX.assume(gb.term() * ge.term() <= 0)
            b, e = Orb(t0), Orb(t0 + td(v["w"]))
            res = Sp()._bisect(b, e, L())
            tr = (res.date - t0).total_seconds().r
            gm = uf("g", R.lift(v["w"]) / 2)
            # after one step the bracket is [0, w/2] or [w/2, w]; the returned `end` is its upper end
            lower_kept = tr == v["w"] / 2                  # end moved to the midpoint
            br_lo = z3.If(lower_kept.t, 0, (v["w"] / 2).term())
            g_lo = z3.If(lower_kept.t, gb.term(), gm.term())
            g_hi = z3.If(lower_kept.t, gm.term(), ge.term())
            return {"one_probe": len(probes), "probe_is_midpoint": (probes[0] - t0).total_seconds().r,
                    "end_is_mid_or_old_end": Holds((tr == v["w"] / 2) | (tr == v["w"])),
                    "sign_change_kept": Holds(SB(g_lo * g_hi <= 0))}
        finally:
            if not env.symbolic:
                c03.restore_eop()

    def ref(env, v, out):
        if not env.symbolic:
            return {"_skip": 0}
        return {"one_probe": 1, "probe_is_midpoint": v["w"] / 2, "end_is_mid_or_old_end": None, "sign_change_kept": None}
    return Case("bisect_step", ins, run, ref, pre=pre, timeout=60, maxpaths=200, tol=0, abs_tol=1e-9,
                desc="one step of the real bisection loop from an arbitrary bracket [b, e] with g(b) g(e) <= 0: probes the midpoint, keeps a "
                     "half bracket on which g still changes sign (inductive step: with the width halving, the emitted state is within the "
                     "resolution of a sign change)")


def anomaly_case():
    """AnomalyListener._diff wraps the difference into [-pi, pi) and check() requires |diff| < 2 on top of the sign change"""
    ins = [("x", "real"), ("val", "real")]

    def run(env, v):
        ls = env.mod("beyond.propagators.listeners")
        if not env.symbolic:
            ls = importlib.import_module("beyond.propagators.listeners")
        a = ls.AnomalyListener(v["val"], "true")
        a._convert = lambda orb: v["x"]
        d = a._diff(None)
        if env.symbolic:
            two_pi = 2 * core.PI
            k = (v["x"] - v["val"] - d) / two_pi
            from symx.dtmodel import rfloor
            return {"in_range": Holds((d >= -core.PI) & (d < core.PI)), "congruent": k - rfloor(k)}
        import math
        k = (v["x"] - v["val"] - d) / (2 * math.pi)
        return {"in_range": Holds(-math.pi <= d < math.pi), "congruent": k - round(k)}

    def ref(env, v, out):
        return {"in_range": None, "congruent": 0}
    return Case("anomaly_diff", ins, run, ref, timeout=60, maxpaths=50, tol=0, abs_tol=1e-9,
                desc="AnomalyListener._diff(x) lies in [-pi, pi) and differs from x - value by a multiple of 2 pi")


def anomaly_check_case():
    """AnomalyListener.check: a crossing of the target between two samples is reported exactly when the *wrapped* difference
    changes sign and the current sample is within 2 rad of the target (which rules the jump at +-pi out) -- wherever the raw
    anomaly and the target value sit with respect to 0 / 2 pi"""
    ins = [("xp", "real"), ("xc", "real"), ("val", "real")]

    def run(env, v):
        ls = env.mod("beyond.propagators.listeners") if env.symbolic else importlib.import_module("beyond.propagators.listeners")
        a = ls.AnomalyListener(v["val"], "true")
        a._convert = lambda orb: v[orb]
        a.prev = "xp"
        chk = bool(a.check("xc"))
        if env.symbolic:
            from symx.dtmodel import rfloor
            two_pi = 2 * core.PI
            wrap = lambda x: x - v["val"] - two_pi * rfloor((x - v["val"] + core.PI) / two_pi)
        else:
            import math
            wrap = lambda x: (x - v["val"]) - 2 * math.pi * math.floor((x - v["val"] + math.pi) / (2 * math.pi))
        dp, dc = wrap(v["xp"]), wrap(v["xc"])
        sgn = lambda d: 1 if bool(d > 0) else (-1 if bool(d < 0) else 0)
        expected = bool(dc < 2) and bool(dc > -2) and sgn(dp) != sgn(dc)
        return {"check_iff_wrapped_crossing": 1 if chk == expected else 0}

    def ref(env, v, out):
        return {"check_iff_wrapped_crossing": 1}

    def pre(v):
        # the raw anomaly of a sample lies in [0, 2 pi); the target may be given as any equivalent angle
        return [v["xp"] >= 0, v["xc"] >= 0, v["xp"] < 2 * core.PI, v["xc"] < 2 * core.PI, v["val"] > -7, v["val"] < 14]
    return Case("anomaly_check", ins, run, ref, pre=pre, timeout=60, maxpaths=400, tol=0, abs_tol=0.5,
                desc="AnomalyListener.check(sample) is true exactly when the difference to the target, wrapped into [-pi, pi), changes "
                     "sign between the previous and the current sample and is below 2 rad in absolute value at the current one; samples "
                     "in [0, 2 pi), target anywhere in (-7, 14) rad")


def labels_case():
    """labels follow the direction: AOS iff elevation rate > 0, Asc Node iff latitude rate >= 0; station guards"""
    ins = [("phi", "real"), ("phi_dot", "real"), ("gprev", "real"), ("gnow", "real"), ("own_dot", "real")]

    def run(env, v):
        ls = env.mod("beyond.propagators.listeners") if env.symbolic else importlib.import_module("beyond.propagators.listeners")

        class OF:
            """a state whose latitude rate is phi_dot in the watched frame "F" and own_dot in its own frame"""
            event = None

            def copy(self, **kw):
                pd = v["phi_dot"] if kw.get("frame") == "F" else v["own_dot"]
                ph = v["phi"] if kw.get("frame") == "F" else v["own_dot"]
                an = v["phi"] if (kw.get("frame") == "F" and kw.get("form") == "keplerian_mean") else v["own_dot"]
                return types.SimpleNamespace(phi=ph, phi_dot=pd, r_dot=pd, theta=0, M=an)

        class O:
            event = None

            def copy(self, **kw):
                return types.SimpleNamespace(phi=v["phi"], phi_dot=v["phi_dot"], r_dot=v["phi_dot"], theta=0)
        sig = ls.StationSignalListener("sta")
        node = ls.NodeListener()
        mx = ls.StationMaxListener("sta")
        mx.prev = O()
        vals = iter([v["gnow"], v["gprev"]])
        mx.__class__ = type("Mx", (ls.StationMaxListener,), {"__call__": lambda self, orb: next(vals)})
        aos = sig.info(O()).info
        nd = node.info(O()).info
        ndf = ls.NodeListener(frame="F").info(OF()).info
        watched = ls.NodeListener(frame="F")(OF())
        aps = ls.ApsideListener(frame="F")(OF())
        ano = ls.AnomalyListener(0, "mean", frame="F")._convert(OF())
        rad = ls.RadialVelocityListener("F")(OF())
        chk = mx.check(O())
        up = bool(v["phi_dot"] > 0)
        ndown = bool(v["phi_dot"] < 0)
        visible_descending = bool(v["phi"] > 0) and not up
        return {"aos_iff_rising": 1 if (aos == "AOS") == up else 0, "desc_iff_falling": 1 if (nd == "Desc Node") == ndown else 0,
                "desc_iff_falling_in_watched_frame": 1 if (ndf == "Desc Node") == ndown else 0,
                "node_quantity_is_watched_latitude": watched - v["phi"] + 1,
                "apside_quantity_is_watched_radial_rate": aps - v["phi_dot"] + 1,
                "anomaly_read_in_watched_frame_and_form": ano - v["phi"] + 1,
                "radial_quantity_is_watched_radial_rate": rad - v["phi_dot"] + 1,
                "max_needs_visible_and_not_rising": 1 if ((not chk) or visible_descending) else 0}

    def ref(env, v, out):
        return {"aos_iff_rising": 1, "desc_iff_falling": 1, "desc_iff_falling_in_watched_frame": 1, "node_quantity_is_watched_latitude": 1, "apside_quantity_is_watched_radial_rate": 1, "anomaly_read_in_watched_frame_and_form": 1,
                "radial_quantity_is_watched_radial_rate": 1, "max_needs_visible_and_not_rising": 1}
    return Case("labels", ins, run, ref, timeout=60, maxpaths=400, tol=0, abs_tol=0.5,
                desc="AOS iff the elevation rate is positive (LOS otherwise), Desc Node iff the latitude rate in the watched frame (NodeListener(frame=)) is negative, a MAX event is "
                     "only considered above the horizon while the elevation is not rising")


def stream_case():
    """AnalyticalPropagator.iter with a listener: events of step k come after sample k-1 and before sample k in the output"""
    ins = INS + [("dt", "pos"), ("m1", "real")]

    def pre(v):
        return pre0(v) + [v["m1"] > 0, v["m1"] < v["dt"]]

    def run(env, v):
        m, ls = setup_mods(env, v)
        try:
            if not env.symbolic:
                return {"_skip": 0}
            base = env.mod("beyond.propagators.base")
            base.Date = m.Date
            base.timedelta = STD
            t0 = c03.mk_date(env, m, v["d"], v["s"], "UTC")
            td = lambda x: STD.of(x)

            class L(ls.Listener):
                def info(self, orb):
                    return "ev"

                def __call__(self, orb):
                    return SF(g_of(env, "g", orb.date, t0))

            class P(base.AnalyticalPropagator):
                orbit = types.SimpleNamespace(date=t0)

                def propagate(self, date):
                    return Orb(date)

                def _bisect(self, begin, end, listener):
                    o = Orb(begin.date + td(v["m1"]))
                    o.event = "ev"
                    return o
            seq = [(o.event, (o.date - t0).total_seconds().r) for o in P().iter(start=t0, stop=td(2 * v["dt"]), step=td(v["dt"]),
                                                                                 listeners=[L()])]
            times = [t for _, t in seq]
            ok = SB(z3.BoolVal(True))
            for a, b in zip(times, times[1:]):
                ok = ok & (a <= b)
            n_samples = sum(1 for e, _ in seq if e is None)
            return {"chronological": Holds(ok), "three_samples": n_samples, "first_is_sample": 1 if seq[0][0] is None else 0}
        finally:
            if not env.symbolic:
                c03.restore_eop()

    def ref(env, v, out):
        if not env.symbolic:
            return {"_skip": 0}
        return {"chronological": None, "three_samples": 3, "first_is_sample": 1}
    return Case("stream", ins, run, ref, pre=pre, timeout=60, maxpaths=2000, tol=0, abs_tol=0.5,
                desc="iteration with a listener over 3 samples: the output stream (samples + events located between consecutive samples) "
                     "is in chronological order, starts with the first sample and contains every sample")


def visibility_case():
    """the real TopocentricFrame.visibility: of the stream coming from the propagator exactly the points above the horizon
    (phi >= 0) and the station's own events (AOS/LOS/MAX, whatever their elevation) are passed on, each moved to the station
    frame in spherical form; and calling it again with the *same* user-supplied listener list neither grows that list nor
    doubles the station listeners handed to the propagator"""
    ins = [("phi0", "real"), ("phi1", "real"), ("phi2", "real"), ("phie", "real")]

    def run(env, v):
        sta_mod = env.mod("beyond.frames.stations") if env.symbolic else importlib.import_module("beyond.frames.stations")
        ls = importlib.import_module("beyond.propagators.listeners")

        class Sta:
            mask = None
            name = "vfsta"
            visibility = sta_mod.TopocentricFrame.visibility
        sta = Sta()
        handed = []

        made = []

        class P:
            def __init__(self, phi, event=None, frame=None, form=None):
                self.phi, self.event, self.frame, self.form = phi, event, frame, form
                self.origin = self
                if frame is None and form is None:
                    made.append(self)

            def copy(self, frame=None, form=None):
                q = P(self.phi, self.event, frame if frame is not None else self.frame, form if form is not None else self.form)
                q.origin = self.origin
                return q

        class Orb:
            def iter(self, **kw):
                handed.append(list(kw.get("listeners", [])))
                sig = [l for l in kw.get("listeners", []) if isinstance(l, ls.StationSignalListener)]
                ev = sig[0].event(sig[0], "AOS") if sig else None
                return iter([P(v["phi0"]), P(v["phie"], ev), P(v["phi1"]), P(v["phi2"])])

        class UserListener(ls.Listener):
            def info(self, orb):
                return None

            def __call__(self, orb):
                return 0
        user = [UserListener()]
        first = list(sta.visibility(Orb(), events=True, listeners=user))
        n_user_1 = len(user)
        second = list(sta.visibility(Orb(), events=True, listeners=user))
        out = {}
        for k, key in enumerate(("phi0", "phi1", "phi2")):
            present = [p for p in first if p.origin.phi is v[key]]
            out[f"kept{k}"] = len(present)
        evp = [p for p in first if p.event is not None]
        lab = all(p.frame is sta and p.form == "spherical" for p in first)
        # the samples handed over by the propagator are also what its listeners keep as `prev`: they must not be changed
        untouched = all(p.frame is None and p.form is None for p in made)
        out["samples_left_untouched"] = Holds(SB(z3.BoolVal(bool(untouched))) if env.symbolic else bool(untouched))
        out.update({"event_kept": len(evp), "moved_to_station_frame": Holds(SB(z3.BoolVal(bool(lab))) if env.symbolic else bool(lab)),
                    "user_list_len_after_1": n_user_1, "user_list_len_after_2": len(user),
                    "listeners_handed_1": len(handed[0]), "listeners_handed_2": len(handed[1]),
                    "second_stream_len": len(second) - len(first)})
        return out

    def ref(env, v, out):
        r = {}
        for k, key in enumerate(("phi0", "phi1", "phi2")):
            r[f"kept{k}"] = 1 if (v[key] >= 0) else 0
        r["samples_left_untouched"] = None
        r.update({"event_kept": 1, "moved_to_station_frame": None, "user_list_len_after_1": 1, "user_list_len_after_2": 1,
                  "listeners_handed_1": 3, "listeners_handed_2": 3, "second_stream_len": 0})
        return r
    return Case("visibility/filter", ins, run, ref, timeout=60, maxpaths=100, tol=0, abs_tol=0.5,
                signature="TopocentricFrame.visibility grows the caller's listener list",
                desc="station.visibility(events=True, listeners=L): keeps exactly the above-horizon points and the station's events, in "
                     "the station frame / spherical form; L is left as given and a second call hands the propagator the same listeners")


def light_case(kind):
    """LightListener geometry against the conical shadow model: behind the body (x_sun . x_sat < 0) the satellite is in penumbra
    iff its distance to the shadow axis is <= (X_p + h) tan(a_p), a_p = asin((R_sun + R_body)/d), X_p = R_body / sin(a_p), and in
    umbra iff it is also <= (X_u - h) tan(a_u), a_u = asin((R_sun - R_body)/d), X_u = R_body / sin(a_u); h = distance behind the
    body along the axis.  The satellite is placed in the plane z = 0 with the sun on the +x axis (the model is symmetric about
    the axis).  The listener's value is negative exactly inside the cone of its type."""
    ins = [("d", "pos"), ("Rs", "pos"), ("Re", "pos"), ("px", "real"), ("py", "real")]

    def pre(v):
        return [v["Rs"] > v["Re"], v["d"] > v["Rs"] + v["Re"], v["px"] * v["px"] + v["py"] * v["py"] > v["Re"] * v["Re"]]

    def run(env, v):
        ls = env.mod("beyond.propagators.listeners") if env.symbolic else importlib.import_module("beyond.propagators.listeners")
        sol = importlib.import_module("beyond.env.solarsystem")
        from symx.stubs import FrameStub, carrier
        frame = FrameStub("EME2000", None, r=v["Re"])

        def mk(vals):
            if env.symbolic:
                return carrier(list(vals), date=None, frame=frame, form="cartesian")
            a = np.array(vals, dtype=float).view(_ConcOrb)
            a.frame, a.date = frame, None
            return a

        class Sun:
            r = v["Rs"]

            def propagate(self, date):
                return mk([v["d"], 0, 0, 0, 0, 0])
        saved = sol.get_body
        sol.get_body = lambda name: Sun()
        try:
            val_ = ls.LightListener(kind)(mk([v["px"], v["py"], 0, 0, 0, 0]))
        finally:
            sol.get_body = saved
        inside = bool(val_ < 0) if not env.symbolic else (val_ < 0)
        # reference cone
        h = -v["px"]
        vert = abs(v["py"])
        sp, su = (v["Rs"] + v["Re"]) / v["d"], (v["Rs"] - v["Re"]) / v["d"]
        tp, tu = sp / env.sqrt(1 - sp * sp), su / env.sqrt(1 - su * su)
        Xp, Xu = v["Re"] / sp, v["Re"] / su
        if env.symbolic:
            night = v["px"] < 0
            in_pen = night & (vert <= (Xp + h) * tp)
            in_umb = in_pen & (vert <= (Xu - h) * tu)
            want = in_pen if kind == "penumbra" else in_umb
            got = SB(z3.BoolVal(bool(inside)))
            return {"inside_cone": Holds((want & got) | (~want & ~got))}
        night = v["px"] < 0
        in_pen = night and vert <= (Xp + h) * tp
        in_umb = in_pen and vert <= (Xu - h) * tu
        want = in_pen if kind == "penumbra" else in_umb
        return {"inside_cone": Holds(bool(want) == bool(inside))}

    def ref(env, v, out):
        return {"inside_cone": None}
    AU, RS, RE = 1.496e11, 6.957e8, 6.378e6
    return Case(f"light/{kind}", ins, run, ref, pre=pre, timeout=120, maxpaths=64,
                signature=f"LightListener {kind} cone",
                extra_points=[{"d": AU, "Rs": RS, "Re": RE, "px": -4.2e7, "py": 6.5767e6}, {"d": AU, "Rs": RS, "Re": RE, "px": -7e6, "py": 6.4108e6},
                              {"d": AU, "Rs": RS, "Re": RE, "px": -4.2e7, "py": 6.18e6}],
                desc=f"LightListener({kind}) is negative exactly when the satellite is inside the {kind} cone of the conical shadow model")


class _ConcOrb(np.ndarray):
    """float state with the two attributes LightListener reads (concrete replay of light/*)"""
    def copy(self, form=None, frame=None):
        new = np.ndarray.copy(self).view(_ConcOrb)
        new.frame, new.date = self.frame, self.date
        return new


def all_cases(tier):
    b = bounds(tier)
    cs = [listen_case(n) for n in range(1, b["listeners"] + 1)]
    cs += [bisect_case(b["bisect_decisions"]), bisect_step_case(), anomaly_case(), anomaly_check_case(), labels_case(), stream_case(), visibility_case(), light_case("umbra"),
           light_case("penumbra")]
    return cs


def groups(tier):
    return {c.name.replace("/", "_"): (lambda c=c: run_cases([c])) for c in all_cases(tier)}


def replay(ob, model):
    # the counterexamples of this property are over uninterpreted watched quantities: replay = concrete re-execution of
    # the same scenario with a step function realising the model's signs
    rp = ob.get("replay") or {}
    name = rp.get("case", "")
    if name.startswith("visibility") or name.startswith("light"):
        return replay_cases(all_cases("thorough"), ob, model)
    try:
        return _replay_concrete(name, rp.get("component"), model)
    except Exception as e:  # noqa
        return {"reproduced": False, "signature": "replay-crash", "detail": repr(e)}


def _replay_concrete(name, comp, model):
    from beyond.propagators import listeners as ls
    from beyond.dates import Date
    t0 = Date(2020, 1, 1)

    class O:
        def __init__(self, date):
            self.date, self.event = date, None

        def copy(self, **kw):
            return O(self.date)
    if name.startswith("listen"):
        nl = int(name.split("/")[1])
        bad = []
        for signs in [(1, -1), (-1, 1), (1, 1), (0, 1), (1, 0), (-1, -1), (0, 0)]:
            class L(ls.Listener):
                def __init__(self, i):
                    self.i = i

                def info(self, orb):
                    return "e"

                def __call__(self, orb):
                    return signs[0] if orb.date == t0 else signs[1]

            class Sp(ls.Speaker):
                def propagate(self, date):
                    return O(date)

                def _bisect(self, b, e, l):
                    o = O(b.date + (e.date - b.date) / (2 + l.i))
                    o.event = "e"
                    return o
            lst = [L(i) for i in range(nl)]
            sp = Sp()
            sp.clear_listeners(lst)
            first = sp.listen(O(t0), lst)
            second = sp.listen(O(t0 + _td(seconds=60)), lst)
            expect = nl if np.sign(signs[0]) != np.sign(signs[1]) else 0
            unsorted = [x.date for x in second] != sorted(x.date for x in second)
            if len(first) != 0 or len(second) != expect or any(l.prev is None for l in lst) or unsorted:
                bad.append((signs, len(first), len(second)))
        return {"reproduced": bool(bad), "signature": "Speaker.listen", "detail": f"{name}: sign patterns with wrong events: {bad}"}
    if name.startswith("bisect"):
        bad = []
        for cross in (0.1, 17.3, 59.9):
            class L(ls.Listener):
                def info(self, orb):
                    return "e"

                def __call__(self, orb):
                    return (orb.date - t0).total_seconds() - cross

            class Sp(ls.Speaker):
                def propagate(self, date):
                    return O(date)
            r = Sp()._bisect(O(t0), O(t0 + _td(seconds=60)), L())
            err = abs((r.date - t0).total_seconds() - cross)
            if err > 3e-6 or r.event != "e":
                bad.append((cross, err))
        return {"reproduced": bool(bad), "signature": "Speaker._bisect", "detail": f"crossings not located within 3 us: {bad}"}
    if name == "stream":
        from beyond.propagators.base import AnalyticalPropagator

        class L(ls.Listener):
            def info(self, orb):
                return ls.Event(self, "e")

            def __call__(self, orb):
                return (orb.date - t0).total_seconds() - 70.0

        class P(AnalyticalPropagator):
            orbit = types.SimpleNamespace(date=t0)

            def propagate(self, date):
                return O(date)
        seq = [(o.date - t0).total_seconds() for o in P().iter(start=t0, stop=_td(seconds=120), step=_td(seconds=60), listeners=[L()])]
        ok = seq == sorted(seq) and len(seq) == 4 and abs(seq[2] - 70.0) < 1e-5
        return {"reproduced": not ok, "signature": "listener stream order", "detail": f"stream {seq}"}
    cases = {c.name: c for c in all_cases("quick")}
    if name in cases:
        return cases[name].replay(model, comp)
    return {"reproduced": False, "signature": "?", "detail": name}
