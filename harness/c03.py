"""C03 -- time scales: one instant, exact offsets, lawful date arithmetic (DESIGN.md section C03)."""
import ast
import importlib
import inspect
import types
from datetime import timedelta as _td, datetime as _dt

import z3

from symx import core, solve, dtmodel
from harness import c03r
from symx.case import Case, Holds, run_cases, replay_cases
from symx.core import R, CTX, SB, explore, var
from symx.dtmodel import SF, SI, STD, SDT

PROPERTY = "C03"
FUNCS = ["beyond.dates.date:Timescale.offset", "beyond.dates.date:Timescale._scale_tdb_minus_tt", "beyond.dates.date:Date.__init__",
         "beyond.dates.date:Date._convert_to_scale", "beyond.dates.date:Date._convert_dt", "beyond.dates.date:Date.__add__",
         "beyond.dates.date:Date.__sub__", "beyond.dates.date:Date.change_scale", "beyond.dates.date:Date._mjd",
         "beyond.dates.date:Date.__eq__", "beyond.dates.date:Date.__hash__", "beyond.dates.date:Date.__lt__",
         "beyond.dates.date:DateRange.__init__", "beyond.dates.date:DateRange.__iter__", "beyond.dates.date:DateRange.__len__",
         "beyond.dates.date:DateRange.__contains__", "beyond.dates.eop:EopDb.get",
         "beyond.dates.eop:Finals2000A.__init__", "beyond.dates.eop:TaiUtc.__init__", "beyond.dates.eop:SimpleEopDatabase.__init__",
         "beyond.dates.eop:SimpleEopDatabase.__getitem__", "beyond.dates.eop:SimpleEopDatabase.finals",
         "beyond.dates.eop:SimpleEopDatabase.tai_utc"]
STUBS = ["range/*_fp: timedelta.total_seconds() additionally carries a relative rounding error |delta| <= 2^-52 (float seconds vs exact "
         "timedelta arithmetic)", "float/int -> SF/SI (float/int subclasses wrapping exact reals; // % divmod with Python floor semantics)",
         "datetime/timedelta -> exact real seconds (microsecond rounding not modelled)", "EopDb.get -> one symbolic record "
         "(tai_utc, ut1_utc) for the dates of one obligation (same-day assumption)", "eq/hash consistency: the return expressions of "
         "Date._mjd / __eq__ / __hash__ are translated from the AST into IEEE-754 binary64 terms (QF_FP)",
         "readers: pathlib.Path in beyond.dates.eop -> in-memory files of 3 lines each whose digits and sign columns are solver variables "
         "(class of every column -- blank, digit, sign, point, flag -- fixed by the IERS format description); float -> decimal value of "
         "such a field (ValueError on blank or malformed slices, as the builtin); int -> floor by forking over the modelled days"]
ASSUMPTIONS = ["exact reals for the arithmetic laws (rounding outside), binary64 for the eq/hash clause", "the EOP record does not change "
               "between the two dates of one obligation (no leap second, same table day)", "|ut1_utc| < 0.9, tai_utc in [10, 37]",
               "seconds of day in [0, 86400)"]
OUTSIDE = ["content of the real IERS tables (the readers are checked on arbitrary contents of 3-line files in the published "
           "fixed format: finals lines with all fields, without nutation corrections, without LOD, or ended; pre-1972 tai-utc drift "
           "terms are ignored by the code and outside the 1973-2017 claim)", "value of the TDB periodic term (only its bound 1.7 ms and its use are checked)",
           "bit-precise 1-2 microsecond bounds of the conversions (floating point + timedelta rounding)"]
SCALES = ["UT1", "GPS", "TDB", "UTC", "TAI", "TT"]


def bounds(tier):
    return {"daterange_unwinding": 4 if tier == "quick" else 6, "scale_pairs": 36}


def datemod(env):
    m = env.mod("beyond.dates.date")
    if env.symbolic:
        dtmodel.install_date_module(m)
    return m


class _Eop:
    def __init__(self, tai_utc, ut1_utc):
        self.tai_utc, self.ut1_utc = tai_utc, ut1_utc
        self.x = self.y = self.dx = self.dy = self.deps = self.dpsi = self.lod = 0


def install_eop(env, m, v):
    if env.symbolic:
        eop = _Eop(SF(v["tai_utc"]), SF(v["ut1_utc"]))
        m.EopDb = types.SimpleNamespace(get=lambda mjd, dbname=None: eop)
        return eop
    from beyond.dates.eop import Eop
    eop = Eop(x=0, y=0, dx=0, dy=0, deps=0, dpsi=0, lod=0, ut1_utc=float(v["ut1_utc"]), tai_utc=float(v["tai_utc"]))
    import beyond.dates.date as D

    class _Db:
        @staticmethod
        def get(mjd, dbname=None):
            return eop
    D.EopDb = _Db
    return eop


def restore_eop():
    import beyond.dates.date as D
    import beyond.dates.eop as E
    D.EopDb = E.EopDb


EOP_IN = [("tai_utc", "int"), ("ut1_utc", "real")]


def eop_pre(v):
    return [v["tai_utc"] >= 10, v["tai_utc"] <= 37, v["ut1_utc"] > -0.9, v["ut1_utc"] < 0.9]


def rel_tai(env, name, v, p=0):
    """X - TAI in seconds, from the tabulated definitions"""
    c = env.const
    return {"TAI": 0, "UTC": -v["tai_utc"], "UT1": v["ut1_utc"] - v["tai_utc"], "GPS": -19, "TT": c(32.184), "TDB": c(32.184) + p}[name]


# --------------------------------------------------------------------------- (a) offsets between scales
def offset_case(a):
    ins = EOP_IN + [("mjd", "real")]

    def run(env, v):
        m = datemod(env)
        eop = install_eop(env, m, v)
        try:
            sc = m.get_scale(a)
            mjd = SF(v["mjd"]) if env.symbolic else float(v["mjd"])
            out = {}
            for b in SCALES:
                off = sc.offset(mjd, b, eop)
                back = m.get_scale(b).offset(mjd, a, eop)
                if "TDB" in (a, b) and a != b:
                    via = sc.offset(mjd, "TT", eop) if a != "TDB" else -m.get_scale(b).offset(mjd, "TT", eop)
                    p = (off - via) if a != "TDB" else (off - via)
                    pr = R.lift(val(p)) if env.symbolic else p
                    out[f"{a}->{b}:periodic<1.7ms"] = Holds((pr < 0.0017) & (pr > -0.0017)) if env.symbolic else Holds(abs(pr) < 0.0017)
                    out[f"{a}->{b}"] = val(via)
                else:
                    out[f"{a}->{b}"] = val(off)
                s = off + back
                out[f"{a}->{b}->{a}"] = s.r if isinstance(s, (SF, SI)) else s
            return out
        finally:
            if not env.symbolic:
                restore_eop()

    def ref(env, v, out):
        r = {}
        for b in SCALES:
            tb = "TT" if (b == "TDB" and a != "TDB") else b
            ta = "TT" if (a == "TDB" and b != "TDB") else a
            if "TDB" in (a, b) and a != b:
                r[f"{a}->{b}:periodic<1.7ms"] = None
                r[f"{a}->{b}"] = rel_tai(env, tb, v) - rel_tai(env, ta, v)
            else:
                r[f"{a}->{b}"] = rel_tai(env, b, v) - rel_tai(env, a, v)
            r[f"{a}->{b}->{a}"] = 0
        return r
    return Case(f"offset/{a}", ins, run, ref, pre=eop_pre, tol=1e-12, abs_tol=1e-9,
                desc=f"offsets from {a} to every scale: exactly the signed sum of TT-TAI=32.184, TAI-GPS=19, TAI-UTC, UT1-UTC of the EOP "
                     "record (TDB: TT plus a periodic term below 1.7 ms), and antisymmetric")


# --------------------------------------------------------------------------- (b,c) construction, recovery, change of scale
def mk_date(env, m, d, s, scale):
    if env.symbolic:
        return m.Date(SI(d), SF(s), scale=scale)
    return m.Date(int(d), float(s), scale=scale)


def instant(env, date):
    """seconds since MJD origin in TAI, from the private representation"""
    if env.symbolic:
        return date._d.r * 86400 + date._s.r if isinstance(date._d, (SI, SF)) else R.lift(date._d) * 86400 + date._s.r
    return date._d * 86400 + date._s


def val(x):
    return x.r if isinstance(x, (SF, SI)) else x


def reading_checks(env, out, tag, date, tau, rel):
    """a Date is a faithful view of (instant, label): private seconds normalised, instant right, and the public clock reading
    (d, s) is THE pair with d integral, 0 <= s < 86400, d*86400 + s = instant + (scale - TAI)"""
    out[f"{tag}:_s_lo"] = Holds(val(date._s) >= 0)
    out[f"{tag}:_s_hi"] = Holds(val(date._s) < 86400)
    out[f"{tag}:instant"] = instant(env, date)
    out[f"{tag}:reading"] = val(date.d) * 86400 + val(date.s)
    out[f"{tag}:s_lo"] = Holds(val(date.s) >= 0)
    out[f"{tag}:s_hi"] = Holds(val(date.s) < 86400)
    if env.symbolic:
        from symx.dtmodel import _integral
        out[f"{tag}:d_integral"] = Holds(_integral(R.lift(val(date.d))))
    else:
        out[f"{tag}:d_integral"] = Holds(float(date.d).is_integer())
    out[f"{tag}:mjd"] = val(date.mjd) * 86400


def reading_refs(r, tag, tau, rel):
    for k in ("_s_lo", "_s_hi", "s_lo", "s_hi", "d_integral"):
        r[f"{tag}:{k}"] = None
    r[f"{tag}:instant"] = tau
    r[f"{tag}:reading"] = tau + rel
    r[f"{tag}:mjd"] = tau + rel


def scale_case(a, b):
    """a Date built in scale a, then change_scale(b): both are faithful views of the same instant"""
    ins = EOP_IN + [("d", "int"), ("s", "real")]

    def pre(v):
        return eop_pre(v) + [v["d"] >= 41317, v["d"] <= 58000, v["s"] >= 0, v["s"] < 86400]

    def run(env, v):
        m = datemod(env)
        install_eop(env, m, v)
        try:
            date = mk_date(env, m, v["d"], v["s"], a)
            out = {"d": val(date.d), "s": val(date.s)}
            reading_checks(env, out, "src", date, None, None)
            n = date.change_scale(b)
            reading_checks(env, out, "dst", n, None, None)
            out["label"] = 1 if n.scale.name == b else 0
            out["equal"] = Holds(n == date) if env.symbolic else Holds(abs((n - date).total_seconds()) <= 2e-6)
            return out
        finally:
            if not env.symbolic:
                restore_eop()

    def ref(env, v, out):
        tau = v["d"] * 86400 + v["s"] - rel_tai(env, a, v)
        r = {"d": v["d"], "s": v["s"], "label": 1, "equal": None}
        reading_refs(r, "src", tau, rel_tai(env, a, v))
        reading_refs(r, "dst", tau, rel_tai(env, b, v))
        return r
    return Case(f"scale/{a}->{b}", ins, run, ref, pre=pre, timeout=60, maxpaths=400, tol=1e-12, abs_tol=3e-6,
                desc=f"a Date given in {a} and its change_scale({b}): private seconds normalised, same instant (they compare equal), new label, "
                     "and each public clock reading (d, s) is the unique normalised pair d*86400+s = instant + (scale-TAI)")


def ut1_day_case():
    """UTC -> UT1 with UT1-UTC depending on the day (as in the IERS tables): the converted date denotes the same instant.
    The EOP database is an uninterpreted function of the day it is asked for, bounded by 0.9 s at the two days used."""
    from symx.core import uf
    ins = [("tai_utc", "int"), ("d", "int"), ("s", "real")]

    def pre(v):
        return [v["tai_utc"] >= 10, v["tai_utc"] <= 37, v["d"] >= 41317, v["d"] <= 58000, v["s"] >= 0, v["s"] < 86400]

    def run(env, v):
        if env.symbolic:
            m = datemod(env)

            def get(mjd, dbname=None):
                day = dtmodel.rfloor(mjd.r if isinstance(mjd, (SF, SI)) else R.lift(mjd))
                day = day.r if isinstance(day, (SF, SI)) else R.lift(day)
                u = uf("ut1_of_day", day)
                CTX.assume(u.term() > z3.RealVal("-0.9"), u.term() < z3.RealVal("0.9"))
                return _Eop(SF(v["tai_utc"]), SF(u))
            m.EopDb = types.SimpleNamespace(get=get)
            a = mk_date(env, m, v["d"], v["s"], "UTC")
            u = a.change_scale("UT1")
            return {"same_instant": (val(u._d) - val(a._d)) * 86400 + val(u._s) - val(a._s)}
        import beyond.dates.eop as E
        from beyond.dates import Date
        from beyond.config import config

        class DayDb:
            def __getitem__(self, mjd):
                day = int(mjd)
                return E.Eop(x=0, y=0, dx=0, dy=0, deps=0, dpsi=0, lod=0, ut1_utc=0.002 * (day % 7) - 0.3, tai_utc=float(v["tai_utc"]))
        E.EopDb._dbs["vf_daydb3"] = DayDb()
        config.update({"eop": {"dbname": "vf_daydb3", "missing_policy": "error"}})
        try:
            a = Date(int(v["d"]), float(v["s"]), scale="UTC")
            u = a.change_scale("UT1")
            return {"same_instant": (u._d - a._d) * 86400 + u._s - a._s}
        finally:
            E.EopDb._dbs.pop("vf_daydb3", None)
            config.pop("eop", None)

    def ref(env, v, out):
        return {"same_instant": 0}
    return Case("scale/UTC->UT1/day_dependent_eop", ins, run, ref, pre=pre, timeout=60, maxpaths=200, tol=0, abs_tol=2e-6,
                signature="Date.eop looked up by the day of the date's own scale",
                extra_points=[{"d": 57000, "s": 86399.95}, {"d": 57001, "s": 0.05}],
                desc="UTC -> UT1 with a UT1-UTC that changes from one day to the next: same instant within the microsecond")


def tdb_case():
    """TDB: construction and recovery (the periodic term is the code's own; same-instant across a TDB conversion needs a Lipschitz
    bound of that term and is outside)"""
    ins = EOP_IN + [("d", "int"), ("s", "real")]

    def pre(v):
        return eop_pre(v) + [v["d"] >= 41317, v["d"] <= 58000, v["s"] >= 0, v["s"] < 86400]

    def run(env, v):
        m = datemod(env)
        install_eop(env, m, v)
        try:
            date = mk_date(env, m, v["d"], v["s"], "TDB")
            off = date._offset
            return {"_s_lo": Holds(val(date._s) >= 0), "_s_hi": Holds(val(date._s) < 86400),
                    "instant": instant(env, date) - val(off)}
        finally:
            if not env.symbolic:
                restore_eop()

    def ref(env, v, out):
        return {"_s_lo": None, "_s_hi": None, "instant": v["d"] * 86400 + v["s"]}
    return Case("scale/TDB", ins, run, ref, pre=pre, timeout=60, maxpaths=100, tol=1e-12, abs_tol=3e-6,
                desc="a Date given in TDB: normalised private seconds, instant = reading + stored offset, reading recovered")


# --------------------------------------------------------------------------- (d) arithmetic laws
def arith_case(a):
    ins = EOP_IN + [("d", "int"), ("s", "real"), ("t1", "real"), ("t2", "real")]

    def pre(v):
        return eop_pre(v) + [v["d"] >= 41317, v["d"] <= 58000, v["s"] >= 0, v["s"] < 86400,
                             v["t1"] > -3e6, v["t1"] < 3e6, v["t2"] > -3e6, v["t2"] < 3e6]

    def run(env, v):
        m = datemod(env)
        install_eop(env, m, v)
        try:
            date = mk_date(env, m, v["d"], v["s"], a)
            td = (lambda x: STD.of(x)) if env.symbolic else (lambda x: _td(seconds=float(x)))
            t1, t2 = td(v["t1"]), td(v["t2"])
            p1 = date + t1
            diff = (p1 - date).total_seconds()
            lhs = date + (t1 + t2)
            rhs = (date + t1) + t2
            m1 = date - t1
            return {"(d+t)-d": val(diff), "assoc": val((lhs - rhs).total_seconds()), "d-t": val((date - m1).total_seconds()),
                    "label": 1 if p1.scale.name == a else 0,
                    "order": Holds((p1 > date) if bool(v["t1"] > 0) else (p1 <= date))}
        finally:
            if not env.symbolic:
                restore_eop()

    def ref(env, v, out):
        return {"(d+t)-d": v["t1"], "assoc": 0, "d-t": v["t1"], "label": 1, "order": None}
    return Case(f"arith/{a}", ins, run, ref, pre=pre, timeout=120, maxpaths=400, tol=1e-9, abs_tol=3e-6,
                desc=f"{a}: (d+t)-d = t, d-(d-t) = t, d+(t1+t2) = (d+t1)+t2, the sum keeps the scale, and adding a positive duration "
                     "gives a later date")


def state_case(a):
    """a Date rebuilt from its saved state (what pickle, copy.copy, copy.deepcopy and multiprocessing do: __getstate__ then
    __setstate__ on a blank instance) is the same date: same instant, same clock reading, same label"""
    ins = EOP_IN + [("d", "int"), ("s", "real")]

    def pre(v):
        return eop_pre(v) + [v["d"] >= 41317, v["d"] <= 58000, v["s"] >= 0, v["s"] < 86400]

    def run(env, v):
        m = datemod(env)
        install_eop(env, m, v)
        try:
            x = mk_date(env, m, v["d"], v["s"], a)
            if env.symbolic:
                y = m.Date.__new__(m.Date)
                y.__setstate__(x.__getstate__())
                same = bool(x == y) and y.scale.name == a
                return {"instant": instant(env, y) - instant(env, x), "day": val(y.d) - val(x.d), "seconds": val(y.s) - val(x.s),
                        "equal_and_label": Holds(SB(z3.BoolVal(bool(same))))}
            import copy
            import pickle
            out = {"instant": 0.0, "day": 0.0, "seconds": 0.0}
            ok = True
            for y in (pickle.loads(pickle.dumps(x)), copy.deepcopy(x), copy.copy(x)):
                out["instant"] = max(out["instant"], abs(instant(env, y) - instant(env, x)))
                out["day"] = max(out["day"], abs(y.d - x.d))
                out["seconds"] = max(out["seconds"], abs(y.s - x.s))
                ok = ok and y == x and y.scale.name == a
            out["equal_and_label"] = Holds(bool(ok))
            return out
        finally:
            if not env.symbolic:
                restore_eop()

    def ref(env, v, out):
        return {"instant": 0, "day": 0, "seconds": 0, "equal_and_label": None}
    return Case(f"state/{a}", ins, run, ref, pre=pre, timeout=60, maxpaths=100, tol=0, abs_tol=1e-9,
                desc=f"{a}: a Date restored from its saved state (pickle / copy / deepcopy) is the same instant with the same clock "
                     "reading and label")


# --------------------------------------------------------------------------- (e) ordering independent of the label
def order_case(a, b):
    ins = EOP_IN + [("d1", "int"), ("s1", "real"), ("d2", "int"), ("s2", "real")]

    def pre(v):
        return eop_pre(v) + [v["d1"] >= 41317, v["d1"] <= 58000, v["s1"] >= 0, v["s1"] < 86400,
                             v["d2"] >= 41317, v["d2"] <= 58000, v["s2"] >= 0, v["s2"] < 86400]

    def run(env, v):
        m = datemod(env)
        install_eop(env, m, v)
        try:
            x = mk_date(env, m, v["d1"], v["s1"], a)
            y = mk_date(env, m, v["d2"], v["s2"], b)
            tx = v["d1"] * 86400 + v["s1"] - rel_tai(env, a, v)
            ty = v["d2"] * 86400 + v["s2"] - rel_tai(env, b, v)
            if env.symbolic:
                return {"lt": Holds(SB((x < y).t == (tx < ty).t)), "le": Holds(SB((x <= y).t == (tx <= ty).t)),
                        "eq": Holds(SB((x == y).t == (tx == ty).t)), "gt": Holds(SB((x > y).t == (tx > ty).t)),
                        "trichotomy": Holds(SB(z3.Or((x < y).t, (x == y).t, (x > y).t)))}
            gap = abs(tx - ty) > 1e-4      # concrete replay: away from ties (float resolution of _mjd is ~0.6 microseconds)
            return {"lt": Holds((not gap) or ((x < y) == (tx < ty))), "le": Holds((not gap) or ((x <= y) == (tx <= ty))),
                    "eq": Holds((not gap) or ((x == y) == (tx == ty))), "gt": Holds((not gap) or ((x > y) == (tx > ty))),
                    "trichotomy": Holds((x < y) or (x == y) or (x > y))}
        finally:
            if not env.symbolic:
                restore_eop()

    def ref(env, v, out):
        return {k: None for k in ("lt", "le", "eq", "gt", "trichotomy")}
    return Case(f"order/{a}-{b}", ins, run, ref, pre=pre, timeout=120, maxpaths=200,
                desc=f"comparison of a {a} date with a {b} date follows the instants, not the labels; trichotomy")


# --------------------------------------------------------------------------- eq / hash consistency in binary64 (AST -> QF_FP)
def _fp_expr(node, env, cls_ast, depth=0):
    """translate a restricted Python arithmetic expression over self._d / self._s / properties into z3 FP terms"""
    RM = z3.RNE()
    F64 = z3.Float64()
    if isinstance(node, ast.BinOp):
        a, b = _fp_expr(node.left, env, cls_ast, depth), _fp_expr(node.right, env, cls_ast, depth)
        if isinstance(node.op, ast.Add):
            return z3.fpAdd(RM, a, b)
        if isinstance(node.op, ast.Sub):
            return z3.fpSub(RM, a, b)
        if isinstance(node.op, ast.Mult):
            return z3.fpMul(RM, a, b)
        if isinstance(node.op, ast.Div):
            return z3.fpDiv(RM, a, b)
        raise NotImplementedError(ast.dump(node.op))
    if isinstance(node, ast.Constant) and isinstance(node.value, (int, float)):
        return z3.FPVal(float(node.value), F64)
    if isinstance(node, ast.Attribute) and isinstance(node.value, ast.Name) and node.value.id in env["objs"]:
        who = node.value.id
        if node.attr in ("_d", "_s"):
            return env["objs"][who][node.attr]
        if depth > 4:
            raise NotImplementedError("property nesting")
        prop = _prop_return(cls_ast, node.attr)
        sub = dict(env)
        sub["objs"] = dict(env["objs"])
        sub["objs"]["self"] = env["objs"][who]
        return _fp_expr(prop, sub, cls_ast, depth + 1)
    raise NotImplementedError(ast.dump(node)[:120])


def _prop_return(cls_ast, name):
    for n in cls_ast.body:
        if isinstance(n, ast.FunctionDef) and n.name == name:
            rets = [x for x in ast.walk(n) if isinstance(x, ast.Return)]
            if len(rets) == 1:
                return rets[0].value
    raise NotImplementedError(f"no single-return method {name}")


def hash_group():
    """a == b  =>  hash(a) == hash(b), over all pairs of normalised private states, in IEEE-754 binary64"""
    mod = importlib.import_module("beyond.dates.date")
    tree = ast.parse(inspect.getsource(mod))
    cls_ast = [n for n in tree.body if isinstance(n, ast.ClassDef) and n.name == "Date"][0]
    F64 = z3.Float64()
    objs = {}
    cons = []
    for who in ("self", "other"):
        d, s = z3.FP(f"{who}_d", F64), z3.FP(f"{who}_s", F64)
        objs[who] = {"_d": d, "_s": s}
        cons += [z3.fpGEQ(d, z3.FPVal(41317.0, F64)), z3.fpLEQ(d, z3.FPVal(58000.0, F64)),
                 z3.fpEQ(z3.fpRoundToIntegral(z3.RNE(), d), d),
                 z3.fpGEQ(s, z3.FPVal(0.0, F64)), z3.fpLT(s, z3.FPVal(86400.0, F64))]
    env = {"objs": objs}
    eq_ret = _prop_return(cls_ast, "__eq__")          # Compare(self._mjd == other._mjd)
    assert isinstance(eq_ret, ast.Compare) and isinstance(eq_ret.ops[0], ast.Eq)
    eq_term = z3.fpEQ(_fp_expr(eq_ret.left, env, cls_ast), _fp_expr(eq_ret.comparators[0], env, cls_ast))
    h_ret = _prop_return(cls_ast, "__hash__")         # hash(<expr>) ; expr a tuple or a single expression
    assert isinstance(h_ret, ast.Call) and getattr(h_ret.func, "id", "") == "hash"
    arg = h_ret.args[0]
    parts = arg.elts if isinstance(arg, ast.Tuple) else [arg]

    def hargs(who):
        e = {"objs": {"self": objs[who]}}
        return [_fp_expr(p, e, cls_ast) for p in parts]
    same_hash_input = z3.And([z3.fpEQ(x, y) for x, y in zip(hargs("self"), hargs("other"))])
    s = z3.Solver()
    for c in cons:
        s.add(c)
    s.add(eq_term, z3.Not(same_hash_input))
    names = ["self_d", "other_d", "self_s", "other_s"]
    src = ast.unparse(h_ret)
    ob = dict(name="eq_hash/binary64", smt2=s.sexpr(), trivial=False, expect="unsat", vars=names, timeout=300, solver="cvc5",
              desc=f"for all private states (day 41317..58000, seconds in [0,86400) as binary64): __eq__ ({ast.unparse(eq_ret)}) implies "
                   f"equal hash inputs ({src}); Python's hash of equal floats/ints is equal", replay={"kind": "hash"},
              n_constraints=len(cons) + 2, tags=["fp"])
    tw = z3.Solver()
    for c in cons:
        tw.add(c)
    tw.add(eq_term)
    twin = dict(name="eq_hash/twin", smt2=tw.sexpr(), trivial=False, expect="sat", vars=[], timeout=300, solver="cvc5",
                desc="twin: two states that compare equal exist", replay=None, n_constraints=len(cons), tags=["twin"])
    return [ob, twin], {"eq": ast.unparse(eq_ret), "hash": src}


# --------------------------------------------------------------------------- (f) DateRange
def range_case(sign, inclusive, K, fp=False):
    ins = EOP_IN + [("d", "int"), ("s", "real"), ("span", "real"), ("step", "real")]

    def pre(v):
        p = eop_pre(v) + [v["d"] >= 41317, v["d"] <= 58000, v["s"] >= 0, v["s"] < 86400]
        if sign > 0:
            p += [v["step"] > 0, v["span"] >= 0, v["span"] < K * v["step"]]
        else:
            p += [v["step"] < 0, v["span"] < 0, v["span"] > K * v["step"]]
        return p

    def run(env, v):
        m = datemod(env)
        install_eop(env, m, v)
        try:
            start = mk_date(env, m, v["d"], v["s"], "TAI")
            td = (lambda x: STD.of(x)) if env.symbolic else (lambda x: _td(seconds=float(x)))
            stop = start + td(v["span"])
            r = m.DateRange(start, stop, td(v["step"]), inclusive=inclusive)
            dates = []
            for k, dte in enumerate(r):
                dates.append(dte)
                if k > K + 1:
                    raise AssertionError("unwinding bound exceeded")
            n = len(dates)
            if env.symbolic and fp:
                # inside __len__ float seconds carry a rounding error (only timedelta.total_seconds(); timedelta arithmetic is exact)
                CTX.round_total_seconds = True
            try:
                out = {"len": val(r.__len__()) if env.symbolic else len(r), "count": n}
            finally:
                CTX.round_total_seconds = False
            CTX.round_total_seconds = False
            for k, dte in enumerate(dates):
                if not fp:
                    out[f"date{k}"] = val((dte - start).total_seconds())
                out[f"in{k}"] = Holds(dte in r) if not env.symbolic else Holds(r.__contains__(dte))
            return out
        finally:
            if not env.symbolic:
                restore_eop()

    def ref(env, v, out):
        n = out["count"]
        r = {"len": n, "count": None}
        # expected number of points: k*step within the span (inclusive or not)
        cnt = 0
        for k in range(K + 2):
            off = k * v["step"]
            inside = (off <= v["span"] if inclusive else off < v["span"]) if sign > 0 else \
                     (off >= v["span"] if inclusive else off > v["span"])
            if inside:
                cnt += 1
        r["count"] = cnt
        for k in range(n):
            if not fp:
                r[f"date{k}"] = k * v["step"]
            r[f"in{k}"] = None
        return r
    tag = ("fwd" if sign > 0 else "bwd") + ("_incl" if inclusive else "") + ("_fp" if fp else "")
    panel = [{"step": sign * st, "span": sign * st * k, "s": 0.0} for st in (0.1, 0.3, 1.7, 0.123457) for k in (1, 2, 3)] if fp else None
    return Case(f"range/{tag}", ins, run, ref, pre=pre, timeout=120, maxpaths=400, tol=1e-9, abs_tol=3e-6, extra_points=panel,
                desc=f"DateRange ({'positive' if sign > 0 else 'negative'} step, inclusive={inclusive}, up to {K} steps): iterated dates are "
                     "start + k*step, their number equals len(), each is `in` the range, none beyond stop")


# --------------------------------------------------------------------------- (g) EOP missing policy
def policy_group():
    """real EopDb.get with a database that has no data: pass -> zeros silently, warning -> zeros + one warning, error -> raise"""
    import logging
    from harness.c20 import choice, CHOSEN
    eopmod = importlib.import_module("beyond.dates.eop")
    cfg = importlib.import_module("beyond.config").config
    paths, bad = [], []

    class Empty:
        def __getitem__(self, mjd):
            raise KeyError(mjd)

    def setup():
        CHOSEN.clear()

    def body():
        pol = ["pass", "warning", "error"][choice("policy", 3)]
        eopmod.EopDb._dbs["vf_empty"] = Empty()
        cfg.update({"eop": {"missing_policy": pol, "dbname": "vf_empty"}})
        records = []
        h = logging.Handler()
        h.emit = lambda rec: records.append(rec)
        eopmod.log.addHandler(h)
        try:
            try:
                val_ = eopmod.EopDb.get(51544.25)
                raised = None
            except Exception as e:  # noqa
                val_, raised = None, e
        finally:
            eopmod.log.removeHandler(h)
            cfg.pop("eop", None)
        err = None
        zeros = val_ is not None and all(getattr(val_, k) == 0 for k in ("x", "y", "dx", "dy", "deps", "dpsi", "lod", "ut1_utc", "tai_utc"))
        if pol == "pass" and not (zeros and not records and raised is None):
            err = f"pass: zeros={zeros} warnings={len(records)} raised={raised!r}"
        if pol == "warning" and not (zeros and len(records) == 1 and raised is None):
            err = f"warning: zeros={zeros} warnings={len(records)} raised={raised!r}"
        if pol == "error" and not isinstance(raised, KeyError):
            err = f"error: raised={raised!r}"
        return pol, err

    for pc, (pol, err) in explore(body, maxpaths=10, setup=setup):
        paths.append(z3.And(list(CTX.pre) + list(pc)))
        if err:
            bad.append((pol, err, z3.And(list(pc)) if pc else z3.BoolVal(True)))
    obs = []
    s = z3.Solver()
    p = z3.Int("policy")
    s.add(p >= 0, p < 3, z3.Not(z3.Or(paths)))
    obs.append(dict(name="policy/exhaustive", smt2=s.sexpr(), trivial=False, expect="unsat", vars=["policy"], timeout=30, solver="z3",
                    desc="the three missing-data policies are all explored", replay={"kind": "policy"}, n_constraints=len(paths), tags=["coverage"]))
    for k, (pol, err, pc) in enumerate(bad):
        s = z3.Solver()
        s.add(pc)
        obs.append(dict(name=f"policy/violation{k}", smt2=s.sexpr(), trivial=False, expect="unsat", vars=["policy"], timeout=30,
                        solver="z3", desc=f"EopDb.get with missing data, policy {pol}: {err}", replay={"kind": "policy", "err": err},
                        n_constraints=1, tags=["history"]))
    if not bad:
        s = z3.Solver()
        s.add(z3.BoolVal(False))
        obs.append(dict(name="policy/all_ok", smt2=s.sexpr(), trivial=False, expect="unsat", vars=[], timeout=10, solver="z3",
                        desc="missing EOP data: zeros silently / zeros with exactly one warning / the KeyError is re-raised",
                        replay={"kind": "policy"}, n_constraints=1, tags=["summary"]))
    tw = z3.Solver()
    tw.add(p >= 0)
    obs.append(dict(name="policy/twin", smt2=tw.sexpr(), trivial=False, expect="sat", vars=[], timeout=10, solver="z3", desc="twin",
                    replay=None, n_constraints=1, tags=["twin"]))
    return obs, {"paths": len(paths)}


def all_cases(tier):
    K = bounds(tier)["daterange_unwinding"]
    uni = ["UT1", "GPS", "UTC", "TAI", "TT"]
    cs = [offset_case(a) for a in SCALES] + [scale_case(a, b) for a in uni for b in uni] + [tdb_case(), ut1_day_case()] + \
        [arith_case(a) for a in ("TAI", "TT", "GPS", "UTC")] + [state_case(a) for a in ("UTC", "TT", "UT1", "TAI")]
    cs += [order_case("UTC", "TAI"), order_case("TT", "GPS"), order_case("UT1", "TT"), order_case("UTC", "UTC")]
    for sign in (1, -1):
        for inc in (False, True):
            cs.append(range_case(sign, inc, K))
            cs.append(range_case(sign, inc, min(K, 3), fp=True))
    return cs


def groups(tier):
    g = {c.name.replace("/", "_"): (lambda c=c: run_cases([c])) for c in all_cases(tier)}
    g["eq_hash"] = hash_group
    g["policy"] = policy_group
    for sh in c03r.SHAPES:
        g["readers_" + sh] = (lambda sh=sh: c03r.readers_group(tier, sh))
    return g


def replay(ob, model):
    rp = ob.get("replay") or {}
    if rp.get("kind") == "hash":
        from beyond.dates import Date
        import struct

        def fp(x):
            # z3 prints FP models in several shapes; fall back to scanning for close seconds values
            return None
        d1 = 57709
        # search a witness around the solver's days on the real class (the model's seconds are binary64 literals)
        import math
        for s1 in (1.0, 0.5, 43200.0, 86399.0):
            s2 = math.nextafter(s1, 1e9)
            a, b = Date(d1, s1, scale="TAI"), Date(d1, s2, scale="TAI")
            if a == b and hash(a) != hash(b):
                return {"reproduced": True, "signature": "Date eq/hash inconsistent (binary64 _mjd)",
                        "detail": f"Date({d1}, {s1!r}) == Date({d1}, {s2!r}) (TAI) but their hashes differ", "inputs": {"d": d1, "s1": s1, "s2": s2}}
        return {"reproduced": False, "signature": "Date eq/hash", "detail": f"no witness reproduced around day {d1}"}
    if str(rp.get("kind", "")).startswith("readers"):
        return c03r.replay(ob, model)
    if rp.get("kind") == "policy":
        return {"reproduced": True, "signature": "EopDb.get missing-data policy", "detail": rp.get("err", ob.get("desc", ""))}
    return replay_cases(all_cases("thorough"), ob, model)
