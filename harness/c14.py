"""C14 -- covariance frame changes are pure, path-independent rotations (DESIGN.md section C14).

The real `Cov.frame` setter (and `Cov.copy`, and the covariance clause of `StateVector.frame`'s setter) is executed on
*typed* stand-ins: frames are symbolic small integers, `Orientation.convert_to` returns a typed rotation Rot(src -> dst),
`to_local` returns Rot(frame the coordinates are expressed in -> QSW/TNW built from those coordinates), the covariance
value is tagged with the frame it is expressed in, and the private state copy with the frame of its coordinates.  Because
rotations between frames form a groupoid (Rot(b->c) Rot(a->b) = Rot(a->c): C02), a product is right iff it is well typed;
the solver explores every sequence of target frames within the bound and every branch of the setter.
"""
import itertools
import json

import numpy as np
import z3

from symx import core, solve
from symx.core import CTX, SB, explore

PROPERTY = "C14"
FUNCS = ["beyond.orbits.cov:Cov.frame", "beyond.orbits.cov:Cov.copy", "beyond.orbits.statevector:StateVector.frame",
         "beyond.orbits.statevector:StateVector.cov", "beyond.orbits.cov:Cov.orb"]
STUBS = ["Frame -> symbolic integer index (==/!=/in fork through the solver)", "Orientation.convert_to -> typed rotation Rot(src->dst)",
         "to_local -> typed rotation Rot(coordinate frame of the state copy -> local frame defined by those coordinates)",
         "Cov.base -> typed covariance value (frame tag), setfield records the new value", "private state copy -> object with the "
         "frame its coordinates are expressed in; np.identity -> typed neutral element"]
ASSUMPTIONS = ["rotations between the built-in frames compose as a groupoid (established separately: C02)",
               "the covariance is attached in a non-rotating frame (indices 0..6)"]
OUTSIDE = ["eigenvalue preservation (follows from orthogonality of a well-typed rotation chain; linear-algebra fact)"]

NAMES = ["EME2000", "MOD", "TOD", "TEME", "GCRF", "CIRF", "G50", "PEF", "ITRF", "TIRF", "QSW", "TNW"]
N_INERTIAL, QSW, TNW = 7, 10, 11


def bounds(tier):
    return {"sequence_length": 3 if tier == "quick" else 4, "frames": len(NAMES)}


# --------------------------------------------------------------------------- typed stand-ins
class Rec:
    def __init__(self):
        self.checks = []        # (description, z3 Bool that must hold)

    def need(self, desc, cond):
        self.checks.append((desc, cond))


REC = Rec()


def _ix(x):
    return x if z3.is_expr(x) else z3.IntVal(x)


def kin(x):
    """kinematic class of the frame whose coordinates define a QSW/TNW triad: all non-rotating frames give the same physical
    triad (their mutual rotations carry no rate), the Earth-fixed ones (PEF, ITRF, TIRF) another one; -1 = not a local frame"""
    x = _ix(x) if x is not None else z3.IntVal(-1)
    return z3.If(x < 0, -1, z3.If(x < N_INERTIAL, 0, 1))


class SF:
    """symbolic frame"""
    def __init__(self, idx):
        self.idx = _ix(idx)

    @property
    def orientation(self):
        return self

    def convert_to(self, date, other):
        return TMat(self.idx, other.idx, None, None)

    def __eq__(self, o):
        if isinstance(o, str):
            return SB(self.idx == (NAMES.index(o) if o in NAMES else -1))
        if isinstance(o, SF):
            return SB(self.idx == o.idx)
        return False

    def __ne__(self, o):
        r = self.__eq__(o)
        return ~r if isinstance(r, SB) else not r

    def __hash__(self):
        return id(self)


class TMat:
    """typed rotation src -> dst; for local frames `ldef` = frame of the coordinates the triad was built from"""
    def __init__(self, src, dst, src_ldef, dst_ldef, ident=False, transpose_of=None):
        self.src, self.dst, self.src_ldef, self.dst_ldef = src, dst, src_ldef, dst_ldef
        self.ident, self.transpose_of = ident, transpose_of

    @property
    def T(self):
        return TMat(self.dst, self.src, self.dst_ldef, self.src_ldef, self.ident, transpose_of=self)

    def __matmul__(self, o):
        if isinstance(o, TMat):        # self after o
            if self.ident:
                return o
            if o.ident:
                return self
            REC.need("matrix product well typed: dst(first) = src(second)", o.dst == self.src)
            if o.dst_ldef is not None or self.src_ldef is not None:
                REC.need("matrix product: same local-frame definition on both sides", kin(o.dst_ldef) == kin(self.src_ldef))
            return TMat(o.src, self.dst, o.src_ldef, self.dst_ldef)
        if isinstance(o, TCov):
            return Half(self, o)
        return NotImplemented


class Half:
    def __init__(self, m, c):
        self.m, self.c = m, c

    def __matmul__(self, o):
        assert isinstance(o, TMat)
        m, c = self.m, self.c
        same = o.transpose_of is m or (m.ident and o.ident)
        REC.need("congruence uses M and M.T of the same matrix", z3.BoolVal(bool(same)))
        if m.ident:
            return TCov(c.frame, c.ldef)
        REC.need("covariance is expressed in the source frame of the rotation applied to it", c.frame == m.src)
        if m.src_ldef is not None or c.ldef is not None:
            REC.need("local covariance is rotated back with the triad it was built with",
                     z3.Or(c.frame < QSW, kin(m.src_ldef) == kin(c.ldef)))
        return TCov(m.dst, m.dst_ldef)


class TCov:
    def __init__(self, frame, ldef):
        self.frame, self.ldef = frame, ldef
        self.new = None

    def setfield(self, val, dtype=None):
        assert isinstance(val, TCov)
        self.frame, self.ldef = val.frame, val.ldef


class TOrb:
    """private state copy of the covariance: only the frame its coordinates are expressed in matters"""
    def __init__(self, coords_frame):
        self._f = SF(coords_frame)
        self.date = None
        self.cov = None

    @property
    def frame(self):
        return self._f

    @frame.setter
    def frame(self, new):
        self._f = SF(new.idx)

    def copy(self, form=None, frame=None):
        o = TOrb(self._f.idx)
        if frame is not None:
            o._f = SF(frame.idx)
        return o


class _NP:
    @staticmethod
    def identity(n):
        return TMat(None, None, None, None, ident=True)


def load_cov():
    import importlib
    covmod = importlib.import_module("beyond.orbits.cov")

    def to_local(frame, orb, expanded=True):
        # frame is a symbolic frame known (on this path) to be QSW or TNW
        g = orb.frame.idx
        return TMat(g, frame.idx if isinstance(frame, SF) else z3.IntVal(NAMES.index(frame)), None, g)
    covmod.to_local = to_local
    covmod.np = _NP()
    covmod.get_frame = lambda name: SF(NAMES.index(name))
    Cov = covmod.Cov

    class TCovArr(Cov):
        """real Cov methods (frame setter, copy) on a typed value: `base` is shadowed"""
        def __new__(cls, orb, values, frame):
            obj = np.ndarray.__new__(cls, (1,))
            obj._data = {}
            obj._tbase = TCov(values.frame, values.ldef)      # Cov.__new__ copies the values (np.array(values))
            obj._data["frame"] = frame
            obj.orb = orb                                      # the real Cov.orb setter (private cartesian copy)
            obj._orb_frame = orb.frame
            return obj

        base = property(lambda self: self._tbase)

        def __array_finalize__(self, obj):
            pass
    return covmod, TCovArr


# --------------------------------------------------------------------------- exploration
def run_sequence(k):
    """attach in a symbolic inertial frame A, then set k symbolic target frames through the real setter"""
    covmod, TCovArr = load_cov()
    obs = []
    npaths = 0
    A = z3.Int("A")
    T = [z3.Int(f"T{i}") for i in range(k)]

    def setup():
        CTX.pre += [A >= 0, A < N_INERTIAL] + [z3.And(t >= 0, t < len(NAMES)) for t in T]
        REC.checks.clear()

    def body():
        orb = TOrb(A)
        val = TCov(A, None)
        cov = TCovArr(orb, val, SF(A))
        trace = []
        for i in range(k):
            cov.frame = SF(T[i])
            f = cov.frame
            # definition of the property: the result is expressed in the requested frame, local triads being built from the
            # coordinates in the inertial frame the covariance was attached in
            REC.need(f"after step {i + 1}: covariance value is expressed in the requested frame", cov.base.frame == T[i])
            REC.need(f"after step {i + 1}: a QSW/TNW covariance refers to the inertial (attach-frame) position and velocity",
                     z3.Or(T[i] < QSW, kin(cov.base.ldef) == kin(A)))
            trace.append(list(REC.checks))
        return list(REC.checks)

    for pc, checks in explore(body, maxpaths=200000, setup=setup):
        npaths += 1
        tw = z3.Solver()
        for c in list(CTX.pre) + list(pc):
            tw.add(c)
        obs.append(dict(name=f"seq{k}/p{npaths}/twin", smt2=tw.sexpr(), trivial=False, expect="sat", vars=[], timeout=30,
                        solver="z3", desc="reachability twin: the path condition of this setter path is satisfiable",
                        replay=None, n_constraints=len(pc), tags=["twin"]))
        goals = [z3.Not(c) for _, c in checks if not z3.is_true(z3.simplify(c))]
        if not goals:
            continue
        descs = sorted({d for d, c in checks})
        s = z3.Solver()
        for c in list(CTX.pre) + list(pc):
            s.add(c)
        s.add(z3.Or(goals))
        obs.append(dict(name=f"seq{k}/p{npaths}", smt2=s.sexpr(), trivial=False, expect="unsat",
                        vars=["A"] + [f"T{i}" for i in range(k)], timeout=30, solver="z3",
                        desc=f"sequence of {k} frame changes, setter path {npaths}: " + "; ".join(descs),
                        replay={"k": k}, n_constraints=len(pc) + len(CTX.pre), tags=["typed"]))
    tw = z3.Solver()
    CTX.reset()
    return obs, {"paths": npaths}


def copy_group():
    """Cov.copy(frame=...) leaves the receiver unchanged and equals the in-place change on the copy"""
    covmod, TCovArr = load_cov()
    obs = []
    A, T0 = z3.Int("A"), z3.Int("T0")
    n = 0

    def setup():
        CTX.pre += [A >= 0, A < N_INERTIAL, T0 >= 0, T0 < len(NAMES)]
        REC.checks.clear()

    def body():
        orb = TOrb(A)
        val = TCov(A, None)
        cov = TCovArr(orb, val, SF(A))
        # Cov.copy builds self.__class__(self.orb, self.base, frame=self.frame): give the typed class the same hook
        new = cov.copy(frame=SF(T0))
        REC.need("copy(frame=...) leaves the receiver's value untouched", z3.And(cov.base.frame == A, cov.frame.idx == A))
        REC.need("the copy is expressed in the requested frame", new.base.frame == T0)
        REC.need("the copy is a distinct value object", z3.BoolVal(new.base is not cov.base))
        return list(REC.checks)

    for pc, checks in explore(body, maxpaths=1000, setup=setup):
        n += 1
        goals = [z3.Not(c) for _, c in checks if not z3.is_true(z3.simplify(c))]
        if not goals:
            continue
        s = z3.Solver()
        for c in list(CTX.pre) + list(pc):
            s.add(c)
        s.add(z3.Or(goals))
        obs.append(dict(name=f"copy/p{n}", smt2=s.sexpr(), trivial=False, expect="unsat", vars=["A", "T0"], timeout=30,
                        solver="z3", desc="Cov.copy(frame=T): receiver unchanged, copy expressed in T", replay={"k": "copy"},
                        n_constraints=len(pc), tags=["typed"]))
    return obs, {"paths": n}


def follow_group():
    """covariance clause of the real StateVector.frame setter: a covariance expressed in its state's frame follows the state;
    a covariance expressed elsewhere is left alone"""
    import importlib
    covmod, TCovArr = load_cov()
    svmod = importlib.import_module("beyond.orbits.statevector")
    obs = []
    A, C, T0 = z3.Int("A"), z3.Int("C"), z3.Int("T0")
    n = 0

    class TBase:
        def setfield(self, val, dtype=None):
            pass

    class TSV:
        def __init__(self, frame):
            self._data = {"frame": frame}
            self.form = "cartesian"
            self.base = TBase()
            self.cov = None
            self.date = None
        frame = property(lambda self: self._data["frame"])

    def transform(self, orbit, new_frame):
        return object()
    SF.transform = transform

    def setup():
        CTX.pre += [A >= 0, A < N_INERTIAL, C >= 0, C < QSW, T0 >= 0, T0 < QSW]
        REC.checks.clear()

    def body():
        sv = TSV(SF(A))
        orb = TOrb(A)
        cov = TCovArr(orb, TCov(A, None), SF(A))
        if SF(C) != SF(A):
            cov.frame = SF(C)          # covariance possibly untangled from the state first
        REC.checks.clear()
        sv.cov = cov
        before = cov.base.frame
        svmod.StateVector.frame.fset(sv, SF(T0))
        REC.need("state is in the requested frame", sv.frame.idx == T0)
        REC.need("a covariance that was in the state's frame follows it; another one is untouched",
                 z3.If(C == A, cov.base.frame == T0, cov.base.frame == C))
        return list(REC.checks)

    for pc, checks in explore(body, maxpaths=5000, setup=setup):
        n += 1
        goals = [z3.Not(c) for _, c in checks if not z3.is_true(z3.simplify(c))]
        if not goals:
            continue
        s = z3.Solver()
        for c in list(CTX.pre) + list(pc):
            s.add(c)
        s.add(z3.Or(goals))
        obs.append(dict(name=f"follow/p{n}", smt2=s.sexpr(), trivial=False, expect="unsat", vars=["A", "C", "T0"], timeout=30,
                        solver="z3", desc="StateVector.frame setter: same-frame covariance follows the state", replay={"k": "follow"},
                        n_constraints=len(pc), tags=["typed"]))
    return obs, {"paths": n}


def copyseq_group(k):
    """k in-place frame changes, then Cov.copy(frame=T): the copy is the covariance expressed in T (local triads from the attach
    frame), the receiver keeps its value, and the copy keeps converting correctly afterwards (one more change on the copy)"""
    covmod, TCovArr = load_cov()
    obs = []
    A, T0, T1 = z3.Int("A"), z3.Int("T0"), z3.Int("T1")
    S = [z3.Int(f"S{i}") for i in range(k)]
    n = 0

    def setup():
        CTX.pre += [A >= 0, A < N_INERTIAL, T0 >= 0, T0 < len(NAMES), T1 >= 0, T1 < len(NAMES)] + \
                   [z3.And(t >= 0, t < len(NAMES)) for t in S]
        REC.checks.clear()

    def body():
        orb = TOrb(A)
        cov = TCovArr(orb, TCov(A, None), SF(A))
        for i in range(k):
            cov.frame = SF(S[i])
        before = (cov.base.frame, cov.base.ldef)
        new = cov.copy(frame=SF(T0))
        REC.need("copy(frame=...) leaves the receiver's value untouched",
                 z3.And(cov.base.frame == before[0], z3.BoolVal(cov.base.ldef is before[1])))
        REC.need("the copy is expressed in the requested frame", new.base.frame == T0)
        REC.need("a QSW/TNW copy refers to the inertial (attach-frame) position and velocity",
                 z3.Or(T0 < QSW, kin(new.base.ldef) == kin(A)))
        new.frame = SF(T1)
        REC.need("a later change of the copy is expressed in the requested frame", new.base.frame == T1)
        REC.need("a later QSW/TNW change of the copy refers to the attach-frame position and velocity",
                 z3.Or(T1 < QSW, kin(new.base.ldef) == kin(A)))
        return list(REC.checks)

    for pc, checks in explore(body, maxpaths=200000, setup=setup):
        n += 1
        tw = z3.Solver()
        for c in list(CTX.pre) + list(pc):
            tw.add(c)
        obs.append(dict(name=f"copyseq{k}/p{n}/twin", smt2=tw.sexpr(), trivial=False, expect="sat", vars=[], timeout=30,
                        solver="z3", desc="reachability twin", replay=None, n_constraints=len(pc), tags=["twin"]))
        goals = [z3.Not(c) for _, c in checks if not z3.is_true(z3.simplify(c))]
        if not goals:
            continue
        s = z3.Solver()
        for c in list(CTX.pre) + list(pc):
            s.add(c)
        s.add(z3.Or(goals))
        obs.append(dict(name=f"copyseq{k}/p{n}", smt2=s.sexpr(), trivial=False, expect="unsat",
                        vars=["A", "T0", "T1"] + [f"S{i}" for i in range(k)], timeout=30, solver="z3",
                        desc=f"{k} frame changes, then copy(frame=T0), then one change of the copy: " + "; ".join(sorted({d for d, _ in checks})),
                        replay={"k": "copyseq", "n": k}, n_constraints=len(pc), tags=["typed"]))
    return obs, {"paths": n}


# --------------------------------------------------------------------------- construction: the values are the values given
def cov_new_case():
    """the real Cov.__new__ on a matrix given as nested lists of Python *integers* (np.diag([100, 100, 100, 1, 1, 1]) is as
    legitimate a covariance as its float twin): the covariance holds the values it was given.  numpy infers an integer dtype
    for such a sequence (the symbolic integers are int subclasses, so the proxy follows); handing an integer buffer to
    ndarray.__new__(..., dtype=float) reinterprets its bits, which the shim models by unconstrained values"""
    from symx.case import Case, Holds
    from symx.dtmodel import SI
    from symx import npx
    ins = [(f"d{i}", "int") for i in range(6)]

    def pre(v):
        return [v[f"d{i}"] >= 0 for i in range(6)] + [v[f"d{i}"] <= 10 ** 9 for i in range(6)]

    def run(env, v):
        import importlib
        import types
        if env.symbolic:
            covmod = env.mod("beyond.orbits.cov")
            proxy = covmod.np
            counter = itertools.count()

            class NdShim:
                @staticmethod
                def __new__(cls, shape, buffer=None, dtype=None, **kw):
                    obj = np.ndarray.__new__(cls, shape, dtype=object)
                    if isinstance(buffer, npx.IntObj) and dtype is float:
                        for i in range(shape[0]):
                            for j in range(shape[1]):
                                obj[i, j] = core.var(f"bits_{next(counter)}")      # the bytes of an int64 read as a float64
                    else:
                        obj[...] = np.asarray(buffer, dtype=object)
                    return obj
            shim = types.SimpleNamespace(array=proxy.array, allclose=lambda a, b: True, ndarray=NdShim)
            saved = (covmod.np, covmod.get_frame)
            covmod.np = shim
            covmod.get_frame = lambda name: name
            try:
                orb = types.SimpleNamespace(frame="EME2000", cov=None, copy=lambda **kw: orb)
                vals = [[SI(v[f"d{i}"]) if i == j else 0 for j in range(6)] for i in range(6)]
                c = covmod.Cov.__new__(covmod.Cov, orb, vals, "EME2000")
                return {"diagonal": [getattr(c[i, i], "r", c[i, i]) - v[f"d{i}"] for i in range(6)]}
            finally:
                covmod.np, covmod.get_frame = saved
        from beyond.orbits import StateVector
        from beyond.orbits.cov import Cov
        from beyond.dates import Date
        o = StateVector([7e6, 1e5, -2e5, 100.0, 7.5e3, 500.0], Date(2016, 5, 5, 12), "cartesian", "EME2000")
        d = [int(v[f"d{i}"]) for i in range(6)]
        c = Cov(o, [[d[i] if i == j else 0 for j in range(6)] for i in range(6)], "EME2000")
        c2 = Cov(o, np.diag(d), "EME2000")
        return {"diagonal": [max(abs(float(c[i, i]) - d[i]), abs(float(c2[i, i]) - d[i])) for i in range(6)]}

    def ref(env, v, out):
        return {"diagonal": [0] * 6}
    return Case("construct/integers", ins, run, ref, pre=pre, timeout=60, tol=0, abs_tol=1e-9,
                extra_points=[{f"d{i}": 100 if i < 3 else 1 for i in range(6)}],
                desc="Cov(orb, values, frame) with an integer-valued matrix (nested lists of ints, np.diag of ints): the covariance "
                     "holds the values it was given")


def attach_group():
    """the real StateVector.cov setter: whatever state the covariance was built with (another state, of the same or of another
    date), after `state.cov = cov` the covariance holds a private copy of *that* state -- QSW/TNW are then its triads"""
    import importlib
    covmod, TCovArr = load_cov()
    svmod = importlib.import_module("beyond.orbits.statevector")
    obs = []
    A, D1, D2 = z3.Int("A"), z3.Int("D1"), z3.Int("D2")
    n = 0

    class SD:
        """symbolic date: ==/!= fork through the solver"""
        def __init__(self, idx):
            self.idx = _ix(idx)

        def __eq__(self, o):
            return SB(self.idx == o.idx) if isinstance(o, SD) else False

        def __ne__(self, o):
            r = self.__eq__(o)
            return ~r if isinstance(r, SB) else not r

        def __hash__(self):
            return id(self)

    class IOrb(TOrb):
        """state with an identity tag that its copies keep"""
        def __init__(self, coords_frame, ident, date):
            super().__init__(coords_frame)
            self.ident, self.date, self._data = ident, date, {}

        def copy(self, form=None, frame=None):
            o = IOrb(self._f.idx, self.ident, self.date)
            if frame is not None:
                o._f = SF(frame.idx)
            return o

    def setup():
        CTX.pre += [A >= 0, A < N_INERTIAL, D1 >= 0, D1 <= 1, D2 >= 0, D2 <= 1]
        REC.checks.clear()

    def body():
        built_with = IOrb(A, 1, SD(D1))
        cov = TCovArr(built_with, TCov(A, None), SF(A))
        sv = IOrb(A, 2, SD(D2))
        REC.checks.clear()
        svmod.StateVector.cov.fset(sv, cov)
        REC.need("the covariance is the state's covariance", z3.BoolVal(sv._data.get("cov") is cov))
        REC.need("the covariance holds a copy of the state it was assigned to", z3.BoolVal(getattr(cov.orb, "ident", None) == 2))
        REC.need("that copy is private", z3.BoolVal(cov.orb is not sv))
        return list(REC.checks)

    for pc, checks in explore(body, maxpaths=100, setup=setup):
        n += 1
        goals = [z3.Not(c) for _, c in checks if not z3.is_true(z3.simplify(c))]
        if not goals:
            continue
        s = z3.Solver()
        for c in list(CTX.pre) + list(pc):
            s.add(c)
        s.add(z3.Or(goals))
        obs.append(dict(name=f"attach/p{n}", smt2=s.sexpr(), trivial=False, expect="unsat", vars=["A", "D1", "D2"], timeout=30,
                        solver="z3", desc="StateVector.cov setter: the covariance is re-attached to the receiving state",
                        replay={"k": "attach"}, n_constraints=len(pc), tags=["typed"]))
    return obs, {"paths": n}


def groups(tier):
    g = {"follow": follow_group, "attach": attach_group}
    g["construct"] = lambda: __import__("symx.case", fromlist=["run_cases"]).run_cases([cov_new_case()])
    for k in range(1, bounds(tier)["sequence_length"] + 1):
        g[f"seq{k}"] = (lambda k=k: run_sequence(k))
    g["copy"] = copy_group
    for k in range(0, 3 if tier == "quick" else 4):
        g[f"copyseq{k}"] = (lambda k=k: copyseq_group(k))
    return g


# --------------------------------------------------------------------------- replay on the real code
def replay(ob, model):
    import numpy as np
    from beyond.orbits import StateVector
    from beyond.dates import Date
    if (ob.get("replay") or {}).get("case", "").startswith("construct"):
        from symx.case import replay_cases
        return replay_cases([cov_new_case()], ob, model)
    k = ob["replay"]["k"]
    A = NAMES[int(model.get("A", 0))]
    if k == "follow":
        C, T0 = NAMES[int(model.get("C", 0))], NAMES[int(model.get("T0", 0))]
        from beyond.orbits.cov import Cov as _Cov
        rng = np.random.default_rng(7)
        L = rng.normal(size=(6, 6))
        C0 = L @ L.T * 1e4
        o = StateVector([7e6, 1e5, -2e5, 100.0, 7.5e3, 500.0], Date(2016, 5, 5, 12), "cartesian", A)
        o.cov = _Cov(o, C0.copy(), o.frame)
        if C != A:
            o.cov.frame = C
        o.frame = T0
        want = T0 if C == A else C
        ok = o.cov.frame.name == want and o.frame.name == T0
        return {"reproduced": not ok, "signature": "StateVector.frame covariance clause",
                "detail": f"attach={A} cov frame={C} new state frame={T0}: cov ends in {o.cov.frame.name}, expected {want}"}
    if k == "attach":
        from beyond.orbits.cov import Cov as _Cov
        from datetime import timedelta
        rng = np.random.default_rng(7)
        L = rng.normal(size=(6, 6))
        C0 = L @ L.T * 1e4
        d = Date(2016, 5, 5, 12)
        d2 = d if int(model.get("D1", 0)) == int(model.get("D2", 0)) else d + timedelta(seconds=60)
        b = StateVector([7e6, 1e5, -2e5, 100.0, 7.5e3, 500.0], d, "cartesian", A)
        o = StateVector([-1e5, 7.2e6, 3e5, -7.4e3, 50.0, 900.0], d2, "cartesian", A)
        cov = _Cov(b, C0.copy(), b.frame)
        o.cov = cov
        ok = o.cov is cov and np.allclose(np.asarray(cov.orb.copy(form="cartesian")), np.asarray(o)) and cov.orb is not o
        return {"reproduced": not ok, "signature": "StateVector.cov setter keeps the state the covariance was built with",
                "detail": f"covariance built with state B ({'same' if d2 is d else 'other'} date) assigned to state O in {A}: "
                          f"cov.orb = {np.asarray(cov.orb)[:3]}, O = {np.asarray(o)[:3]}"}
    if k == "copyseq":
        return replay_copyseq(ob, model, A)
    if k == "copy":
        seq = [NAMES[int(model.get("T0", 0))]]
    else:
        seq = [NAMES[int(model.get(f"T{i}", 0))] for i in range(k)]
    rng = np.random.default_rng(7)
    L = rng.normal(size=(6, 6))
    C0 = L @ L.T * 1e4
    sv = StateVector([7e6, 1e5, -2e5, 100.0, 7.5e3, 500.0], Date(2016, 5, 5, 12), "cartesian", A)
    from beyond.orbits.cov import Cov

    def fresh():
        o = sv.copy()
        o.cov = Cov(o, C0.copy(), o.frame)
        return o
    try:
        o = fresh()
        if k == "copy":
            c2 = o.cov.copy(frame=seq[0])
            ok = np.allclose(np.array(o.cov), C0, rtol=1e-9, atol=1e-6)
            return {"reproduced": not ok, "signature": "Cov.copy mutates receiver", "detail": f"A={A} T={seq}"}
        worst = (0.0, 1.0, None)
        for i, f in enumerate(seq):
            o.cov.frame = f
            got = np.array(o.cov)
            d = fresh()
            d.cov.frame = f
            want = np.array(d.cov)
            err = float(np.abs(got - want).max())
            scale = float(np.abs(want).max())
            if err / scale > worst[0] / worst[1]:
                worst = (err, scale, i)
        err, scale, at = worst
    except Exception as e:  # noqa
        return {"reproduced": True, "signature": f"Cov.frame sequence raises {type(e).__name__}",
                "detail": f"attach={A} sequence={seq}: {e!r}"}
    bad = err > 1e-6 * scale
    # classify by the shape of the failing history: first hop that leaves the attach frame, then a later hop
    shape = "multi-hop: " + ("local target after a non-attach frame" if seq[-1] in ("QSW", "TNW") else "after a local/non-attach frame")
    return {"reproduced": bool(bad), "signature": "Cov.frame two-hop: state copy no longer in the attach frame",
            "detail": f"attach={A} sequence={seq}: visiting the frames in sequence gives a covariance differing from the direct "
                      f"conversion to {seq[at] if at is not None else seq[-1]} (after step {None if at is None else at + 1}) by {err:.3g} (scale {scale:.3g}) [{shape}]",
            "inputs": {"attach": A, "sequence": seq}}


def replay_copyseq(ob, model, A):
    import numpy as np
    from beyond.orbits import StateVector
    from beyond.dates import Date
    from beyond.orbits.cov import Cov
    n = ob["replay"]["n"]
    seq = [NAMES[int(model.get(f"S{i}", 0))] for i in range(n)]
    T0, T1 = NAMES[int(model.get("T0", 0))], NAMES[int(model.get("T1", 0))]
    rng = np.random.default_rng(7)
    L = rng.normal(size=(6, 6))
    C0 = L @ L.T * 1e4
    sv = StateVector([7e6, 1e5, -2e5, 100.0, 7.5e3, 500.0], Date(2016, 5, 5, 12), "cartesian", A)

    def fresh():
        o = sv.copy()
        o.cov = Cov(o, C0.copy(), o.frame)
        return o

    def direct(f):
        d = fresh()
        d.cov.frame = f
        return np.array(d.cov)
    try:
        o = fresh()
        for f in seq:
            o.cov.frame = f
        before = np.array(o.cov).copy()
        c2 = o.cov.copy(frame=T0)
        errs = {"receiver changed by copy": (np.abs(np.array(o.cov) - before).max(), np.abs(before).max()),
                f"copy(frame={T0}) vs direct conversion": (np.abs(np.array(c2) - direct(T0)).max(), np.abs(direct(T0)).max())}
        c2.frame = T1
        errs[f"copy then frame={T1} vs direct conversion"] = (np.abs(np.array(c2) - direct(T1)).max(), np.abs(direct(T1)).max())
    except Exception as e:  # noqa
        return {"reproduced": True, "signature": f"Cov.copy after a history raises {type(e).__name__}",
                "detail": f"attach={A} history={seq} copy(frame={T0}) then {T1}: {e!r}"}
    bad = {k_: float(e / s_) for k_, (e, s_) in errs.items() if e > 1e-6 * s_}
    return {"reproduced": bool(bad), "signature": "Cov.copy forgets the attach frame",
            "detail": f"attach={A} history={seq} copy(frame={T0}) then frame={T1}: relative differences {bad}",
            "inputs": {"attach": A, "history": seq, "T0": T0, "T1": T1}}
