"""C19 (Lambert) -- the parts of the universal-variable Lambert solver that have a decision procedure.

Whether Newton's iteration on the Stumpff functions converges is outside (transcendental); what is decided here:
  exit       the iteration of the real `_lambert` only returns after a Newton step no larger than its tolerance (the values of
             F and F' are uninterpreted: arbitrary reals), i.e. the returned z is within tol of the last iterate it evaluated;
  velocities the velocities built from the Lagrange coefficients conserve energy and angular momentum between departure and
             arrival for *any* value of y, reach r1 = f r0 + g v0, and turn the way that was asked (prograde: h_z > 0);
  time_eq    F, y, C, S equal the universal-variable time-of-flight equation (Curtis 5.38-5.40) for z > 0, z = 0, z < 0.
Concretely (replay) the real solver is run on a panel of transfers and the arrival miss after two-body propagation is measured.
"""
import importlib
import math

import numpy as np
import z3

from symx import core
from symx.case import Case, Holds
from symx.core import R, CTX, SB, PI

TOL = 1e-8


class _TD:
    """duration with the attributes of datetime.timedelta: days + seconds (+ microseconds, kept inside `seconds` here)"""
    def __init__(self, s, days=0):
        self.days, self.seconds, self.microseconds = days, s, 0

    def total_seconds(self):
        return self.days * 86400 + self.seconds


def _mod(env):
    return env.mod("beyond.utils.lambert") if env.symbolic else importlib.import_module("beyond.utils.lambert")


# --------------------------------------------------------------------------- concrete arrival test (replay side)
def _stumpff(z):
    if z > 1e-8:
        s = math.sqrt(z)
        return (1 - math.cos(s)) / z, (s - math.sin(s)) / s ** 3
    if z < -1e-8:
        s = math.sqrt(-z)
        return (math.cosh(s) - 1) / -z, (math.sinh(s) - s) / s ** 3
    return 0.5 - z / 24, 1 / 6 - z / 120


def kepler_uv(r0, v0, dt, mu):
    """two-body propagation by universal variables (independent of the repository)"""
    r0n = np.linalg.norm(r0)
    vr0 = r0 @ v0 / r0n
    alpha = 2 / r0n - v0 @ v0 / mu
    chi = math.sqrt(mu) * abs(alpha) * dt
    for _ in range(200):
        z = alpha * chi ** 2
        C, S = _stumpff(z)
        F = r0n * vr0 / math.sqrt(mu) * chi ** 2 * C + (1 - alpha * r0n) * chi ** 3 * S + r0n * chi - math.sqrt(mu) * dt
        dF = r0n * vr0 / math.sqrt(mu) * chi * (1 - z * S) + (1 - alpha * r0n) * chi ** 2 * C + r0n
        step = F / dF
        chi -= step
        if abs(step) < 1e-10:
            break
    z = alpha * chi ** 2
    C, S = _stumpff(z)
    f = 1 - chi ** 2 / r0n * C
    g = dt - chi ** 3 / math.sqrt(mu) * S
    return f * r0 + g * v0


PANEL = [  # r0 [m], r1 [m], transfer time [s]
    ([7000e3, 0, 0], [0, 9000e3, 500e3], 2400.0),
    ([6800e3, 300e3, -200e3], [-5000e3, 8000e3, 2000e3], 3600.0),
    ([42164e3, 0, 0], [-20000e3, 30000e3, 5000e3], 6 * 3600.0),
    ([7000e3, 0, 0], [6900e3, 1500e3, 100e3], 300.0),
]
MU_E = 3.986004418e14


def arrival_miss(lam, prograde=True):
    worst = 0.0
    for r0, r1, dt in PANEL:
        r0, r1 = np.array(r0, dtype=float), np.array(r1, dtype=float)
        with np.errstate(all="ignore"):
            v0, v1 = lam._lambert(r0, r1, _TD(dt), MU_E, prograde)
        if not (np.all(np.isfinite(v0)) and np.all(np.isfinite(v1))):
            return float("inf")
        worst = max(worst, float(np.linalg.norm(kepler_uv(r0, np.asarray(v0, dtype=float), dt, MU_E) - r1)))
    return worst


# --------------------------------------------------------------------------- (a) exit test of the Newton iteration
def exit_case(K):
    ins = [(f"F{i}", "real") for i in range(K)] + [("y", "pos"), ("mu", "pos")]

    def run(env, v):
        lam = _mod(env)
        if not env.symbolic:
            m = max(arrival_miss(lam, True), arrival_miss(lam, False))
            return {"last_step_within_tol": Holds(m < 1.0)}
        saved = {k: getattr(lam, k) for k in ("_F", "_dF", "_y")}
        zs_F, zs_y = [], []

        def F(nr0, nr1, A, z, duration, mu):
            if len(zs_F) >= K:
                raise core.DepthBound("more than %d evaluations of F" % K)
            zs_F.append(z)
            return v[f"F{len(zs_F) - 1}"]

        def y(nr0, nr1, A, z):
            zs_y.append(z)
            return v["y"]
        lam._F, lam._dF, lam._y = F, (lambda nr0, nr1, A, z: 1), y
        try:
            lam._lambert(np.array([1.0, 0, 0]), np.array([0, 1.0, 0]), _TD(1), v["mu"], True)
        finally:
            for k, f in saved.items():
                setattr(lam, k, f)
        d = R.lift(zs_F[-1]) - R.lift(zs_y[-1])
        same = all((R.lift(a) - R.lift(zs_y[0])).coef == 0 for a in zs_y)
        last = R.lift(v[f"F{len(zs_F) - 1}"])       # F' = 1: the last Newton step is the last value of F
        return {"last_step_within_tol": Holds((d <= TOL) & (d >= -TOL) & (last < TOL) & (last > -TOL) & SB(z3.BoolVal(same)))}

    def ref(env, v, out):
        return {"last_step_within_tol": None}
    return Case("lambert/exit", ins, run, ref, timeout=60, maxdepth=K + 4, maxpaths=4000,
                desc=f"_lambert returns only after a Newton step |F/F'| <= 1e-8 (F arbitrary, F' = 1; at most {K} evaluations of F "
                     "explored): that last step is smaller than tol in absolute value and the z used for the velocities is within tol of the last iterate; concretely the velocities, "
                     "propagated by an independent two-body propagator over the transfer time, arrive within 1 m on a panel of transfers")


# --------------------------------------------------------------------------- (b) velocities from the Lagrange coefficients
def velocities_case(prograde):
    ins = [("a", "pos"), ("b", "pos"), ("phi", "angle", {"lo": "0"}), ("y", "pos"), ("mu", "pos")]

    def pre(v):
        s, c = v["phi"].sin(), v["phi"].cos()
        return [s * s > 0]             # r0, r1 not collinear

    def geometry(env, v):
        r0 = env.vec(v["a"], 0, 0)
        r1 = env.vec(v["b"] * env.cos(v["phi"]), v["b"] * env.sin(v["phi"]), 0)
        return r0, r1

    def run(env, v):
        lam = _mod(env)
        r0, r1 = geometry(env, v)
        saved = {k: getattr(lam, k) for k in ("_F", "_dF", "_y")}
        lam._F = lambda *a: 0
        lam._dF = lambda *a: 1
        lam._y = lambda *a: v["y"]
        try:
            v0, v1 = lam._lambert(r0, r1, _TD(1), v["mu"], prograde)
        finally:
            for k, f in saved.items():
                setattr(lam, k, f)
        dot = lambda p, q: p[0] * q[0] + p[1] * q[1] + p[2] * q[2]
        e0 = dot(v0, v0) / 2 - v["mu"] / v["a"]
        e1 = dot(v1, v1) / 2 - v["mu"] / v["b"]
        h0 = r0[0] * v0[1] - r0[1] * v0[0]
        h1 = r1[0] * v1[1] - r1[1] * v1[0]
        turn = (h0 > 0) if prograde else (h0 < 0)
        return {"energy": e0 - e1, "momentum": h0 - h1, "out_of_plane": [v0[2], v1[2]],
                "direction": Holds(turn) if env.symbolic else Holds(bool(turn))}

    def ref(env, v, out):
        return {"energy": 0, "momentum": 0, "out_of_plane": [0, 0], "direction": None}

    def hints(v):
        return [v["a"], v["b"]]
    return Case(f"lambert/velocities/{'prograde' if prograde else 'retrograde'}", ins, run, ref, pre=pre, hints=hints, timeout=120,
                tol=1e-9, abs_tol=1e-6,
                desc="for any y > 0 the two velocities have the same specific energy and angular momentum (same conic through r0 and "
                     "r1), stay in the plane of r0 and r1, and turn the way that was asked")


# --------------------------------------------------------------------------- (c) the time-of-flight equation
def time_eq_case(sign):
    ins = [("nr0", "pos"), ("nr1", "pos"), ("A", "real"), ("mu", "pos"), ("dt", "pos"), ("days", "int")] + ([("z", "pos")] if sign else [])

    def zval(env, v):
        return 0 if sign == 0 else (v["z"] if sign > 0 else -v["z"])

    def run(env, v):
        lam = _mod(env)
        z = zval(env, v)
        return {"C": lam._C(z), "S": lam._S(z), "y": lam._y(v["nr0"], v["nr1"], v["A"], z),
                "F": lam._F(v["nr0"], v["nr1"], v["A"], z, dur(env, v), v["mu"])}

    def ref(env, v, out):
        z = zval(env, v)
        if sign > 0:
            s = env.sqrt(z)
            C, S = (1 - env.cos(s)) / z, (s - env.sin(s)) / (s * s * s)
        elif sign < 0:
            s = env.sqrt(-z)
            C, S = (env.cosh(s) - 1) / (-z), (env.sinh(s) - s) / (s * s * s)
        else:
            C, S = env.frac(1, 2), env.frac(1, 6)
        y = v["nr0"] + v["nr1"] + v["A"] * (z * S - 1) / env.sqrt(C)
        q = y / C
        F = q * env.sqrt(q) * S + v["A"] * env.sqrt(y) - env.sqrt(v["mu"]) * (v["days"] * 86400 + v["dt"])
        return {"C": C, "S": S, "y": y, "F": F}

    def dur(env, v):
        if env.symbolic:
            return _TD(v["dt"], v["days"])
        import datetime
        return datetime.timedelta(days=int(v["days"]), seconds=float(v["dt"]))

    def pre(v):
        # transfer time = days * 86400 s + dt, 0 < dt < 86400 (the fields of a timedelta)
        return [v["days"] >= 0, v["days"] <= 1000, v["dt"] < 86400]
    name = {1: "elliptic", 0: "parabolic", -1: "hyperbolic"}[sign]
    return Case(f"lambert/time_eq/{name}", ins, run, ref, pre=pre, timeout=120, tol=1e-9, abs_tol=1e-9,
                desc=f"{name} branch: Stumpff C(z), S(z), y(z) = r0 + r1 + A (z S - 1)/sqrt(C) and F(z) = (y/C)^1.5 S + A sqrt(y) - sqrt(mu) dt")


# --------------------------------------------------------------------------- (d) F' is the derivative of F (elliptic branch)
def stumpff_rates_case():
    """derivatives of the real Stumpff functions (dual numbers through `_C`, `_S`): C' = (1 - z S - 2 C)/(2 z),
    S' = (C - 3 S)/(2 z) for z > 0"""
    from symx.core import Dual
    ins = [("z", "pos")]

    def run(env, v):
        lam = _mod(env)
        if env.symbolic:
            z = Dual(v["z"], 1)
            C, S = lam._C(z), lam._S(z)
            one = 1 - v["z"] * S.v
            return {"dC": C.d - (1 - v["z"] * S.v - 2 * C.v) / (2 * v["z"]), "dS": S.d - (C.v - 3 * S.v) / (2 * v["z"]),
                    "identity": one * one - C.v * (2 - v["z"] * C.v)}
        z = float(v["z"])
        h = 1e-5 * max(1.0, z)
        C, S = lam._C(z), lam._S(z)
        return {"dC": (lam._C(z + h) - lam._C(z - h)) / (2 * h) - (1 - z * S - 2 * C) / (2 * z),
                "dS": (lam._S(z + h) - lam._S(z - h)) / (2 * h) - (C - 3 * S) / (2 * z), "identity": (1 - z * S) ** 2 - C * (2 - z * C)}

    def ref(env, v, out):
        return {"dC": 0, "dS": 0, "identity": 0}
    return Case("lambert/dF/stumpff_rates", ins, run, ref, timeout=120, tol=0, abs_tol=1e-6,
                desc="z > 0: d/dz of the real _C and _S (dual numbers) are (1 - z S - 2 C)/(2 z) and (C - 3 S)/(2 z), and "
                     "(1 - z S)^2 = C (2 - z C)")


def dF_case():
    """Newton's iteration divides F by `_dF`: for z != 0 `_dF(z)` is the derivative with respect to z of the real `_F`, the
    Stumpff functions standing as two arbitrary positive values C, S whose derivatives are those of stumpff_rates (a
    compositional step: chain rule through the real `_y` and `_F`, dual numbers)"""
    from symx.core import Dual
    ins = [("nr0", "pos"), ("nr1", "pos"), ("A", "real"), ("mu", "pos"), ("dt", "pos"), ("z", "real"), ("C", "pos"), ("S", "pos")]

    def pre(v):
        one = 1 - v["z"] * v["S"]
        return [v["z"] != 0, one * one == v["C"] * (2 - v["z"] * v["C"])]

    def run(env, v):
        lam = _mod(env)
        if not env.symbolic:
            import datetime
            z = 1.0 + abs(float(v["z"]))
            h = 1e-6 * z
            args = (float(v["nr0"]) + 2, float(v["nr1"]) + 2, min(abs(float(v["A"])), 1.0))
            dur = datetime.timedelta(seconds=float(v["dt"]))
            num = (lam._F(*args, z + h, dur, float(v["mu"])) - lam._F(*args, z - h, dur, float(v["mu"]))) / (2 * h)
            return {"dF": (lam._dF(*args, z) - num) / max(1.0, abs(num))}
        saved = (lam._C, lam._S)
        Cp = (1 - v["z"] * v["S"] - 2 * v["C"]) / (2 * v["z"])
        Sp = (v["C"] - 3 * v["S"]) / (2 * v["z"])
        lam._C = lambda z: Dual(v["C"], Cp) if isinstance(z, Dual) else v["C"]
        lam._S = lambda z: Dual(v["S"], Sp) if isinstance(z, Dual) else v["S"]
        try:
            Fz = lam._F(v["nr0"], v["nr1"], v["A"], Dual(v["z"], 1), _TD(v["dt"]), v["mu"])
            return {"dF": lam._dF(v["nr0"], v["nr1"], v["A"], v["z"]) - Fz.d}
        finally:
            lam._C, lam._S = saved

    def ref(env, v, out):
        return {"dF": 0}
    def hints(v):
        # closed form offered for the root of y/C met in (y/C)^1.5 (proved by the solver before it is used)
        from symx.case import Env
        env = Env(True)
        y = v["nr0"] + v["nr1"] + v["A"] * (v["z"] * v["S"] - 1) / env.sqrt(v["C"])
        return [env.sqrt(y) / env.sqrt(v["C"])]
    return Case("lambert/dF/chain_rule", ins, run, ref, pre=pre, hints=hints, timeout=120, tol=0, abs_tol=1e-5,
                desc="z != 0: _dF(z) = d/dz _F(z) (dual-number derivative of the real _F and _y), C(z), S(z) arbitrary positive values "
                     "with C' = (1 - z S - 2 C)/(2 z), S' = (C - 3 S)/(2 z) and (1 - z S)^2 = C (2 - z C)")


def cases(tier):
    return [exit_case(6 if tier == "quick" else 10), velocities_case(True), velocities_case(False),
            time_eq_case(1), time_eq_case(0), time_eq_case(-1), stumpff_rates_case(), dF_case()]
