"""C19 -- mission-design helpers are consistent with the dynamics they target (DESIGN.md section C19; of Lambert: exit test,
Lagrange-coefficient velocities and the time-of-flight equation -- convergence of the Newton iteration is outside)."""
import importlib
import math
import types

import numpy as np
import z3

from harness import c19l
from symx import core, dtmodel
from symx.case import Case, Holds, Ang, run_cases, replay_cases
from symx.core import R, CTX, SB, var, PI
from symx.dtmodel import SF, SI, rfloor
from symx.stubs import carrier, FrameStub

PROPERTY = "C19"
FUNCS = ["beyond.utils.ltan:raan2ltan", "beyond.utils.ltan:ltan2raan", "beyond.utils.constellation:WalkerStar.per_plane",
         "beyond.utils.constellation:WalkerStar.raan", "beyond.utils.constellation:WalkerStar.nu",
         "beyond.utils.constellation:WalkerDelta.raan", "beyond.utils.constellation:WalkerDelta.nu", "beyond.utils.beta:beta",
         "beyond.utils.interplanetary:bplane", "beyond.utils.leo:sso", "beyond.utils.leo:frozen",
         "beyond.utils.lambert:_lambert", "beyond.utils.lambert:_F", "beyond.utils.lambert:_y", "beyond.utils.lambert:_C",
         "beyond.utils.lambert:_S"]
STUBS = ["sun right ascension (ltan._mean_sun_raan / _true_sun_raan) -> one real symbol", "Earth.mu/r/J2/J3 in utils.leo -> positive symbols",
         "orbit -> object-dtype Carrier; orb.infos.kep.a for bplane -> 1/(2/r - v^2/mu) (vis-viva, the definition)",
         "reference body of beta() -> object returning a symbolic position",
         "lambert/exit: _F -> arbitrary reals (one symbol per evaluation), _dF -> 1, _y -> a positive symbol; lambert/velocities: "
         "_y -> a positive symbol, geometry r0 = (a,0,0), r1 = b (cos phi, sin phi, 0)"]
ASSUMPTIONS = ["exact reals", "hyperbolic state for the B-plane (e > 1), S not along the ecliptic pole"]
OUTSIDE = ["convergence of the Lambert Newton iteration on the Stumpff functions and the bracketing loop (transcendental, no decision "
           "procedure): decided are the exit test, the velocity construction and the transcription of the time-of-flight equation",
           "sso_frozen fixed-point iteration", "numeric value of the mean solar rate constant"]


def bounds(tier):
    return {"per_query_timeout_s": 60 if tier == "quick" else 900}


# --------------------------------------------------------------------------- LTAN <-> RAAN
def ltan_case(kind):
    ins = [("raan", "real"), ("sun", "real"), ("ltan", "real")]

    def run(env, v):
        lt = env.mod("beyond.utils.ltan") if env.symbolic else importlib.import_module("beyond.utils.ltan")
        saved = (lt._mean_sun_raan, lt._true_sun_raan)
        lt._mean_sun_raan = lambda date: v["sun"]
        lt._true_sun_raan = lambda date: v["sun"]
        try:
            l1 = lt.raan2ltan(None, v["raan"], kind)
            r1 = lt.ltan2raan(None, l1, kind)
            r2 = lt.ltan2raan(None, v["ltan"], kind)
            l2 = lt.raan2ltan(None, r2, kind)
            if env.symbolic:
                two_pi = 2 * PI
                # whole numbers of turns / days removed by the code's own `%` (integer-valued by construction of the mod encoding)
                kt = lambda res, m: (res.pre - res) / m
                turns = (r1 - v["raan"]) / two_pi + kt(l1, 86400) + kt(r1, two_pi)
                days = (l2 - v["ltan"]) / 86400 + kt(r2, two_pi) + kt(l2, 86400)
                return {"raan_back_turns_integral": turns, "ltan_back_days_integral": days,
                        "raan_range": Holds((r1 >= 0) & (r1 < two_pi)), "ltan_range": Holds((l1 >= 0) & (l1 < 86400)),
                        "noon_at_sun": lt.raan2ltan(None, v["sun"], kind)}
            turns = (r1 - v["raan"]) / (2 * math.pi)
            days = (l2 - v["ltan"]) / 86400
            return {"raan_back_turns_integral": abs(turns - round(turns)), "ltan_back_days_integral": abs(days - round(days)),
                    "raan_range": Holds(0 <= r1 < 2 * math.pi), "ltan_range": Holds(0 <= l1 < 86400),
                    "noon_at_sun": lt.raan2ltan(None, v["sun"], kind)}
        finally:
            lt._mean_sun_raan, lt._true_sun_raan = saved

    def ref(env, v, out):
        return {"raan_back_turns_integral": 0, "ltan_back_days_integral": 0, "raan_range": None, "ltan_range": None, "noon_at_sun": 43200}
    return Case(f"ltan/{kind}", ins, run, ref, timeout=60, maxpaths=50, tol=1e-9, abs_tol=1e-7,
                desc=f"{kind} LTAN: ltan2raan(raan2ltan(W)) = W mod 2 pi, raan2ltan(ltan2raan(t)) = t mod 86400 s, both results in range, "
                     "and a node at the sun's right ascension has local time 12 h")


# --------------------------------------------------------------------------- Walker constellations
def walker_case(cls_name):
    ins = [("p", "int"), ("m", "int"), ("f", "int"), ("ip", "int"), ("isat", "int"), ("raan0", "real")]

    def pre(v):
        return [v["p"] >= 1, v["m"] >= 1, v["f"] >= 0, v["p"] <= 50, v["m"] <= 200]

    def run(env, v):
        co = env.mod("beyond.utils.constellation") if env.symbolic else importlib.import_module("beyond.utils.constellation")
        cls = getattr(co, cls_name)
        if env.symbolic:
            t = SI(v["p"] * v["m"])
            w = cls(t, SI(v["p"]), SI(v["f"]), raan0=v["raan0"])
            g = lambda x: x.r if isinstance(x, (SF, SI)) else x
            ip, isat = SI(v["ip"]), SI(v["isat"])
            return {"per_plane": g(w.per_plane), "plane_spacing": g(w.raan(ip + 1)) - g(w.raan(ip)), "first_plane": g(w.raan(0)),
                    "in_plane_spacing": g(w.nu(ip, isat + 1)) - g(w.nu(ip, isat)),
                    "inter_plane_phasing": g(w.nu(ip + 1, isat)) - g(w.nu(ip, isat)), "nu00": g(w.nu(0, 0))}
        p, m, f = int(v["p"]), int(v["m"]), int(v["f"])
        w = cls(p * m, p, f, raan0=float(v["raan0"]))
        ip, isat = int(v["ip"]), int(v["isat"])
        fleet = list(w.iter_fleet())
        return {"per_plane": w.per_plane, "plane_spacing": w.raan(ip + 1) - w.raan(ip), "first_plane": w.raan(0),
                "in_plane_spacing": w.nu(ip, isat + 1) - w.nu(ip, isat), "inter_plane_phasing": w.nu(ip + 1, isat) - w.nu(ip, isat),
                "nu00": w.nu(0, 0) + (0 if len(fleet) == p * m else 1e9)}

    def ref(env, v, out):
        pi = env.pi
        t = v["p"] * v["m"]
        span = pi if cls_name == "WalkerStar" else 2 * pi
        return {"per_plane": v["m"], "plane_spacing": span / v["p"], "first_plane": v["raan0"], "in_plane_spacing": 2 * pi / v["m"],
                "inter_plane_phasing": v["f"] * 2 * pi / t, "nu00": 0}
    return Case(f"walker/{cls_name}", ins, run, ref, pre=pre, timeout=60, maxpaths=50, tol=1e-9, abs_tol=1e-9,
                desc=f"{cls_name} t/p/f with p | t: t/p satellites per plane, planes spaced {'pi' if cls_name == 'WalkerStar' else '2 pi'}/p from "
                     "raan0, satellites spaced 2 pi/(t/p) in a plane, phase offset f 2 pi/t between adjacent planes")


# --------------------------------------------------------------------------- beta angle
RV = ["rx", "ry", "rz", "vx", "vy", "vz"]


def beta_case():
    ins = [(k, "real") for k in RV + ["sx", "sy", "sz"]]

    def pre(v):
        h = _cross([v["rx"], v["ry"], v["rz"]], [v["vx"], v["vy"], v["vz"]])
        return [h[0] * h[0] + h[1] * h[1] + h[2] * h[2] > 0, v["sx"] * v["sx"] + v["sy"] * v["sy"] + v["sz"] * v["sz"] > 0]

    def run(env, v):
        bm = env.mod("beyond.utils.beta") if env.symbolic else importlib.import_module("beyond.utils.beta")
        s = [v["sx"], v["sy"], v["sz"]]

        class Ref:
            def propagate(self, date):
                return self

            def copy(self, frame=None):
                return env.vec(*s, 0, 0, 0)
        if env.symbolic:
            orb = carrier([v[k] for k in RV], date=None, frame="EME2000")
        else:
            from beyond.orbits import StateVector
            from beyond.dates import Date
            orb = StateVector([v[k] for k in RV], Date(2020, 1, 1), "cartesian", "EME2000")
        b = bm.beta(orb, Ref())
        if env.symbolic:
            return {"sin_beta": b.sin(), "in_range": Holds(b.cos() >= 0)}
        return {"sin_beta": math.sin(b), "in_range": Holds(-math.pi / 2 <= b <= math.pi / 2)}

    def ref(env, v, out):
        h = _cross([v["rx"], v["ry"], v["rz"]], [v["vx"], v["vy"], v["vz"]])
        s = [v["sx"], v["sy"], v["sz"]]
        hn = env.sqrt(h[0] * h[0] + h[1] * h[1] + h[2] * h[2])
        sn = env.sqrt(s[0] * s[0] + s[1] * s[1] + s[2] * s[2])
        return {"sin_beta": (h[0] * s[0] + h[1] * s[1] + h[2] * s[2]) / (hn * sn), "in_range": None}
    return Case("beta", ins, run, ref, pre=pre, timeout=60, tol=1e-9, abs_tol=1e-9,
                desc="beta angle: sin(beta) = h^ . s^ (elevation of the body above the orbit plane) and beta in [-90 deg, 90 deg]")


def _cross(a, b):
    return [a[1] * b[2] - a[2] * b[1], a[2] * b[0] - a[0] * b[2], a[0] * b[1] - a[1] * b[0]]


def _dot(a, b):
    return a[0] * b[0] + a[1] * b[1] + a[2] * b[2]


# --------------------------------------------------------------------------- B-plane
def bplane_case(tier="quick"):
    ins = [(k, "real") for k in RV] + [("mu", "pos")]

    def evec(env, v):
        r = [v["rx"], v["ry"], v["rz"]]
        vel = [v["vx"], v["vy"], v["vz"]]
        rn = env.sqrt(_dot(r, r))
        v2 = _dot(vel, vel)
        rv = _dot(r, vel)
        return [((v2 - v["mu"] / rn) * r[k] - rv * vel[k]) / v["mu"] for k in range(3)], rn, v2

    def pre(v):
        r = [v["rx"], v["ry"], v["rz"]]
        vel = [v["vx"], v["vy"], v["vz"]]
        h = _cross(r, vel)
        # hyperbolic: positive energy
        return [_dot(h, h) > 0, _dot(vel, vel) * _dot(vel, vel) * _dot(r, r) > 4 * v["mu"] * v["mu"]]

    def run(env, v):
        ip = env.mod("beyond.utils.interplanetary") if env.symbolic else importlib.import_module("beyond.utils.interplanetary")
        if env.symbolic:
            ip.norm = ip.np.linalg.norm
            e, rn, v2 = evec(env, v)
            a = 1 / (2 / rn - v2 / v["mu"])
            orb = carrier([v[k] for k in RV], date=None, frame=FrameStub("EME2000", v["mu"]))
            type(orb).infos = property(lambda self: types.SimpleNamespace(kep=types.SimpleNamespace(a=a)))
            bp = ip.bplane(orb)
        else:
            from beyond.orbits import StateVector
            from beyond.dates import Date
            from beyond.constants import Earth
            sc = 1e7
            orb = StateVector([v["rx"] * sc, v["ry"] * sc, v["rz"] * sc, v["vx"] * 2e4, v["vy"] * 2e4, v["vz"] * 2e4], Date(2020, 1, 1),
                              "cartesian", "EME2000")
            bp = ip.bplane(orb)
        B, S, T, Rv, e, h = list(bp.B), list(bp.S), list(bp.T), list(bp.R), list(bp.e), list(bp.h)
        out = {"S.S": _dot(S, S), "T.T": _dot(T, T), "R.R": _dot(Rv, Rv), "S.T": _dot(S, T), "S.R": _dot(S, Rv), "T.R": _dot(T, Rv)}
        if env.symbolic:
            out.update({"B.S": _dot(B, S), "B.h": _dot(B, h), "S": S})
        else:
            bn = math.sqrt(_dot(B, B))
            hn = math.sqrt(_dot(h, h))
            out.update({"B.S": _dot(B, S) / bn, "B.h": _dot(B, h) / (bn * hn), "S": S})
        return out

    def ref(env, v, out):
        r = {"S.S": 1, "T.T": 1, "R.R": 1, "S.T": 0, "S.R": 0, "T.R": 0, "B.S": 0, "B.h": 0}
        if env.symbolic:
            e, rn, v2 = evec(env, v)
            en = env.sqrt(_dot(e, e))
            eh = [x / en for x in e]
            hv = _cross([v["rx"], v["ry"], v["rz"]], [v["vx"], v["vy"], v["vz"]])
            hn = env.sqrt(_dot(hv, hv))
            hh = [x / hn for x in hv]
            q = _cross(hh, eh)
            sb = env.sqrt(1 - 1 / (en * en))
            r["S"] = [eh[k] / en + q[k] * sb for k in range(3)]        # direction of the incoming asymptote's velocity
        else:
            r["S"] = out["S"]
        return r
    def hints(v):
        # closed forms offered for the code's norms (each is proved by the solver before it is used)
        from symx.case import Env
        env = Env(True)
        e, rn, v2 = evec(env, v)
        en = env.sqrt(_dot(e, e))
        hv = _cross([v["rx"], v["ry"], v["rz"]], [v["vx"], v["vy"], v["vz"]])
        hn = env.sqrt(_dot(hv, hv))
        return [rn, en, hn]
    # the hints cost several minutes of proof in the builder: thorough tier only (quick leaves the S component undecided)
    return Case("bplane", ins, run, ref, pre=pre, hints=hints if tier != "quick" else None, timeout=60 if tier == "quick" else 600,
                tol=1e-7, abs_tol=1e-7,
                desc="B-plane of a hyperbolic state: S is the unit vector along the incoming asymptote (e^/e + (h^ x e^) sqrt(1-1/e^2)), "
                     "(S, T, R) orthonormal, B perpendicular to S and to the angular momentum")


# --------------------------------------------------------------------------- sun-synchronous / frozen orbits
def sso_case():
    ins = [("mu", "pos"), ("Re", "pos"), ("J2", "pos"), ("w", "pos"), ("e", "real")]

    def pre(v):
        return [v["e"] >= 0, v["e"] < 1]

    def run(env, v):
        leo = env.mod("beyond.utils.leo") if env.symbolic else importlib.import_module("beyond.utils.leo")
        if env.symbolic:
            leo.Earth = types.SimpleNamespace(mu=v["mu"], r=v["Re"], J2=v["J2"], J3=var("J3"))
            a = v["w"] * v["w"]                                     # a = w^2 keeps a^(7/2) = w^7 polynomial
            i = leo.sso(a=a, e=v["e"])
            omega_e = 2 * PI / core.R.const(365.256363004) / 86400
            cst = v["mu"].sqrt() * v["Re"] ** 2 * v["J2"]
            n = (v["mu"] / a ** 3).sqrt()
            p = a * (1 - v["e"] ** 2)
            node_rate = -core.R.const(1.5) * n * v["J2"] * (v["Re"] / p) ** 2 * i.cos()
            e_back = leo.sso(a=a, i=i)
            return {"node_rate_is_mean_solar_rate": node_rate - omega_e, "e_back": e_back * e_back - v["e"] * v["e"]}
        a = 7.2e6
        e = min(0.3, abs(v["e"]))
        i = leo.sso(a=a, e=e)
        from beyond.constants import Earth
        n = math.sqrt(Earth.mu / a ** 3)
        p = a * (1 - e ** 2)
        rate = -1.5 * n * Earth.J2 * (Earth.r / p) ** 2 * math.cos(i)
        return {"node_rate_is_mean_solar_rate": (rate - 2 * math.pi / 365.256363004 / 86400) / rate,
                "e_back": leo.sso(a=a, i=i) ** 2 - e ** 2}

    def ref(env, v, out):
        return {"node_rate_is_mean_solar_rate": 0, "e_back": 0}
    return Case("sso", ins, run, ref, pre=pre, timeout=300, tol=1e-9, abs_tol=1e-9,
                desc="sso(a, e) -> i makes the first-order J2 node drift equal 2 pi / (365.256363004 d); sso(a, i) recovers e")


def frozen_case():
    ins = [("Re", "pos"), ("J2", "pos"), ("J3", "real"), ("a", "pos"), ("i", "angle", {"lo": "free"})]

    def run(env, v):
        leo = env.mod("beyond.utils.leo") if env.symbolic else importlib.import_module("beyond.utils.leo")
        if env.symbolic:
            leo.Earth = types.SimpleNamespace(mu=var("mu"), r=v["Re"], J2=v["J2"], J3=v["J3"])
            e, w = leo.frozen(v["a"], v["i"])
            return {"e": e, "w": Ang(w)}
        from beyond.constants import Earth
        e, w = leo.frozen(7.2e6, v["i"])
        return {"e": e / (-Earth.r * math.sin(v["i"]) * Earth.J3 / (2 * Earth.J2 * 7.2e6)) if abs(math.sin(v["i"])) > 1e-9 else 1.0, "w": Ang(w)}

    def ref(env, v, out):
        if env.symbolic:
            return {"e": -v["J3"] * v["Re"] * env.sin(v["i"]) / (2 * v["J2"] * v["a"]), "w": Ang(PI / 2)}
        return {"e": 1.0, "w": Ang(math.pi / 2)}
    return Case("frozen", ins, run, ref, timeout=60, desc="frozen orbit: e = -J3 Re sin i / (2 J2 a), perigee at 90 deg")


def all_cases(tier):
    return [ltan_case("mean"), ltan_case("true"), walker_case("WalkerStar"), walker_case("WalkerDelta"), beta_case(), bplane_case(tier),
            sso_case(), frozen_case()] + c19l.cases(tier)


def groups(tier):
    return {c.name.replace("/", "_"): (lambda c=c: run_cases([c])) for c in all_cases(tier)}


def replay(ob, model):
    return replay_cases(all_cases("thorough"), ob, model)
