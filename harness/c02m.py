"""C02 (d) -- the Earth-orientation *models*: the real iau1980 / iau2010 functions executed on a symbolic date against an
independently transcribed reference (GMST-82, IAU-1976 precession, IAU-1980 nutation arguments and series structure, equation
of the equinoxes with the 1997-02-27 kinematic terms, polar motion, ERA-2000, Delaunay/planetary arguments, CIP X/Y/s
polynomial parts read from the headers of the IERS table files, X/Y/s units, the Q(X,Y) R3(s) matrix).

The numbers of the reference are transcribed from Vallado (4th ed., ch. 3) and the IERS Conventions (1996/2003/2010) as printed
there; the 106-row and 1600-row series tables themselves are *not* re-transcribed (no independent copy exists offline): the
tables are replaced by small tables of symbolic coefficients, so the claim covers how any table is evaluated, not its numbers.
"""
import itertools
import re
import types
import importlib
import os

import numpy as np
import z3

from symx.case import Case, Ang, Holds
from symx.core import R, CTX, PI, SB

_ids = itertools.count()


class DStub:
    """what the model functions read from a Date: change_scale(scale).julian_century / .d / .jd, .eop.*, .J2000"""
    J2000 = 2451545.0

    def __init__(self, scales, eop=None, own=None):
        self.scales = scales
        # readings of the date on its *own* clock (date.jd, date.d, date.julian_century ...) and the EOP entries a model
        # function has no business with are independent free values: code that reads them instead of the UT1 / TT reading
        # it is specified on gives a result that depends on them
        own = own or {}
        e = {k: own[k] for k in ("ut1_utc", "tai_utc", "lod") if k in own}
        e.update(eop or {})
        self.eop = types.SimpleNamespace(**e)
        for k in ("jd", "mjd", "d", "s", "julian_century"):
            if k in own:
                setattr(self, k, own[k])
        self.n = next(_ids)

    def change_scale(self, name):
        return types.SimpleNamespace(**self.scales[name])

    def __repr__(self):            # memoize() keys on str(args)
        return "DStub%d" % self.n


OWN_INS = [("own_jd", "real"), ("own_T", "real"), ("own_d", "real"), ("own_s", "real"), ("own_dut", "real"), ("own_dat", "real"),
           ("own_lod", "real")]


def _own(v):
    return {"jd": v["own_jd"], "mjd": v["own_jd"] - 2400000.5, "d": v["own_d"], "s": v["own_s"], "julian_century": v["own_T"], "ut1_utc": v["own_dut"], "tai_utc": v["own_dat"],
            "lod": v["own_lod"]}


def _mod(env, name):
    return env.mod(name) if env.symbolic else importlib.import_module(name)


def _restore(mod, saved):
    for k, f in saved.items():
        setattr(mod, k, f)


def _pre(x):
    """value before the code's `% 360` (symbolic) / the value itself (concrete; compared modulo 360 there)"""
    return getattr(x, "pre", x)


def poly(env, cs, t):
    out = 0
    for k, c in enumerate(cs):
        out = out + env.const(c) * t ** k if k else env.const(c)
    return out


# ------------------------------------------------------------------------------------------------------- transcribed constants
GMST82 = [67310.54841, 876600 * 3600 + 8640184.812866, 0.093104, -6.2e-6]            # seconds of time, T_UT1
ZETA76 = [0, 2306.2181, 0.30188, 0.017998]                                             # arcsec, T_TT
THETA76 = [0, 2004.3109, -0.42665, -0.041833]
Z76 = [0, 2306.2181, 1.09468, 0.018203]
EPS80 = [84381.448, -46.8150, -0.00059, 0.001813]                                     # arcsec
# Delaunay arguments of the 1980 theory (degrees; r = 360)
DEL80 = {"l": [134.96298139, 1325 * 360 + 198.8673981, 0.0086972, 1.78e-5],
         "lp": [357.52772333, 99 * 360 + 359.0503400, -0.0001603, -3.3e-6],
         "F": [93.27191028, 1342 * 360 + 82.0175381, -0.0036825, 3.1e-6],
         "D": [297.85036306, 1236 * 360 + 307.1114800, -0.0019142, 5.3e-6],
         "Om": [125.04452222, -(5 * 360 + 134.1362608), 0.0020708, 2.2e-6]}
OM_KIN = [125.04455501, -(5 * 360 + 134.1361851), 0.0020756, 2.139e-6]                # node of the Moon used by the 1994 terms
KIN_START_MJD = 50506                                                                  # 1997-02-27 (IERS: terms applied from then on)
KIN = (0.00264, 0.000063)                                                              # arcsec
ERA0, ERA1 = 0.7790572732640, 1.00273781191135448
SPRIME = -0.000047                                                                     # arcsec / century
# IERS 2003/2010 fundamental arguments, arcsec (Delaunay) and radians (planets)
DEL2000 = [[485868.249036, 1717915923.2178, 31.8792, 0.051635, -0.00024470],
           [1287104.79305, 129596581.0481, -0.5532, 0.000136, -0.00001149],
           [335779.526232, 1739527262.8478, -12.7512, -0.001037, 0.00000417],
           [1072260.70369, 1602961601.2090, -6.3706, 0.006593, -0.00003169],
           [450160.398036, -6962890.5431, 7.4722, 0.007702, -0.00005939]]
PLANETS = [[4.402608842, 2608.7903141574], [3.176146697, 1021.3285546211], [1.753470314, 628.3075849991],
           [6.203480913, 334.0612426700], [0.599546497, 52.9690962641], [0.874016757, 21.3299104960],
           [5.481293872, 7.4781598567], [5.311886287, 3.8133035638], [0, 0.02438175, 0.00000538691]]


def header_poly(fname):
    """polynomial part printed in the header of an IERS table file of the working tree (micro-arcseconds)"""
    import beyond.frames.iau2010 as m
    txt = open(os.path.join(os.path.dirname(m.__file__), "data", fname), encoding="ascii").read()
    line = re.search(r"Polynomial part.*?\n#\s*\n#\s*(.+?)\n", txt, re.S).group(1)
    cs = [0.0] * 6
    toks = re.findall(r"([+-])?\s*([0-9]+\.?[0-9]*)\s*(t(?:\^([0-9]))?)?", line)
    for sign, num, tt, pw in toks:
        k = 0 if not tt else int(pw or 1)
        cs[k] = float(num) * (-1 if sign == "-" else 1)
    return cs


# =============================================================================================================== IAU 1980
def poly80_case():
    ins = [("T", "real"), ("Tu", "real"), ("lon", "real")] + OWN_INS

    def run(env, v):
        iau = _mod(env, "beyond.frames.iau1980")
        d = DStub({"TT": {"julian_century": v["T"]}, "UT1": {"julian_century": v["Tu"]}}, own=_own(v))
        saved = {"_tab": iau._tab}
        iau._tab = lambda n=None: []
        try:
            g = iau._sideral(d, longitude=v["lon"], model="mean")
            ze, th, z = iau._precesion(d)
            eb, dpsi, deps = iau._nutation.__wrapped__(d, False, 106)
        finally:
            _restore(iau, saved)
        gm = _pre(g) if env.symbolic else Ang(np.radians(g))
        return {"gmst_deg": gm, "zeta": ze, "theta": th, "z": z, "eps_bar": eb, "no_terms_psi": dpsi, "no_terms_eps": deps}

    def ref(env, v, out):
        g = poly(env, GMST82, v["Tu"]) / 240 + v["lon"]
        return {"gmst_deg": g if env.symbolic else Ang(np.radians(g)),
                "zeta": poly(env, ZETA76, v["T"]) / 3600, "theta": poly(env, THETA76, v["T"]) / 3600,
                "z": poly(env, Z76, v["T"]) / 3600, "eps_bar": poly(env, EPS80, v["T"]) / 3600, "no_terms_psi": 0, "no_terms_eps": 0}
    return Case("models80/polynomials", ins, run, ref, timeout=60, tol=1e-12, abs_tol=1e-9,
                desc="iau1980: GMST (IAU-1982 polynomial in UT1 centuries, /240 to degrees, + east longitude, before the % 360), "
                     "IAU-1976 precession angles and the 1980 mean obliquity equal the transcribed polynomials")


def nutation_series_case(rows):
    """the 1980 series with a table of `rows` symbolic rows: arguments = integer combinations of the five transcribed Delaunay
    polynomials, amplitudes in 0.1 mas with secular parts, EOP corrections in mas"""
    ins = [("T", "real"), ("dpsi", "real"), ("deps", "real")] + OWN_INS
    for i in range(rows):
        ins += [(f"a{i}{j}", "int") for j in range(5)] + [(f"{k}{i}", "real") for k in "ABCD"]

    def table(v):
        return [([v[f"a{i}{j}"] for j in range(5)], [v[f"{k}{i}"] for k in "ABCD"]) for i in range(rows)]

    def run(env, v):
        iau = _mod(env, "beyond.frames.iau1980")
        d = DStub({"TT": {"julian_century": v["T"]}}, eop={"dpsi": v["dpsi"], "deps": v["deps"]}, own=_own(v))
        saved = {"_tab": iau._tab}
        iau._tab = lambda n=None: table(v)
        try:
            eb, dpsi, deps = iau._nutation.__wrapped__(d, True, 106)
            eb0, dpsi0, deps0 = iau._nutation.__wrapped__(d, False, 106)
        finally:
            _restore(iau, saved)
        return {"dpsi": dpsi, "deps": deps, "dpsi_no_eop": dpsi0, "deps_no_eop": deps0}

    def ref(env, v, out):
        T = v["T"]
        args = [poly(env, DEL80[k], T) for k in ("l", "lp", "F", "D", "Om")]
        p = e = 0
        for ints, (A, B, C, D) in table(v):
            a = sum(n * x for n, x in zip(ints, args))
            ar = a * env.pi / 180
            p = p + (A + B * T) * env.sin(ar) / 36000000
            e = e + (C + D * T) * env.cos(ar) / 36000000
        return {"dpsi": p + v["dpsi"] / 3600000, "deps": e + v["deps"] / 3600000, "dpsi_no_eop": p, "deps_no_eop": e}
    return Case(f"models80/nutation_series{rows}", ins, run, ref, timeout=120, tol=1e-9, abs_tol=1e-12,
                desc=f"iau1980._nutation on a table of {rows} symbolic rows: sum of (A + A' T) sin(arg) and (B + B' T) cos(arg) in units "
                     "of 0.1 mas over integer combinations of the transcribed Delaunay arguments, EOP dpsi/deps added in mas")


def equinox_case():
    ins = [("T", "real"), ("day", "int"), ("eb", "real"), ("dpsi", "real")] + OWN_INS

    def run(env, v):
        iau = _mod(env, "beyond.frames.iau1980")
        d = DStub({"TT": {"julian_century": v["T"]}, "UTC": {"d": v["day"]}}, own=_own(v))
        saved = {"_nutation": iau._nutation}
        iau._nutation = lambda date, eop_correction=True, terms=106: (v["eb"], v["dpsi"], 0)
        try:
            eq = iau.equinox(d)
            eq_nokin = iau.equinox(d, kinematic=False)
        finally:
            _restore(iau, saved)
        return {"equinox_arcsec": eq * 3600, "geometric_only": eq_nokin * 3600}

    def ref(env, v, out):
        base = v["dpsi"] * 3600 * env.cos(v["eb"] * env.pi / 180)
        eq = base
        if v["day"] >= KIN_START_MJD:
            om = poly(env, OM_KIN, v["T"]) * env.pi / 180
            eq = eq + env.const(KIN[0]) * env.sin(om) + env.const(KIN[1]) * env.sin(2 * om)
        return {"equinox_arcsec": eq, "geometric_only": base}
    return Case("models80/equinox", ins, run, ref, timeout=60, tol=1e-9, abs_tol=1e-12,
                extra_points=[{"T": -0.05, "day": 50505, "eb": 23.4, "dpsi": 0.004}, {"T": -0.03, "day": 50506, "eb": 23.4, "dpsi": 0.004},
                              {"T": -0.07, "day": 48679, "eb": 23.4, "dpsi": 0.004}],
                desc="equation of the equinoxes = dpsi cos(eps_bar), plus 0.00264'' sin(Om) + 0.000063'' sin(2 Om) for UTC days from MJD "
                     "50506 (1997-02-27) on and only then")


def gast_case():
    ins = [("Tu", "real"), ("eq", "real"), ("lon", "real")] + OWN_INS

    def run(env, v):
        iau = _mod(env, "beyond.frames.iau1980")
        d = DStub({"UT1": {"julian_century": v["Tu"]}}, own=_own(v))
        saved = {"equinox": iau.equinox}
        seen = []

        def eqx(date, eop_correction=True, terms=106, kinematic=True):
            seen.append((eop_correction, terms, kinematic))
            return v["eq"]
        iau.equinox = eqx
        try:
            g = iau._sideral(d, longitude=v["lon"], model="apparent")
        finally:
            _restore(iau, saved)
        ok = seen == [(True, 106, True)]
        return {"gast_deg": _pre(g) if env.symbolic else Ang(np.radians(g)), "in_range": Holds((g >= 0) & (g < 360)) if env.symbolic else Holds(0 <= g < 360),
                "full_equinox": Holds(SB(z3.BoolVal(ok)) if env.symbolic else ok)}

    def ref(env, v, out):
        g = poly(env, GMST82, v["Tu"]) / 240 + v["eq"] + v["lon"]
        return {"gast_deg": g if env.symbolic else Ang(np.radians(g)), "in_range": None, "full_equinox": None}
    return Case("models80/gast", ins, run, ref, timeout=60, tol=1e-12, abs_tol=1e-9,
                desc="apparent sidereal time = GMST + equation of the equinoxes (106 terms, kinematic terms on) + longitude, reduced to [0, 360)")


def _ang(env, v, k):
    return v[k]


def matrices80_case():
    """arrangement of the rotations (the angles are checked above): explicit textbook matrices, element by element"""
    names = ["ze", "th", "z", "eb", "dpsi", "deps", "gast", "xp", "yp"]
    ins = [(k, "angle", {"lo": "free"}) for k in names]

    def run(env, v):
        iau = _mod(env, "beyond.frames.iau1980")
        deg = (lambda a: a * 180 / env.pi)
        saved = {k: getattr(iau, k) for k in ("_precesion", "_nutation", "_sideral", "_earth_orientation")}
        iau._precesion = lambda date: (deg(v["ze"]), deg(v["th"]), deg(v["z"]))
        iau._nutation = lambda date, eop_correction=True, terms=106: (deg(v["eb"]), deg(v["dpsi"]), deg(v["deps"]))
        iau._sideral = lambda date, longitude=0.0, model="mean", eop_correction=True, terms=106: deg(v["gast"])
        iau._earth_orientation = lambda date: (deg(v["xp"]), deg(v["yp"]))
        try:
            P, N, S, W = iau.precesion(None), iau.nutation(None), iau.sideral(None, model="apparent"), iau.earth_orientation(None)
        finally:
            _restore(iau, saved)
        return {"precession_MOD_to_J2000": P, "nutation_TOD_to_MOD": N, "sidereal_PEF_to_TOD": S, "polar_ITRF_to_PEF": W}

    def ref(env, v, out):
        c, s = env.cos, env.sin
        ze, th, z = v["ze"], v["th"], v["z"]
        # r_MOD = P r_J2000 (Explanatory Supplement 3.21); the code returns MOD -> J2000 = P^T
        P = [[c(z) * c(th) * c(ze) - s(z) * s(ze), -c(z) * c(th) * s(ze) - s(z) * c(ze), -c(z) * s(th)],
             [s(z) * c(th) * c(ze) + c(z) * s(ze), -s(z) * c(th) * s(ze) + c(z) * c(ze), -s(z) * s(th)],
             [s(th) * c(ze), -s(th) * s(ze), c(th)]]
        eb, dp = v["eb"], v["dpsi"]
        e = v["eb"] + v["deps"]
        # r_TOD = N r_MOD (Explanatory Supplement 3.222); the code returns TOD -> MOD = N^T
        N = [[c(dp), -s(dp) * c(eb), -s(dp) * s(eb)],
             [s(dp) * c(e), c(dp) * c(e) * c(eb) + s(e) * s(eb), c(dp) * c(e) * s(eb) - s(e) * c(eb)],
             [s(dp) * s(e), c(dp) * s(e) * c(eb) - c(e) * s(eb), c(dp) * s(e) * s(eb) + c(e) * c(eb)]]
        g = v["gast"]
        S = [[c(g), -s(g), 0], [s(g), c(g), 0], [0, 0, 1]]
        x, y = v["xp"], v["yp"]
        W = [[c(x), 0, -s(x)], [s(y) * s(x), c(y), s(y) * c(x)], [c(y) * s(x), -s(y), c(y) * c(x)]]
        T = lambda M: [[M[j][i] for j in range(3)] for i in range(3)]
        return {"precession_MOD_to_J2000": T(P), "nutation_TOD_to_MOD": T(N), "sidereal_PEF_to_TOD": S, "polar_ITRF_to_PEF": W}
    return Case("models80/matrices", ins, run, ref, timeout=120, tol=1e-9, abs_tol=1e-12,
                desc="iau1980 precesion/nutation/sideral/earth_orientation arrange their angles as the textbook precession (P^T), "
                     "nutation (N^T), R3(-GAST) and R1(yp) R2(xp) matrices, element by element")


# =============================================================================================================== IAU 2010
def poly2010_case():
    ins = [("T", "real"), ("jd", "real"), ("x", "real"), ("y", "real")] + OWN_INS

    def run(env, v):
        iau = _mod(env, "beyond.frames.iau2010")
        d = DStub({"TT": {"julian_century": v["T"]}, "UT1": {"jd": v["jd"]}}, eop={"x": v["x"], "y": v["y"]}, own=_own(v))
        era = iau._sideral(d)
        xp, yp, sp = iau._earth_orientation(d)
        pl = iau._planets(d)
        saved = {"_tab": iau._tab}
        iau._tab = lambda: [[[] for _ in range(5)] for _ in range(3)]
        try:
            X, Y, S = iau._xysxy2(d)
        finally:
            _restore(iau, saved)
        out = {"era_rad": era if env.symbolic else Ang(era), "xp": xp, "yp": yp, "s_prime": sp, "X_poly": X, "Y_poly": Y, "s_poly": S}
        for i in range(5):
            out[f"delaunay{i}"] = _pre_rad(env, pl[i])
        for i in range(5, 14):
            out[f"planet{i}"] = pl[i]
        return out

    def ref(env, v, out):
        T = v["T"]
        era = 2 * env.pi * (env.const(ERA0) + env.const(ERA1) * (v["jd"] - env.const(2451545.0)))
        o = {"era_rad": era if env.symbolic else Ang(era), "xp": v["x"] / 3600, "yp": v["y"] / 3600, "s_prime": env.const(SPRIME) * T / 3600,
             "X_poly": poly(env, header_poly("tab5.2a.txt"), T) / 1000000, "Y_poly": poly(env, header_poly("tab5.2b.txt"), T) / 1000000,
             "s_poly": poly(env, header_poly("tab5.2d.txt"), T) / 1000000}
        for i in range(5):
            a = poly(env, DEL2000[i], T) / 3600            # degrees, before the code's % 360
            o[f"delaunay{i}"] = a * env.pi / 180 if env.symbolic else Ang(np.radians(a))
        for i in range(5, 14):
            o[f"planet{i}"] = poly(env, PLANETS[i - 5], T)
        return o
    return Case("models2010/polynomials", ins, run, ref, timeout=90, tol=1e-12, abs_tol=1e-9,
                desc="iau2010: Earth-rotation angle 2 pi (0.7790572732640 + 1.00273781191135448 (JD_UT1 - 2451545)), s' = -47 uas/cy, polar "
                     "motion in degrees, the Delaunay (arcsec polynomials reduced mod 360 deg) and planetary arguments of the IERS "
                     "Conventions, and the polynomial parts of X, Y, s + XY/2 as printed in the headers of the repository's IERS tables")


def _pre_rad(env, x):
    """planets[:5] = radians((arcsec / 3600) % 360): symbolically take the value before the % 360"""
    if not env.symbolic:
        return Ang(x)
    hit = [r for r in CTX.roots.values() if isinstance(r, R) and hasattr(r, "pre") and (r * PI / 180 - x).coef == 0]
    if len(hit) != 1:
        raise AssertionError("cannot identify the pre-mod value of a Delaunay argument")
    return hit[0].pre * PI / 180


def series2010_case():
    """X, Y, s+XY/2 with small symbolic tables: one row at j = 0 and one at j = 1 for each of the three quantities"""
    ins = [("T", "real")] + OWN_INS
    for q in "xys":
        for j in (0, 1):
            ins += [(f"{q}{j}s", "real"), (f"{q}{j}c", "real")] + [(f"{q}{j}n{k}", "int") for k in range(14)]

    def tabs(v):
        out = []
        for q in "xys":
            tot = [[] for _ in range(5)]
            for j in (0, 1):
                tot[j].append([v[f"{q}{j}s"], v[f"{q}{j}c"]] + [v[f"{q}{j}n{k}"] for k in range(14)])
            out.append(tot)
        return out

    def run(env, v):
        iau = _mod(env, "beyond.frames.iau2010")
        d = DStub({"TT": {"julian_century": v["T"]}}, own=_own(v))
        saved = {"_tab": iau._tab, "_planets": iau._planets}
        pl = [v_ for v_ in planets_syms(env, v)]
        iau._tab = lambda: tabs(v)
        iau._planets = lambda date: np.array(pl, dtype=object if env.symbolic else float)
        try:
            X, Y, S = iau._xysxy2(d)
        finally:
            _restore(iau, saved)
        return {"X": X, "Y": Y, "s_xy2": S}

    def planets_syms(env, v):
        # the 14 fundamental arguments as opaque quantities (their expressions are checked in models2010/polynomials)
        if env.symbolic:
            return [R.of(z3.Real(f"arg{k}")) for k in range(14)]
        return [0.1 * (k + 1) + 0.37 * float(v["T"]) for k in range(14)]

    def ref(env, v, out):
        T = v["T"]
        pl = planets_syms(env, v)
        res = {}
        for q, key, fname in (("x", "X", "tab5.2a.txt"), ("y", "Y", "tab5.2b.txt"), ("s", "s_xy2", "tab5.2d.txt")):
            tot = poly(env, header_poly(fname), T)
            for j in (0, 1):
                arg = sum(v[f"{q}{j}n{k}"] * pl[k] for k in range(14))
                tot = tot + (v[f"{q}{j}s"] * env.sin(arg) + v[f"{q}{j}c"] * env.cos(arg)) * T ** j
            res[key] = tot / 1000000
        return res
    return Case("models2010/series", ins, run, ref, timeout=120, tol=1e-9, abs_tol=1e-12,
                desc="iau2010._xysxy2 on symbolic tables: polynomial part + sum_j t^j sum_i (a_s sin(ARG) + a_c cos(ARG)) with ARG the integer "
                     "combination of the 14 fundamental arguments, micro-arcseconds to arcseconds")


def xys_case():
    ins = [("X", "real"), ("Y", "real"), ("S", "real"), ("dx", "real"), ("dy", "real")] + OWN_INS

    def run(env, v):
        iau = _mod(env, "beyond.frames.iau2010")
        d = DStub({}, eop={"dx": v["dx"], "dy": v["dy"]}, own=_own(v))
        saved = {"_xysxy2": iau._xysxy2}
        iau._xysxy2 = lambda date: (v["X"], v["Y"], v["S"])
        try:
            X, Y, s = iau._xys(d)
        finally:
            _restore(iau, saved)
        return {"X_rad": X, "Y_rad": Y, "s_rad": s}

    def ref(env, v, out):
        k = env.pi / 180 / 3600
        X = (v["X"] + v["dx"] / 1000) * k
        Y = (v["Y"] + v["dy"] / 1000) * k
        return {"X_rad": X, "Y_rad": Y, "s_rad": v["S"] * k - X * Y / 2}
    return Case("models2010/xys", ins, run, ref, timeout=60, tol=1e-12, abs_tol=1e-15,
                desc="iau2010._xys: X, Y = (series [arcsec] + EOP dX, dY [mas]) in radians; s = (s + XY/2) - XY/2")


def matrices2010_case():
    ins = [("X", "real"), ("Y", "real"), ("s", "angle", {"lo": "free"}), ("era", "angle", {"lo": "free"}),
           ("xp", "angle", {"lo": "free"}), ("yp", "angle", {"lo": "free"}), ("sp", "angle", {"lo": "free"})]

    def pre(v):
        return [v["X"] * v["X"] + v["Y"] * v["Y"] < R.const(0.01)]

    def run(env, v):
        iau = _mod(env, "beyond.frames.iau2010")
        deg = (lambda a: a * 180 / env.pi)
        saved = {k: getattr(iau, k) for k in ("_xys", "_sideral", "_earth_orientation")}
        iau._xys = lambda date: (v["X"], v["Y"], v["s"])
        iau._sideral = lambda date: v["era"]
        iau._earth_orientation = lambda date: (deg(v["xp"]), deg(v["yp"]), deg(v["sp"]))
        try:
            Q, S, W = iau.precesion_nutation(None), iau.sideral(None), iau.earth_orientation(None)
        finally:
            _restore(iau, saved)
        return {"Q_CIRF_to_GCRF": Q, "R3_minus_ERA": S, "W_ITRF_to_TIRF": W}

    def ref(env, v, out):
        c, s = env.cos, env.sin
        X, Y = v["X"], v["Y"]
        a = 1 / (1 + env.sqrt(1 - X * X - Y * Y))
        Q0 = [[1 - a * X * X, -a * X * Y, X], [-a * X * Y, 1 - a * Y * Y, Y], [-X, -Y, 1 - a * (X * X + Y * Y)]]
        ss = v["s"]
        R3 = [[c(ss), s(ss), 0], [-s(ss), c(ss), 0], [0, 0, 1]]
        Q = [[sum(Q0[i][k] * R3[k][j] for k in range(3)) for j in range(3)] for i in range(3)]
        e = v["era"]
        S = [[c(e), -s(e), 0], [s(e), c(e), 0], [0, 0, 1]]
        x, y, sp = v["xp"], v["yp"], v["sp"]
        # W = R3(-s') R2(xp) R1(yp), passive rotations
        R2R1 = [[c(x), s(x) * s(y), -s(x) * c(y)], [0, c(y), s(y)], [s(x), -c(x) * s(y), c(x) * c(y)]]
        R3m = [[c(sp), -s(sp), 0], [s(sp), c(sp), 0], [0, 0, 1]]
        W = [[sum(R3m[i][k] * R2R1[k][j] for k in range(3)) for j in range(3)] for i in range(3)]
        return {"Q_CIRF_to_GCRF": Q, "R3_minus_ERA": S, "W_ITRF_to_TIRF": W}
    return Case("models2010/matrices", ins, run, ref, pre=pre, timeout=180, tol=1e-9, abs_tol=1e-12,
                desc="iau2010: the CIP matrix Q(X, Y) R3(s) with a = 1/(1 + sqrt(1 - X^2 - Y^2)) (IERS Conventions eq. 5.10), R3(-ERA) and "
                     "W = R3(-s') R2(xp) R1(yp), element by element")


G50_REF = [[0.9999256794956877, -0.0111814832204662, -0.0048590038153592],
           [0.0111814832391717, 0.9999374848933135, -0.0000271625947142],
           [0.0048590037723143, -0.0000271702937440, 0.9999881946023742]]
BIAS_MAS = {"dalpha0": -14.6, "xi0": -16.6170, "eta0": -6.8192}          # IERS Conventions (2003) frame bias, milli-arcseconds


def providers_case():
    """the parameter-free providers of the orientation graph: TEME -> TOD is R3(-Eq) with the 4-term geometric equation of the
    equinoxes (Vallado's TEME definition: no kinematic terms, no EOP correction); PEF -> TOD uses the apparent sidereal time; the
    two constant matrices are proper rotations to 1e-13 and equal the published FK4->FK5 matrix / the first-order frame bias"""
    ins = [("eq", "angle", {"lo": "free"})]

    def run(env, v):
        ori = _mod(env, "beyond.frames.orient")
        iau = ori.iau1980
        if env.symbolic:
            iau = env.mod("beyond.frames.iau1980")
            ori.iau1980 = iau
        seen = {}
        saved = {"equinox": iau.equinox, "sideral": iau.sideral}

        def eqx(date, eop_correction=True, terms=106, kinematic=True):
            seen["teme"] = (eop_correction, terms, kinematic)
            return v["eq"] * 180 / env.pi

        def sid(date, longitude=0.0, model="mean", eop_correction=True, terms=106):
            seen["pef"] = (longitude, model)
            return "M"
        iau.equinox, iau.sideral = eqx, sid
        iau_rate = iau.rate
        iau.rate = lambda date: np.array([0, 0, 1])
        try:
            M, rate = ori.Orientation.TEME_to_TOD(ori.TEME, None)
            M2, rate2 = ori.Orientation.PEF_to_TOD(ori.PEF, None)
        finally:
            _restore(iau, saved)
            iau.rate = iau_rate
        G, _ = ori.Orientation.G50_to_EME2000(ori.G50, None)
        B, _ = ori.Orientation.GCRF_to_EME2000(ori.GCRF, None)
        Gx = np.array([[env.const(float(x)) for x in row] for row in G], dtype=object if env.symbolic else float)
        Bx = np.array([[env.const(float(x)) for x in row] for row in B], dtype=object if env.symbolic else float)
        ok = seen.get("teme") == (False, 4, False) and rate is None and seen.get("pef") == (0.0, "apparent") and M2 == "M" \
            and list(rate2) == [0, 0, -1]

        def close(a, b, tol):
            d = a - b
            return (d < tol) & (d > -tol) if env.symbolic else bool(abs(d) < tol)

        def allc(conds):
            out = conds[0]
            for c in conds[1:]:
                out = (out & c) if env.symbolic else (out and c)
            return out
        I = [[1 if i == j else 0 for j in range(3)] for i in range(3)]
        orth = []
        for Mx in (Gx, Bx):
            MtM = Mx.T @ Mx
            orth += [close(MtM[i][j], I[i][j], 1e-13) for i in range(3) for j in range(3)]
        k = env.pi / 180 / 3600000
        da, xi, eta = (env.const(BIAS_MAS[n]) * k for n in ("dalpha0", "xi0", "eta0"))
        bias = [close(Bx[0][1], -da, 1e-11), close(Bx[1][0], da, 1e-11), close(Bx[0][2], xi, 1e-11), close(Bx[2][0], -xi, 1e-11),
                close(Bx[1][2], eta, 1e-11), close(Bx[2][1], -eta, 1e-11)]
        if env.symbolic:
            from symx import core
            CTX.assume(core.PI_T > z3.RealVal("3.14159265358"), core.PI_T < z3.RealVal("3.14159265359"))
        return {"TEME_to_TOD": M, "wiring": Holds(SB(z3.BoolVal(ok)) if env.symbolic else ok), "G50": [list(r) for r in Gx],
                "const_orthonormal": Holds(allc(orth)), "frame_bias": Holds(allc(bias))}

    def ref(env, v, out):
        c, s = env.cos(v["eq"]), env.sin(v["eq"])
        return {"TEME_to_TOD": [[c, -s, 0], [s, c, 0], [0, 0, 1]], "wiring": None,
                "G50": [[env.const(x) for x in row] for row in G50_REF], "const_orthonormal": None, "frame_bias": None}
    return Case("models/providers", ins, run, ref, timeout=60, tol=1e-15, abs_tol=1e-15,
                desc="TEME->TOD = R3(-Eq_equinox(4 terms, geometric)), PEF->TOD = apparent sidereal rotation with rate -w; the constant "
                     "G50->EME2000 and GCRF->EME2000 matrices are orthonormal to 1e-13, the former equal to the published FK4->FK5 "
                     "matrix, the latter to the IERS frame bias (dalpha0, xi0, eta0) to first order within 1e-11 rad (2 micro-arcseconds; the published xi0 is given to 0.1 uas and the matrix in the code differs from it by 0.14 uas)")


def fresh_eop_case():
    """the same calendar date asked twice with different Earth-orientation parameters (a database reload, or the zero-EOP vs
    real-EOP configurations of one process): the second conversion uses the second date's own parameters -- no result of
    Orientation.convert_to may be remembered under a key that ignores date.eop (two date objects that print identically)"""
    ins = [("x1", "angle", {"lo": "free"}), ("y1", "angle", {"lo": "free"}), ("x2", "angle", {"lo": "free"}), ("y2", "angle", {"lo": "free"})]

    class SameStr:
        def __init__(self, eop):
            self.eop = types.SimpleNamespace(**eop)

        def __repr__(self):
            return "2020-01-01T00:00:00 UTC"
        __str__ = __repr__

    def run(env, v):
        ori = _mod(env, "beyond.frames.orient")
        if env.symbolic:
            iau = env.mod("beyond.frames.iau1980")
            ori.iau1980 = iau
            env.mod("beyond.utils.matrix")
        k = 180 * 3600 / env.pi                     # radians -> arcseconds, the unit of eop.x / eop.y
        d1 = SameStr({"x": v["x1"] * k, "y": v["y1"] * k})
        d2 = SameStr({"x": v["x2"] * k, "y": v["y2"] * k})
        ori.ITRF.convert_to(d1, ori.PEF)
        M = ori.ITRF.convert_to(d2, ori.PEF)
        return {"second_call_uses_its_own_eop": [[M[i][j] for j in range(3)] for i in range(3)]}

    def ref(env, v, out):
        c, s = env.cos, env.sin
        x, y = v["x2"], v["y2"]
        return {"second_call_uses_its_own_eop": [[c(x), 0, -s(x)], [s(y) * s(x), c(y), s(y) * c(x)], [c(y) * s(x), -s(y), c(y) * c(x)]]}
    return Case("models/fresh_eop", ins, run, ref, timeout=60, tol=1e-9, abs_tol=1e-12,
                desc="ITRF -> PEF asked twice for dates that print identically but carry different pole coordinates: the second "
                     "matrix is R1(yp2) R2(xp2)")


def cases(tier):
    cs = [poly80_case(), nutation_series_case(1), nutation_series_case(2), equinox_case(), gast_case(), matrices80_case(),
          poly2010_case(), series2010_case(), xys_case(), matrices2010_case(), providers_case(), fresh_eop_case()]
    if tier != "quick":
        cs.append(nutation_series_case(3))
    return cs
