#!/bin/sh
# tools/mut.sh <ID> <file-in-repo> <sed-expr>   -- apply a one-line mutation to /repo, run the quick check, revert
ID=$1; F=$2; E=$3
cd /repo && sed -i "$E" "$F" && git diff --stat | tail -1
if git diff --quiet; then echo "MUTATION DID NOT APPLY"; exit 2; fi
cd /verif && VF_EVIDENCE_DIR=/tmp/mut_ev ./vf $ID ${4:-quick} 2>&1 | grep -v "^  obligation" | cut -c1-250 | tail -${5:-4}
git -C /repo checkout -- .; rm -rf /tmp/mut_ev
