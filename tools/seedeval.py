#!/usr/bin/env python3
"""tools/seedeval.py <ID> [tag]  -- confirm a seeded change (worktree /tmp/seed_<tag>, deliverables /tmp/seedout_<tag>):
demo fails with / passes without the change, the repository's test suite is unchanged, then run the quick check of <ID> on
the changed tree (VF_REPO=<worktree>: /repo itself is not touched) and store patch, demo and meta under /verif/seeded/<tag>/."""
import json, os, shutil, subprocess, sys
ID = sys.argv[1]
TAG = sys.argv[2] if len(sys.argv) > 2 else ID
W, O, D = f"/tmp/seed_{TAG}", f"/tmp/seedout_{TAG}", f"/verif/seeded/{TAG}"
os.makedirs(D, exist_ok=True)
run = lambda cmd, **kw: subprocess.run(cmd, shell=True, capture_output=True, text=True, **kw)
patch = run("git diff", cwd=W).stdout
if not patch.strip():
    sys.exit("no change in worktree")
open(f"{D}/patch.diff", "w").write(patch)
if os.path.exists(f"{O}/demo.py"):
    shutil.copy(f"{O}/demo.py", f"{D}/demo.py")
prev = {}
if os.environ.get("SEED_SKIP_CONFIRM") and os.path.exists(f"{D}/meta.json"):
    prev = json.load(open(f"{D}/meta.json")).get("confirmed", {})
if prev:
    rw, rwo, tests = prev["demo_rc_with_change"], prev["demo_rc_without_change"], prev["test_suite"]
else:
    rw = run(f"/venv/bin/python -W ignore {O}/demo.py", cwd=W).returncode
    # (no `git stash`: the stash is shared between worktrees)
    run(f"git apply -R {D}/patch.diff", cwd=W)
    rwo = run(f"/venv/bin/python -W ignore {O}/demo.py", cwd=W).returncode
    run(f"git apply {D}/patch.diff", cwd=W)
    tests = run("timeout 1200 /venv/bin/python -m pytest -q -p no:cacheprovider --timeout=300 2>&1 | tail -1", cwd=W).stdout.strip()
env = dict(os.environ, VF_REPO=W, VF_EVIDENCE_DIR=f"/tmp/seed_ev_{TAG}")
tier = os.environ.get("SEED_TIER", "quick")
agent = {}
try:
    agent = json.load(open(f"{O}/meta.json"))
except Exception:
    pass
results = []
for cid in ID.split(","):            # the property the seed was written against first, then other checks that cover the same code
    r = subprocess.run(["./vf", cid, tier], cwd="/verif", env=env, capture_output=True, text=True)
    log = r.stdout + r.stderr
    nv = sum(1 for l in log.splitlines() if l.startswith("VIOLATION"))
    open(f"/tmp/seed_vf_{TAG}_{cid}.log", "w").write(log)
    first = next((l for l in log.splitlines() if l.startswith("  obligation")), "")[:400]
    results.append({"check": cid, "tier": tier, "exit_code": r.returncode, "violation_lines": nv, "detected": r.returncode == 1 and nv > 0,
                    "first_violation": first, "summary": [l for l in log.splitlines() if l.startswith(f"{cid} {tier}:")][-1:]})
meta = {"property": ID.split(",")[0], "what_it_breaks": agent.get("what_it_breaks"), "needs_to_manifest": agent.get("needs_to_manifest"),
        "files": agent.get("files"),
        "confirmed": {"demo_rc_with_change": rw, "demo_rc_without_change": rwo, "test_suite": tests,
                      "ran": ["cd <scratch worktree> && /venv/bin/python demo.py, with the change and (git apply -R) without it",
                              "full pytest suite in the scratch worktree with the change",
                              f"VF_REPO=<scratch worktree> ./vf <check> {tier}  (the check imports the changed tree; /repo untouched)"]},
        "check_result": dict(results[0], detected=any(x["detected"] for x in results)), "all_checks": results}
json.dump(meta, open(f"{D}/meta.json", "w"), indent=1)
print(f"{TAG}: demo with={rw} without={rwo}; tests: {tests}; " + "; ".join(f"{x['check']} rc={x['exit_code']} violations={x['violation_lines']}" for x in results))
for x in results:
    print("   ", x["summary"], x["first_violation"][:200])
