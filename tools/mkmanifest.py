#!/usr/bin/env python3
"""Regenerates MANIFEST.json from the table below and validates it against the schema."""
import json
import os
import sys

ROOT = os.path.dirname(os.path.dirname(os.path.abspath(__file__)))
TECH = "bounded symbolic execution of the real functions (object-dtype numpy carrying symbolic scalars) + z3 validity queries per output component; counterexamples replayed on the unpatched code"

CHECKS = {
    "C16": dict(
        text="Every formula of ClohessyWiltshire._propagate/propagate and of the CWHelper maneuvers is executed symbolically "
             "(exact reals, cos/sin as a point on the unit circle) and the solver proves, for all n>0, all times, all initial "
             "states and thrusts: Hill's ODE with constant thrust, identity at t=0, composition/inverse, TNW = fixed permutation "
             "of QSW, one impulsive/continuous maneuver applied exactly once / only inside its window, and that each helper "
             "maneuver ends exactly where announced and at rest. Bounded: <=1 maneuver via the generic path (helper sequences "
             "of up to 3), real arithmetic instead of binary64.",
        note="Trusted: z3; numpy object-dtype kernels; the textbook CW closed form and Hill's equations written in the harness; "
             "Date/timedelta replaced by exact real-second stubs. Outside: second-order agreement with Keplerian difference.",
        ref="DESIGN.md section 3 C16", technique=TECH),
}

NOT_APPLICABLE = {
    "C07": "SGP4 vs reference theory: numeric agreement of two ~400-operation floating-point programs with libm calls and a Kepler "
           "iteration; no algebraic oracle and far beyond bit-precise FP solving (DESIGN.md section 6). The date hand-over is covered under C04.",
    "C15": "value semantics/atomicity live in numpy's C heap (ndarray.base, views, pickle); neither CrossHair nor the symbolic executor "
           "can make that heap symbolic; exploring copy/assign sequences concretely would be a different technique (DESIGN.md section 6).",
    "C18": "truth is a binary JPL kernel and 60-term floating-point series; agreement to 0.02 deg is a numerical fact about data, "
           "not an identity a solver can decide; SPK chaining runs inside the compiled jplephem reader (DESIGN.md section 6).",
}
PENDING = "claimed in DESIGN.md but its check is not built yet in the committed state; listed here until it is"


def main():
    props = [json.loads(l)["id"] for l in open(os.path.join(ROOT, "properties.jsonl"))]
    checks = []
    for pid in props:
        if pid not in CHECKS:
            continue
        c = CHECKS[pid]
        checks.append({
            "property_id": pid,
            "quick_cmd": f"./vf {pid} quick",
            "thorough_cmd": f"./vf {pid} thorough",
            "evidence_file": f"/verif/evidence/{pid}.json",
            "replay_cmd_template": "./vf --replay {path}",
            "engine": "symx",
            "level_claimed": {"category": "model_checking", "text": c["text"], "design_ref": c["ref"]},
            "level_note": c["note"],
            "technique": c["technique"],
        })
    na = []
    for pid in props:
        if pid in CHECKS:
            continue
        na.append({"property_id": pid, "reason": NOT_APPLICABLE.get(pid, PENDING)})
    m = {
        "version": 1,
        "setup_cmd": "./setup.sh",
        "hooks": {"guard": "BEYOND_VERIF", "enable": "none needed: checks patch module globals of the imported repository modules at run time; no source hooks",
                  "baseline_off_cmd": "cd /repo && /venv/bin/python -m pytest -ra -q -p no:cacheprovider --timeout=900 --continue-on-collection-errors",
                  "source_commits": [], "add_only": True},
        "engines": [{"name": "symx", "path": "/verif/symx", "serves_properties": sorted(CHECKS),
                     "kind_free_text": "path-exploring symbolic executor for the repository's own Python functions (exact reals with symbolic angles, "
                                       "integers, IEEE doubles), obligations as SMT-LIB2 decided by z3/cvc5 in worker processes"}],
        "checks": checks,
        "notes": "Technique family: solver-based checking of the real code. See DESIGN.md. Exit 3 = harness error (never on the pinned tree).",
        "not_applicable": na,
    }
    json.dump(m, open(os.path.join(ROOT, "MANIFEST.json"), "w"), indent=1)
    try:
        import jsonschema
        jsonschema.validate(m, json.load(open("/root/.vp/MANIFEST.schema.json")))
        for c in checks:
            p = c["evidence_file"]
            if os.path.exists(p):
                jsonschema.validate(json.load(open(p)), json.load(open("/root/.vp/EVIDENCE.schema.json")))
        print("MANIFEST.json valid;", len(checks), "checks,", len(na), "not applicable")
    except ImportError:
        print("jsonschema missing: not validated")


if __name__ == "__main__":
    main()
