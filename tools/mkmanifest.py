#!/usr/bin/env python3
"""Regenerates MANIFEST.json from the table below and validates it against the schema."""
import json
import os
import sys

ROOT = os.path.dirname(os.path.dirname(os.path.abspath(__file__)))
TECH = "bounded symbolic execution of the real functions (object-dtype numpy carrying symbolic scalars) + z3 validity queries per output component; counterexamples replayed on the unpatched code"

CHECKS = {
    "C01": dict(
        text="All 18 edge functions of orbits/forms.py, Form.M2E and Infos are executed symbolically (exact reals, angles as unit-circle "
             "atoms, hyperbolic anomalies as unit-hyperbola atoms). Proved for all inputs in the elliptic (0<e<1) and hyperbolic (e>1) "
             "families: every edge there-and-back is the identity; each form's numbers equal independent textbook definitions "
             "(spherical/cylindrical values and rates as time derivatives by dual numbers; eccentric/hyperbolic anomaly through "
             "the perifocal geometry; Kepler's equation; circular, equinoctial, TLE forms; keplerian->cartesian against the "
             "perifocal rotation; cartesian->keplerian against energy / eccentricity vector / h / node definitions and as left "
             "inverse of the reference k->c); Infos relations (vis-viva, apsides, period, vinf, dinf, flight-path angle); on "
             "every return path of M2E within the unwinding bound the returned anomaly solves Kepler's equation to 2 e tol and the "
             "Newton start value of every start branch stays where binary64 sinh/cosh are finite (|start| <= 700 for |M| <= 1e6, "
             "1.001 < e <= 20); all 90 ordered form pairs route through existing edges (enumerated).",
        note="Trusted: z3; numpy object-dtype kernels; textbook definitions written in the harness; Lipschitz/convexity lemmas for "
             "sin/sinh in the M2E exit argument; the encoder's polynomial normal form (only as fallback when the solver is "
             "inconclusive, cross-checked against solver verdicts). Assumed: non-degenerate states (denominators non-zero). "
             "Outside: convergence/termination of M2E, floating-point loss near e->0, i->0.",
        ref="DESIGN.md section 3 C01", technique=TECH),
    "C02": dict(
        text="utils.matrix.rot1/2/3 and expand, Orientation.convert_to on the real orientation graph, the PEF_to_TOD and TIRF_to_CIRF "
             "providers, iau1980/2010.rate, the GMST polynomial of iau1980._sideral, orbit2frame with LocalOrbitalOrientation, "
             "Center.convert_to and Frame.transform are executed symbolically: the elementary rotations are proper passive "
             "rotations composing additively; with the rotation built by the real code from a time-dependent sidereal angle "
             "(dual numbers) and the rate vector the provider returns, the converted velocity is the time derivative of the converted "
             "position and the inverse conversion undoes it; the rate vector is +z w0(1-LOD) and w0 equals the slope of the code's "
             "own GMST polynomial to 1e-9 rad/s over 1973-2018; for every ordered triple of the 10 built-in orientations (symbolic "
             "indices, all 1000 explored) and ARBITRARY provider contents convert(A,C) = convert(B,C) convert(A,B) and "
             "convert(B,A) convert(A,B) = I (reduced words in the free groupoid on the providers); a frame attached to an orbit "
             "(QSW, TNW, or parent orientation) has that orbit at rest at its origin, its axes are the orbit's local triad, "
             "parent->frame->parent is the identity and distances are preserved. The Earth-orientation models run on a symbolic "
             "date stub against constants transcribed from Vallado / the IERS Conventions: GMST-82, IAU-76 precession, mean obliquity, "
             "Delaunay arguments, evaluation of the 1980 and 2000 series on small tables of symbolic coefficients, EOP corrections "
             "and units, the equation of the equinoxes with its kinematic terms from MJD 50506 on, GAST, ERA, s', the 14 fundamental "
             "arguments, the polynomial parts of X, Y, s+XY/2 (cross-read from the repository's IERS table headers), and the "
             "arrangement of every rotation matrix (precession, nutation, sidereal, polar motion, Q(X,Y) R3(s), TEME, G50, frame "
             "bias) element by element.",
        note="Trusted: z3; the path-composition clause is decided per explored path by word reduction (the solver enumerates the "
             "index triples and proves exhaustiveness) -- the thinnest use of the technique here. The model constants of the "
             "reference are the harness author's transcription. Outside (declared): the numbers inside the 106-row and 1600-row "
             "series tables (no independent copy offline) and hence the numerical 1980-vs-2010 agreement < 0.1 arcsec; station "
             "frames are under C11.",
        ref="DESIGN.md section 3 C02", technique=TECH),
    "C03": dict(
        text="beyond.dates.date runs symbolically on float/int subclasses that wrap exact reals (// % divmod with Python's floor "
             "semantics, int() truncation) and on exact-second models of datetime/timedelta, with one symbolic EOP record: offsets "
             "between all 36 ordered scale pairs are exactly the signed sums of 32.184, 19, TAI-UTC, UT1-UTC (TDB: TT plus a term "
             "below 1.7 ms) and antisymmetric; for the 25 pairs of UT1/GPS/UTC/TAI/TT a Date and its change_scale denote the same "
             "instant, compare equal, carry the right label, keep their private seconds in [0,86400) and expose THE normalised "
             "clock reading of that instant; (d+t)-d = t, d-(d-t) = t and associativity in TAI/TT/GPS/UTC; comparisons follow the "
             "instants whatever the labels; DateRange iteration = start+k*step, count = len(), membership, for both step signs and "
             "inclusive or not (bounded unwinding); the three missing-EOP policies. The eq/hash clause is decided bit-precisely: the "
             "return expressions of Date._mjd/__eq__/__hash__ are translated from the AST into IEEE-754 binary64 terms and cvc5 "
             "proves that equal dates have equal hash inputs. The IERS readers (Finals, Finals2000A, TaiUtc) and the day lookup of "
             "SimpleEopDatabase run, through a fake pathlib.Path, on 3-line files whose digits and sign columns are solver variables: "
             "EopDb.get(mjd) returns the values printed in the published columns of the line of day floor(mjd) (with the documented "
             "last-value fallback for missing nutation corrections / LOD) and the TAI-UTC of the last leap line <= mjd, for 25 "
             "solver-chosen configurations of missing fields.",
        note="Trusted: z3, cvc5; exact reals for the arithmetic laws (floating-point and microsecond rounding outside: the 1-2 "
             "microsecond bounds are not claimed), source float literals read as the decimals they denote; one EOP record for the "
             "dates of an obligation (same table day, no leap second). Outside: content of the real IERS tables (the readers are checked on "
             "arbitrary content in the published format, 3 lines per file), same-instant across a TDB conversion (needs a Lipschitz "
             "bound of the periodic term).",
        ref="DESIGN.md section 3 C03", technique=TECH + "; AST->QF_FP (cvc5) for eq/hash"),
    "C04": dict(
        text="2-safety by self-composition on the real Date class (running on the exact-real model of C03): one symbolic instant is "
             "built twice, labelled X and Y, and each date consumer is executed on both; the observable -- the argument handed to "
             "the physics, or for writers the instant decoded from the written text and the TIME_SYSTEM the message declares -- "
             "must be identical for every instant and EOP record. Consumers: Sgp4.propagate (calendar tuple given to the sgp4 "
             "library, via format tokens), Sgp4Beta.propagate (its tdiff statements taken from the AST), Tle.from_orbit (the "
             "datetime its epoch fields are formatted from), Kepler/J2.propagate and ClohessyWiltshire._propagate (target date "
             "and epoch relabelled), DatedInterp (query and table dates relabelled), iau1980.equinox (1997 switch), CCSDS OPM "
             "(state + maneuver) and OEM (2-point ephemeris) writers in KVN and XML on real StateVector/Ephem/maneuver objects "
             "with symbolic dates.",
        note="Trusted: z3; the Date model of C03 (same-instant of change_scale is proved there); uninterpreted functions for "
             "formatted fields. Bounded: one call per consumer, label pairs (TAI,TT),(UTC,TAI),(GPS,UT1) quick / all 20 pairs of "
             "UT1,GPS,UTC,TAI,TT thorough. Outside: TDB labels; consumers not listed (listeners, Ephem.iter: C08/C10).",
        ref="DESIGN.md section 3 C04", technique=TECH + "; self-composition (2-safety)"),
    "C05": dict(
        text="Kepler.propagate and J2.propagate are executed symbolically on a mean-element carrier with the real Infos: proved for "
             "all elements, mu and dt that a,e,i,Omega,omega are unchanged and M advances by sqrt(mu/|a|^3) dt (elliptic and "
             "hyperbolic), composition t1 then t2 = t1+t2, inverse, periodicity; J2 keeps a,e,i and drifts Omega, omega, M at the "
             "independently written first-order secular rates, no node drift when cos i = 0, no perigee drift when sin^2 i = 4/5.",
        note="Trusted: z3, the secular-rate reference formulas. The trailing mean->cartesian conversion is cut (covered by C01). "
             "Outside: agreement with a universal-variable solution (transcendental).",
        ref="DESIGN.md section 3 C05", technique=TECH),
    "C17": dict(
        text="to_qsw/to_tnw/to_local, ImpulsiveMan, ContinuousMan, dkep2dv and the maneuver clause of KeplerNum._make_step are "
             "executed symbolically: proved for every state with non-zero angular momentum that the matrices are proper rotations "
             "with the defined axes (M M^T = I, det = 1, rows = r^ / v^, completion, h^), that a maneuver contributes exactly its "
             "stated components along the stated axes (all 3 frames, impulsive / continuous by dv / by accel; QSW/TNW also for a state "
             "stored in spherical form: the axes are those of its cartesian position and velocity), window arithmetic "
             "for the three date_pos, exactly-once firing of an impulse over any tiling of the span by forward steps (bounded "
             "number of tiles), _make_step adds the impulse iff t0 < date <= t0+h, and dkep2dv obeys Al-Kashi / Gauss relations.",
        note="Trusted: z3; independent triad construction in the harness. _accel is stubbed by a symbolic derivative vector here "
             "(integrator schema is C06). Outside: first-order realisation of (da, di, dOmega) beyond the tangential identity; "
             "off-grid continuous-burn quadrature.",
        ref="DESIGN.md section 3 C17", technique=TECH),
    "C06": dict(
        text="KeplerNum._make_step is executed for the four methods with the derivative an uninterpreted vector field f(t, y): the "
             "accepted step equals y + h sum b_i k_i with k_i = f(t + c_i h, y + h sum a_ij k_j) built from the class's own tableau "
             "(decided with uninterpreted functions: catches mis-sliced stages, wrong date advance, wrong use of b*), the date "
             "advances by h; for RKF54/DOPRI54 the error estimate is h (b - b*).k on the position part, a step is accepted iff "
             "its norm <= tol, otherwise the next trial step is min(configured step, h (tol/(2 err))^(1/(s-1))). Every tableau "
             "entry equals the textbook rational to 1e-15 and the textbook tableaux satisfy all rooted-tree order conditions "
             "(1 / 8 / 17 conditions for orders 1 / 4 / 5, b* to order 4) and the row-sum conditions exactly. The real _accel with "
             "one body at the origin is (v, -mu r/|r|^3): central, attractive, d/dt(v^2/2 - mu/|r|) = 0 and d/dt(r x v) = 0.",
        note="Trusted: z3; the Runge-Kutta order theorem (order conditions => convergence order); textbook tableaux written in the "
             "harness. Bounded: one step, one rejected trial. Outside: measured convergence rates, tolerance-per-step of the "
             "adaptive methods, drift bounds over orbits, output-step independence (interpolation error).",
        ref="DESIGN.md section 3 C06", technique=TECH + " with uninterpreted functions for the vector field; exact rational arithmetic queries for the tableau"),
    "C08": dict(
        text="AnalyticalPropagator.iter/_iter, Ephem.iter (dates / own points / re-sampling step / strict range / negative step) and "
             "the control skeleton of KeplerNum._iter (with _make_step = 'advance by exactly step' and the interpolation order bounded to "
             "3) run on the real Date class with symbolic start, span and step: the yielded dates are exactly start + k*step, in order, "
             "first to last inclusive, none beyond stop, for forward and backward ranges, stop given as date or timedelta, start "
             "anywhere w.r.t. the epoch; each yielded state is one propagate(date) of that date; listeners are cleared once at the "
             "start; the table's own points are yielded as copies. Bounded number of points per run (unwinding assertion). The "
             "three KeplerNum iteration defects found (backward range, span shorter than the interpolation order, a point beyond "
             "stop) are listed in known_findings.json.",
        note="Trusted: z3; Date model of C03; propagate() is an uninterpreted record of the requested instant (purity of the "
             "propagators' propagate() itself is by construction of their orbit setters, not claimed here). Outside: numeric equality of "
             "re-sampled numerical states with direct propagation.",
        ref="DESIGN.md section 3 C08", technique=TECH),
    "C09": dict(
        text="Interp.__call__/_prev_idx/_linear/_lagrange and DatedInterp.__call__ are executed symbolically on tables of symbolic "
             "reals held in object-dtype arrays (the real numpy tile/repeat/diag/mask/prod/@ code runs): all paths of the binary "
             "search return the bracketing interval (tables up to the bound); the window taken by _lagrange has exactly `order` "
             "points, lies inside the table and contains the bracketing interval for EVERY table length n >= order (n symbolic, "
             "order 2..12 symbolic); Lagrange interpolation of order k reproduces 1, x, ..., x^(k-1) for any distinct nodes in the "
             "first, a middle and the last interval; interpolation at any node returns the tabulated value (Lagrange and linear); "
             "linear interpolation is the piecewise-linear interpolant; outside [first, last] a ValueError with the date message is "
             "raised and never a value; the real Ephem returns its nodes, keeps its frame label, and honours `ephem.order = k` / "
             "`ephem.method = m` given before or after a first interpolation.",
        note="Trusted: z3; numpy object-dtype kernels. Bounded: binary search tables <= 8 (quick) / 16 (thorough) entries; "
             "reproduction orders 2..6 (quick) / 2..8 (thorough). Outside: centimetre accuracy for smooth orbits (analysis), "
             "bit-precise exactness in binary64, orders above the bound.",
        ref="DESIGN.md section 3 C09", technique=TECH),
    "C10": dict(
        text="Speaker.listen, Speaker._bisect, Listener.check/clear, the label logic of the station/node listeners, "
             "AnomalyListener._diff and the event stream of AnalyticalPropagator.iter are executed with the watched quantity of each "
             "listener an uninterpreted function g_l(instant) and dates on the exact-real Date model: after clear() the first sample "
             "is silent (for an arbitrary earlier history); at the next sample an event is returned for exactly the listeners whose "
             "g_l changed sign (1..2 quick / 3 thorough simultaneous listeners), in chronological order, and every prev is updated; "
             "one bisection step from an arbitrary bracket probes the midpoint and keeps a half bracket on which g still changes "
             "sign, and every explored exit of the real loop returns a labelled state inside the bracket; AOS iff rising, Desc Node "
             "iff falling, MAX only above the horizon and not rising; the anomaly difference is wrapped into [-pi, pi) modulo 2 pi and AnomalyListener.check fires iff that "
             "wrapped difference changes sign within 2 rad of the target (samples in [0, 2 pi), target anywhere); "
             "the iteration stream (samples + events between them) is chronological and contains every sample.",
        note="Trusted: z3; uninterpreted watched quantities (the statement is about any quantity). Timedelta halving exact "
             "(microsecond rounding outside). Outside: closed-form Keplerian event times, shadow geometry and its 0.01 s/0.5 s "
             "timing, visibility-stream filter of TopocentricFrame.visibility.",
        ref="DESIGN.md section 3 C10", technique=TECH),
    "C11": dict(
        text="create_station, _geodetic_to_cartesian, TopocentricOrientation, Center/Orientation.convert_to, Frame.transform, the "
             "spherical form and the Range/Azimut/Elevation/Doppler measures are executed symbolically end to end: proved for every "
             "latitude in (-90,90), longitude, altitude, ellipsoid (a, 0<e<1) and every Earth-fixed target state that the station lies "
             "on the ellipsoid at the given height along the outward normal and is at rest, its axes are north/west/up, and range, "
             "azimuth (= -theta), elevation and range-rate equal an independently written WGS-84 ENU computation (range counted once "
             "per leg on open and closed signal paths of 2..5 nodes), also for a station created under the name of an earlier station "
             "located elsewhere. get_mask equals the piecewise-linear wrap-around interpolant for every table of bounded length "
             "(strictly increasing azimuths ending at 2 pi) and every real azimuth, all loop paths explored.",
        note="Trusted: z3; ENU/ellipsoid reference in the harness; exact cofactor inverse standing in for np.linalg.inv. Earth.r/Earth.e "
             "replaced by symbols. Bounded: mask tables of <= 3 (quick) / 5 (thorough) entries. Outside: motion with the Earth's "
             "rotation in inertial frames (rotation providers are C02).",
        ref="DESIGN.md section 3 C11", technique=TECH),
    "C12": dict(
        text="(a) The two format templates of Tle.from_orbit and the constant slices of Tle.__init__ are read from the AST of the "
             "current tle.py and turned into z3 string/integer constraints: each line fills exactly 68 columns before the checksum and, "
             "for every content of the declared width (integer fields: every value of the range rendered right-aligned), the parser's "
             "slice recovers the writer's field. (b) The real _checksum and _check_validity run on 69 symbolic characters over the TLE "
             "alphabet: the result is (sum of per-column summands) mod 10 with every summand proved equal to the digit value / 1 for "
             "'-' / 0 otherwise; replacing any single digit by another digit changes the checksum in every column; _check_validity "
             "accepts iff line numbers, both lengths (68/69/70 explored) and both checksum characters are right. (c) from_string: "
             "every sequence of up to 4 (quick) / 5 (thorough) lines of kinds {name, line1, line2, comment, blank, corrupted line1} "
             "yields exactly the valid consecutive entries. (d) The real _float runs on the six sign shapes [ +-]DDDDD[+-]D of a "
             "'decimal point assumed' field (ndotdot/6, B*) with the six digits symbolic: value = +-0.DDDDD x 10^(+-D); the real _unfloat "
             "runs on a stand-in float whose format(v, '.4e') is the decimal rounding of v (placeholder digits, sign and exponent "
             "-10..8 per shape, with and without mantissa carry) and its output is read by the real _float: at most 8 columns, value "
             "back within half a unit of the fifth digit.",
        note="Trusted: z3 (sequence theory for the layout queries); the AST extraction; CPython str.format widths. Compositional "
             "step: sums of summands that agree column by column agree. Outside: binary64 effects in the float -> text conversion of those fields (exact ties; the decimal rounding is what is modelled), classification other than U, "
             "non-canonical encodings of zero or explicit '+' signs.",
        ref="DESIGN.md section 3 C12", technique="AST-derived SMT (z3 strings/LIA) for the column layout; bounded symbolic execution of the real checksum/validity code on symbolic characters; solver-enumerated line-kind sequences for from_string"),
    "C19": dict(
        text="utils.ltan, utils.constellation, utils.beta, utils.interplanetary.bplane, utils.leo.sso/frozen are executed "
             "symbolically: ltan2raan(raan2ltan(W)) = W mod 2 pi and the converse mod 86400 s for any sun right ascension (mean and "
             "true), results in range, noon at the sun's right ascension; Walker Star/Delta t/p/f with p | t (t, p, f symbolic "
             "integers): t/p per plane, planes spaced pi/p resp. 2 pi/p from raan0, in-plane spacing 2 pi/(t/p), inter-plane phasing "
             "f 2 pi/t; sin(beta) = h^.s^ with beta in [-90, 90] deg; B-plane: (S, T, R) orthonormal, B perpendicular to S and h, S "
             "= e^/e + (h^ x e^) sqrt(1-1/e^2) (the incoming asymptote; this last obligation is heavy and may be reported "
             "inconclusive in the quick tier); sso(a, e) -> i makes the first-order J2 node drift equal 2 pi/(365.256363004 d) and "
             "sso(a, i) recovers e; frozen-orbit eccentricity formula. Lambert, decidable parts only: with the time-of-flight "
             "function uninterpreted the real _lambert returns only after a Newton step smaller than its tolerance in absolute value (bounded number of "
             "evaluations); _dF is the derivative of the real _F for z != 0 (dual numbers, Stumpff derivative identities proved first); "
             "for any y > 0 its velocities conserve energy and angular momentum, stay in the transfer plane and turn "
             "the way asked; _C, _S, _y, _F equal the universal-variable equation (z > 0, = 0, < 0).",
        note="Trusted: z3; the sun's right ascension, Earth constants and the reference body are symbols. Outside (declared, not "
             "claimed): convergence of the Lambert Newton iteration and its bracketing loop (transcendental Stumpff functions; the "
             "replay measures arrival on a panel of transfers only when a counterexample is confirmed), sso_frozen iteration, |B| = "
             "impact parameter through the full element conversion.",
        ref="DESIGN.md section 3 C19", technique=TECH),
    "C20": dict(
        text="The real utils/node.py is executed on link histories in which every choice -- tree shape (parent vector), insertion "
             "permutation, orientation of each `+`, neighbour orders of the pre-state, end points -- is a symbolic integer concretised "
             "by the forking driver through solver feasibility queries; per group the solver then proves that the explored path "
             "conditions cover the whole choice space and no explored history violates an independent BFS oracle (valid links only, "
             "shortest chain, unconnected refused; checked after every insertion). Shapes: all tree histories up to the bound; the "
             "inductive step `one + joining any two correctly-routed disjoint trees` (covers histories of any length); all link "
             "sequences on small general graphs and all n-cycles under every order/orientation (shortest-chain clause); "
             "registration of stations / orbit frames under fresh names never changes an existing route. The 4-node tree "
             "histories are additionally run under CrossHair (`Confirmed over all paths`, with refuted reachability twins).",
        note="Trusted: z3, CrossHair, the BFS oracle. Bounded: trees <= 4 (quick) / 5 (thorough) nodes by history, inductive step "
             "<= 5 / 6 nodes in total, general graphs 4 nodes x 3-4 links, cycles up to 5 / 6 nodes. Outside: exhaustive 8-node "
             "tree histories.",
        ref="DESIGN.md section 3 C20", technique="solver-driven path exploration of the real node.py over symbolic link histories (z3 feasibility + exhaustiveness query) and CrossHair `check` on the same harness"),
    "C13": dict(
        text="Reduced scope (DESIGN.md section 3 C13): the STRUCTURE of a message -- type OPM/OEM/OMM/TDM, KVN or XML, time scale and "
             "frame, 0..2 maneuvers of either kind (continuous ones referenced by start/middle/end) in inertial/QSW/TNW axes with or "
             "without comment, covariance absent / in the state's frame / QSW / TNW / another regular frame, 0..2 user-defined "
             "parameters, TDM sets of any subset of Range/Azimut/Elevation/Doppler on one or two one-/two-way paths, keplerian block or not, 1..2 ephemerides of 1..3 points with "
             "covariances on the first points, Lagrange or linear interpolation -- is a vector of symbolic integers concretised by "
             "the forking driver through solver feasibility queries; the real dumps()/loads() run on real objects for every "
             "explored configuration (concrete payload with distinct values per slot) and a final query per group proves that "
             "the explored path conditions cover the whole configuration space and that none violates the oracle: epochs to 1 us "
             "in the same scale, frame, name/id, coordinates to 1 mm and 1 mm/s, covariance values and frame, maneuvers (epoch, "
             "duration, delta-v, frame, comment), interpolation settings, user-defined fields; KVN and XML decode to the same "
             "object; what was read can be written again identically.",
        note="Trusted: z3 for the enumeration/exhaustiveness; the payload is concrete, so this check is exhaustive over message "
             "structures within the bounds, not over numeric values. Outside: arbitrary numeric payloads, XSD validity, "
             "non-Earth centres other than the OPM context on MarsBarycenter (JPL kernels of the test data). Date handling of the writers across scale labels is proved under C04.",
        ref="DESIGN.md section 3 C13", technique="solver-enumerated message structures (symbolic choice vector, z3 feasibility + exhaustiveness query) driving the real dumps/loads on real objects"),
    "C14": dict(
        text="The real Cov.frame setter, Cov.copy and the covariance clause of StateVector.frame's setter run on typed stand-ins: "
             "frames are symbolic integers, Orientation.convert_to / to_local return typed rotations, the covariance value and the "
             "private state copy carry the frame they are expressed in. The solver explores every sequence of target frames "
             "(10 built-in frames + QSW/TNW, attach frame any of the 7 non-rotating ones) up to the bound and every branch of the "
             "setter, and proves that every matrix product is well typed, that M C M^T uses one M, that the result is expressed in "
             "the requested frame and that QSW/TNW triads are built from the attach-frame state -- which, rotations forming a "
             "groupoid, is exactly 'R C R^T with R depending only on the target'; the same after Cov.copy(frame=...) taken at any point "
             "of such a history, followed by one more change of the copy (triads typed by the kinematic class, non-rotating vs "
             "Earth-fixed, of the coordinates they are built from). The real StateVector.cov / Cov.orb setters re-attach a covariance "
             "built with any other state (equal or different symbolic date) to a private copy of the receiving state. Counterexample sequences are replayed on real "
             "StateVector/Cov objects after every step.",
        note="Trusted: z3; the groupoid law of frame rotations (C02). Bounded: sequences of <= 3 (quick) / 4 (thorough) targets. "
             "Outside: eigenvalue preservation as a separate numeric statement.",
        ref="DESIGN.md section 3 C14", technique="bounded symbolic execution of the real setter over typed frame indices; z3 decides every path's type obligations; replay on real objects"),
    "C16": dict(
        text="Every formula of ClohessyWiltshire._propagate/propagate and of the CWHelper maneuvers is executed symbolically "
             "(exact reals, cos/sin as a point on the unit circle) and the solver proves, for all n>0, all times, all initial "
             "states and thrusts: Hill's ODE with constant thrust, identity at t=0, composition/inverse, TNW = fixed permutation "
             "of QSW, one impulsive/continuous maneuver applied exactly once / only inside its window, and that each helper "
             "maneuver ends exactly where announced and at rest; propagating the orbit returned by propagate(t1) further to "
             "t2 >= t1 equals propagate(t2) through an impulsive or a continuous maneuver (maneuvers dated before an orbit's "
             "epoch belong to its past; an impulse takes effect just after its date). Going back across a maneuver is a recorded open finding. Bounded: <=1 "
             "maneuver via the generic path (helper sequences of up to 3), real arithmetic instead of binary64.",
        note="Trusted: z3; numpy object-dtype kernels; the textbook CW closed form and Hill's equations written in the harness; "
             "Date/timedelta replaced by exact real-second stubs. Outside: second-order agreement with Keplerian difference.",
        ref="DESIGN.md section 3 C16", technique=TECH),
}

NOT_APPLICABLE = {
    "C07": "SGP4 vs reference theory: numeric agreement of two ~400-operation floating-point programs with libm calls and a Kepler "
           "iteration; no algebraic oracle and far beyond bit-precise FP solving (DESIGN.md section 6). The date hand-over is covered under C04.",
    "C15": "value semantics/atomicity live in numpy's C heap (ndarray.base, views, pickle); neither CrossHair nor the symbolic executor "
           "can make that heap symbolic; exploring copy/assign sequences concretely would be a different technique (DESIGN.md section 6).",
    "C18": "truth is a binary JPL kernel and 60-term floating-point series; agreement to 0.02 deg is a numerical fact about data, "
           "not an identity a solver can decide; SPK chaining runs inside the compiled jplephem reader (DESIGN.md section 6).",
}
PENDING = "claimed in DESIGN.md but its check is not built yet in the committed state; listed here until it is"


def main():
    props = [json.loads(l)["id"] for l in open(os.path.join(ROOT, "properties.jsonl"))]
    checks = []
    for pid in props:
        if pid not in CHECKS:
            continue
        c = CHECKS[pid]
        checks.append({
            "property_id": pid,
            "quick_cmd": f"./vf {pid} quick",
            "thorough_cmd": f"./vf {pid} thorough",
            "evidence_file": f"/verif/evidence/{pid}.json",
            "replay_cmd_template": "./vf --replay {path}",
            "engine": "symx",
            "level_claimed": {"category": "model_checking", "text": c["text"], "design_ref": c["ref"]},
            "level_note": c["note"],
            "technique": c["technique"],
        })
    na = []
    for pid in props:
        if pid in CHECKS:
            continue
        na.append({"property_id": pid, "reason": NOT_APPLICABLE.get(pid, PENDING)})
    m = {
        "version": 1,
        "setup_cmd": "./setup.sh",
        "hooks": {"guard": "BEYOND_VERIF", "enable": "none needed: checks patch module globals of the imported repository modules at run time; no source hooks",
                  "baseline_off_cmd": "cd /repo && /venv/bin/python -m pytest -ra -q -p no:cacheprovider --timeout=900 --continue-on-collection-errors",
                  "source_commits": [], "add_only": True},
        "engines": [{"name": "symx", "path": "/verif/symx", "serves_properties": sorted(CHECKS),
                     "kind_free_text": "path-exploring symbolic executor for the repository's own Python functions (exact reals with symbolic angles, "
                                       "integers, IEEE doubles), obligations as SMT-LIB2 decided by z3/cvc5 in worker processes"}],
        "checks": checks,
        "notes": "Technique family: solver-based checking of the real code. See DESIGN.md. Exit 3 = harness error (never on the pinned tree).",
        "not_applicable": na,
    }
    json.dump(m, open(os.path.join(ROOT, "MANIFEST.json"), "w"), indent=1)
    try:
        import jsonschema
        jsonschema.validate(m, json.load(open("/root/.vp/MANIFEST.schema.json")))
        for c in checks:
            p = c["evidence_file"]
            if os.path.exists(p):
                jsonschema.validate(json.load(open(p)), json.load(open("/root/.vp/EVIDENCE.schema.json")))
        print("MANIFEST.json valid;", len(checks), "checks,", len(na), "not applicable")
    except ImportError:
        print("jsonschema missing: not validated")


if __name__ == "__main__":
    main()
