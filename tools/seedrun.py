#!/usr/bin/env python3
"""tools/seedrun.py [tag ...] -- replay the stored seeded changes against the *current* /repo and /verif: each patch is applied
in a scratch worktree (/tmp/seedrun_wt, removed at the end; /repo itself is not touched), the check(s) recorded in its meta.json
are run at the quick tier with VF_REPO pointing at the worktree, and the outcome is written back as meta["final_tree"]."""
import glob, json, os, subprocess, sys
WT = os.environ.get("SEEDRUN_WT", "/tmp/seedrun_wt")          # several instances can run side by side on disjoint tag lists
run = lambda cmd, **kw: subprocess.run(cmd, shell=True, capture_output=True, text=True, **kw)
run(f"git -C /repo worktree remove --force {WT}")
assert run(f"git -C /repo worktree add --detach {WT} HEAD").returncode == 0
tags = sys.argv[1:] or sorted(os.path.basename(os.path.dirname(p)) for p in glob.glob("/verif/seeded/*/meta.json"))
head = run("git -C /repo rev-parse --short HEAD").stdout.strip()
try:
    for tag in tags:
        d = f"/verif/seeded/{tag}"
        meta = json.load(open(f"{d}/meta.json"))
        checks = [c["check"] for c in meta.get("all_checks", []) if c.get("detected")] or [meta["property"]]
        run("git checkout -- . && git clean -fdq", cwd=WT)
        ap = run(f"git apply {d}/patch.diff", cwd=WT)
        if ap.returncode != 0:
            meta["final_tree"] = {"repo": head, "applies": False, "error": ap.stderr[-300:]}
            json.dump(meta, open(f"{d}/meta.json", "w"), indent=1)
            print(tag, "DOES NOT APPLY")
            continue
        out = {}
        for cid in checks:
            env = dict(os.environ, VF_REPO=WT, VF_EVIDENCE_DIR=WT + "_ev")
            r = subprocess.run(["./vf", cid, "quick"], cwd="/verif", env=env, capture_output=True, text=True)
            nv = sum(1 for l in r.stdout.splitlines() if l.startswith("VIOLATION"))
            out[cid] = {"exit_code": r.returncode, "violation_lines": nv, "detected": r.returncode == 1 and nv > 0}
        meta["final_tree"] = {"repo": head, "applies": True, "checks": out, "detected": any(x["detected"] for x in out.values())}
        json.dump(meta, open(f"{d}/meta.json", "w"), indent=1)
        print(tag, meta["final_tree"]["detected"], {k: (x["exit_code"], x["violation_lines"]) for k, x in out.items()}, flush=True)
finally:
    run(f"git -C /repo worktree remove --force {WT}")
    run(f"rm -rf {WT}_ev")
