#!/bin/sh
# Build /verif/.venv: an overlay of the repository's own interpreter (/venv) plus
# z3-solver, cvc5, crosshair-tool and jsonschema from the offline wheelhouse. Idempotent.
set -e
cd "$(dirname "$0")"
V=.venv
if [ ! -x $V/bin/python ] || ! $V/bin/python -c "import z3, cvc5, crosshair, numpy, jsonschema" 2>/dev/null; then
    rm -rf $V
    /venv/bin/python -m venv $V
    SP=$($V/bin/python -c "import sysconfig; print(sysconfig.get_paths()['purelib'])")
    echo "import site; site.addsitedir('/venv/lib/python3.12/site-packages')" > "$SP/overlay.pth"
    PIP_NO_INDEX=1 $V/bin/pip install -q --no-index --find-links /opt/veriftools/wheels \
        z3-solver cvc5 crosshair-tool jsonschema >/dev/null
fi
$V/bin/python -c "import z3, cvc5, crosshair, numpy, jsonschema; print('verif venv ok: z3', z3.get_version_string())"
