import numpy as np, z3, sys, time
from symq import *
import warnings; warnings.filterwarnings("ignore")
import beyond.utils.interp as I
for k in (2, 3, 4, 5, 6):
    CTX.reset()
    n = k + 2
    xs = np.array([var(f"x{i}") for i in range(n)], dtype=object)
    x = var("x")
    itp = I.Interp.__new__(I.Interp)
    itp.order = k; itp.xs = xs; itp.method = "lagrange"
    pre = [xs[i].n < xs[i+1].n for i in range(n-1)]
    for prev in (0, n // 2, n - 2):
        itp._prev_idx = lambda _x, p=prev: p
        for d in range(k):
            itp.ys = np.array([xi ** d if d != 2 else xi * xi for xi in xs], dtype=object) if d else np.array([R(z3.RealVal(1)) for _ in xs], dtype=object)
            t0 = time.time()
            try:
                y = itp._lagrange(x)
            except Exception as e:
                print("k", k, "prev", prev, "ERR", type(e), e); break
            ref = x ** d if d else R(z3.RealVal(1))
            r, _ = prove2([neq(y, ref)], pre, name=f"order {k} prev {prev} degree {d}", timeout=120000)
