import numpy as np, z3, sys
from symq import *
from npx import patch, npx
import beyond.orbits.forms as F
patch(F)
Form = F.Form
class Body: pass
body = Body()
m = var("m")             # mu = m^2 (m>0) : makes sqrt(mu*p) etc. rational where possible
body.µ = m*m; body.mu = body.µ
a, e = var("a"), var("e")
b = var("b")             # b = sqrt(1-e^2) ; e, b on unit circle: e = s_E, b = c_E?  keep: b^2 = 1 - e^2
w = var("w")             # w = sqrt(a)
# parametrise: a = w^2, 1-e^2 = b^2  => p = w^2 b^2, sqrt(mu p) = m w b
i, Om, om, nu = [R.angle(n) for n in "i Om om nu".split()]
ci, si = CTX.atom("i"); cnu, snu = CTX.atom("nu")
CTX.pre = [m.n > 0, w.n > 0, b.n > 0, e.n > 0, e.n < 1, b.n*b.n == 1 - e.n*e.n, si > 0]
CTX.hints = [m*w*b]
k0 = np.array([w*w, e, i, Om, om, nu], dtype=object)
cart = Form._keplerian_to_cartesian(k0, body)
print("k2c done", len(CTX.cons), flush=True)
rk = w*w*b*b/(1+e*R(cnu))
CTX.hints = [m*w*b, rk, m*w*b*R(si), e, w*b/m, e*rk, rk*R(si), R(si)]
k1 = Form._cartesian_to_keplerian(cart, body)
print("c2k done", len(CTX.cons), flush=True)

pre = CTX.pre
prove2([neq(k1[0], k0[0])], pre, name="a", timeout=120000)
prove2([neq(k1[1], k0[1])], pre, name="e", timeout=120000)
for k,n in ((2,"i"),(3,"Om"),(4,"om"),(5,"nu")):
    prove2([neq(k1[k].cos(), k0[k].cos())], pre, name=f"cos {n}", timeout=120000)
    prove2([neq(k1[k].sin(), k0[k].sin())], pre, name=f"sin {n}", timeout=120000)
