import numpy as np, z3, sys
from symq import *
from npx import patch, npx
import beyond.orbits.forms as F
patch(F)
Form = F.Form
class Body: pass
body = Body(); body.µ = var("mu"); body.mu = body.µ
mu = body.mu
X = np.array([var(n) for n in "x y z vx vy vz".split()], dtype=object)
k = Form._cartesian_to_keplerian(X, body)
a, e, i, Om, om, nu = k
r, v = X[:3], X[3:]
def dot(u, w): return u[0]*w[0]+u[1]*w[1]+u[2]*w[2]
def cross(u, w): return [u[1]*w[2]-u[2]*w[1], u[2]*w[0]-u[0]*w[2], u[0]*w[1]-u[1]*w[0]]
h = cross(r, v)
rn = dot(r, r).sqrt(); vn2 = dot(v, v)
extra = [rn.n > 0, mu.n > 0]
evec = [ (vn2 - mu/rn)*r[j]/mu - dot(r, v)*v[j]/mu for j in range(3)]
e2 = dot(evec, evec)
pre = extra + [ (2*mu - rn*vn2).n > 0, (h[0]*h[0] + h[1]*h[1]).n > 0 ]
prove2([z3.BoolVal(True)], pre, name="vacuity (expect sat)")
prove2([neq(1/a, 2/rn - vn2/mu)], pre, name="a def")
prove2([neq(e*e, e2)], pre, name="e def (squared)")
hn = dot(h,h).sqrt(); pre2 = pre + [hn.n > 0]
prove2([neq(i.cos(), h[2]/hn)], pre2, name="cos i def")
# node vector n = k x h = (-hy, hx, 0); cos Om = nx/|n|, sin Om = ny/|n|
nn = (h[0]*h[0]+h[1]*h[1]).sqrt(); pre3 = pre2 + [nn.n > 0]
prove2([neq(Om.cos(), -h[1]/nn)], pre3, name="cos Om def")
prove2([neq(Om.sin(), h[0]/nn)], pre3, name="sin Om def")
# true anomaly: cos nu = e.r/(|e||r|), sign(sin nu)=sign(r.v)
en = e; pre4 = pre3 + [en.n > 0]
prove2([neq(nu.cos(), dot(evec, r)/(en*rn))], pre4, name="cos nu def", timeout=120000)
# arg of latitude u = om + nu: cos u = n.r/(|n||r|)
u = om + nu
nvec = [-h[1], h[0], 0]
prove2([neq(u.cos(), (nvec[0]*r[0] + nvec[1]*r[1])/(nn*rn))], pre4, name="cos u def", timeout=120000)
prove2([neq(om.cos(), (nvec[0]*evec[0] + nvec[1]*evec[1])/(nn*en))], pre4, name="cos om def", timeout=120000)
