import z3, time, sys, subprocess
F = z3.Float64(); RNE = z3.RNE()
def fv(x): return z3.FPVal(x, F)
s, off = z3.FP("s", F), z3.FP("off", F)
D = fv(86400.0); Z = fv(0.0)
def pymod(x):
    return z3.If(z3.fpLT(x, Z), z3.fpAdd(RNE, x, D), z3.If(z3.fpGEQ(x, D), z3.fpSub(RNE, x, D), x))
def pyfloordiv(x):
    return z3.If(z3.fpLT(x, Z), -1, z3.If(z3.fpGEQ(x, D), 1, 0))
pre = [z3.fpGEQ(s, Z), z3.fpLT(s, D), z3.fpGEQ(off, fv(-100.0)), z3.fpLEQ(off, fv(100.0))]
x = z3.fpAdd(RNE, s, off)
dd = pyfloordiv(x); _s = pymod(x)
s2 = pymod(z3.fpSub(RNE, _s, off))
back = pyfloordiv(z3.fpAdd(RNE, s2, off))
tol = fv(3e-11)
goals = {"day": dd - back != 0,
         "sec": z3.Or(z3.fpGT(z3.fpSub(RNE, s2, s), tol), z3.fpLT(z3.fpSub(RNE, s2, s), z3.fpNeg(tol))),
         "srange": z3.Not(z3.And(z3.fpGEQ(_s, Z), z3.fpLT(_s, D)))}
for nm, g in goals.items():
    so = z3.Solver(); so.add(pre); so.add(g)
    open(f"fp_{nm}.smt2", "w").write("(set-logic QF_FPLRA)\n" + so.sexpr() + "(check-sat)\n(get-model)\n")
    so.set("timeout", 120000)
    t0 = time.time(); r = so.check(); print("z3", nm, r, f"{time.time()-t0:.1f}s", flush=True)
    if str(r) == "sat": print("   ", so.model())
    t0 = time.time()
    try:
        out = subprocess.run(["cvc5", "--produce-models", f"fp_{nm}.smt2"], capture_output=True, text=True, timeout=120).stdout
    except subprocess.TimeoutExpired: out = "timeout"
    print("cvc5", nm, out[:300].replace("\n", " "), f"{time.time()-t0:.1f}s", flush=True)
