import warnings; warnings.filterwarnings("ignore")
import numpy as np
from beyond.orbits.cov import Cov
import beyond.orbits.cov as C

class Tagged:
    """typed stand-in for a 6x6 matrix: formal word of frame hops"""
    def __init__(s, src, dst): s.src, s.dst = src, dst
    def __matmul__(s, o):
        if isinstance(o, Tagged):   # s @ o : apply o first
            assert o.dst == s.src, f"ill-typed product {o.src}->{o.dst} then {s.src}->{s.dst}"
            return Tagged(o.src, s.dst)
        if isinstance(o, TCov):
            assert o.axes == s.src, f"cov in {o.axes} rotated by {s.src}->{s.dst}"
            return TCov(s.dst, half=True)
        return NotImplemented
    @property
    def T(s): return Tagged(s.dst, s.src)
class TCov:
    def __init__(s, axes, half=False): s.axes, s.half = axes, half
    def __matmul__(s, o):
        assert s.half and isinstance(o, Tagged) and o.src == s.axes  # (M C) @ M.T : M.T is dst->src
        return TCov(s.axes)
class Base:
    def __init__(s, axes): s.val = TCov(axes)
    def setfield(s, v, dtype=None): s.val = v
class SymCov(Cov):
    base = property(lambda self: self._data["symbase"].val if False else self._data["symbase"])
b = Base("EME2000")
print(SymCov.base)
# can we construct without the real constructor?
c = np.ndarray.__new__(SymCov, (6, 6), dtype=float)
c._data = {"symbase": b, "frame": "EME2000"}
print(type(c.base), c.base is b)
