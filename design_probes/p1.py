import numpy as np, z3
from symr import *
from beyond.frames.local import to_qsw, to_tnw

orb = np.array([var(n) for n in "x y z vx vy vz".split()], dtype=object)
for f, nm in ((to_qsw,"qsw"),(to_tnw,"tnw")):
    CTX.cons.clear()
    m = f(orb)
    print(type(m), m.dtype, m.shape, len(CTX.cons))
    I = m @ m.T
    goals = []
    for i in range(3):
        for j in range(3):
            goals.append(I[i,j].t != (1 if i==j else 0))
    pre = []  # non-degenerate implied by division constraints d != 0
    prove(goals, name=f"{nm} orthonormal (all 9 at once)")
    for i in range(3):
        for j in range(i,3):
            prove([I[i,j].t != (1 if i==j else 0)], name=f"{nm} I[{i},{j}]")
    det = (m[0,0]*(m[1,1]*m[2,2]-m[1,2]*m[2,1]) - m[0,1]*(m[1,0]*m[2,2]-m[1,2]*m[2,0]) + m[0,2]*(m[1,0]*m[2,1]-m[1,1]*m[2,0]))
    prove([det.t != 1], name=f"{nm} det")
