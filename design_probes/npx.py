import numpy as _np
from symq import R, PI
class _Lin:
    norm = staticmethod(_np.linalg.norm)
class NP:
    pi = PI
    linalg = _np.linalg
    def __getattr__(self, k):
        return getattr(_np, k)
    @staticmethod
    def array(x, dtype=None):
        return _np.array(x, dtype=object)
    @staticmethod
    def zeros(shape):
        a = _np.empty(shape, dtype=object); a[...] = 0; return a
    @staticmethod
    def identity(n):
        a = _np.empty((n,n), dtype=object); a[...] = 0
        for i in range(n): a[i,i] = 1
        return a
npx = NP()
def patch(mod):
    for k in "cos sin tan arccos arcsin arctan2 sqrt".split():
        if hasattr(mod, k):
            setattr(mod, k, (lambda kk: (lambda *a: getattr(a[0], kk)(*a[1:])))(k))
    if hasattr(mod, "np"): mod.np = npx
