import z3, time, sys, subprocess
F = z3.Float64(); RNE = z3.RNE()
def fv(x): return z3.FPVal(x, F)
s = z3.FP("s", F)
D = fv(86400.0); Z = fv(0.0)
def pymod(x):
    return z3.If(z3.fpLT(x, Z), z3.fpAdd(RNE, x, D), z3.If(z3.fpGEQ(x, D), z3.fpSub(RNE, x, D), x))
def pyfloordiv(x):
    return z3.If(z3.fpLT(x, Z), -1, z3.If(z3.fpGEQ(x, D), 1, 0))
def build(offv, lo, hi):
    off = fv(offv)
    pre = [z3.fpGEQ(s, fv(lo)), z3.fpLT(s, fv(hi))]
    x = z3.fpAdd(RNE, s, off)
    dd = pyfloordiv(x); _s = pymod(x)
    s2 = pymod(z3.fpSub(RNE, _s, off))
    back = pyfloordiv(z3.fpAdd(RNE, s2, off))
    tol = fv(3e-11)
    return pre, {"day": dd - back != 0,
         "sec": z3.Or(z3.fpGT(z3.fpSub(RNE, s2, s), tol), z3.fpLT(z3.fpSub(RNE, s2, s), z3.fpNeg(tol)))}
jobs = []
for offv in (-32.184, 19.0, 36.0):
    for lo, hi in ((0.0, 64.0), (64.0, 86336.0), (86336.0, 86400.0)):
        pre, goals = build(offv, lo, hi)
        for nm, g in goals.items():
            so = z3.Solver(); so.add(pre); so.add(g)
            fn = f"fp3_{nm}_{offv}_{lo}.smt2"
            open(fn, "w").write("(set-logic QF_FPLRA)\n" + so.sexpr() + "(check-sat)\n")
            jobs.append((fn, subprocess.Popen(["timeout", "300", "cvc5", fn], stdout=subprocess.PIPE, text=True), time.time()))
for fn, p, t0 in jobs:
    out = p.communicate()[0].strip()
    print(fn, out or "timeout", f"{time.time()-t0:.0f}s", flush=True)
