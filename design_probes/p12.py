import numpy as np, z3, sys, time
import warnings; warnings.filterwarnings("ignore")
from symq import *
from fork import *
from npx import npx
import beyond.frames.stations as S
S.np = npx
TWO_PI = 2 * PI
# real-domain % : x % m  -> r, with x = m*k + r, k Int, 0<= r < m   (m = 2*PI symbol > 0)
def _mod(s, o):
    k = z3.Int(f"k!{CTX.n}"); CTX.n += 1
    r = CTX.fresh("mod")
    CTX.cons += [s.n == s.d * (o.n * z3.ToReal(k) + r), r >= 0, r < o.n]
    return R(r)
R.__mod__ = _mod
N = int(sys.argv[1]) if len(sys.argv) > 1 else 3
def run():
    az = [var(f"a{i}") for i in range(N - 1)] + [TWO_PI]
    el = [var(f"e{i}") for i in range(N)]
    st = S.TopocentricFrame.__new__(S.TopocentricFrame)
    st.mask = np.array([az, el], dtype=object); st.name = "X"
    x = var("azim")
    return az, el, x, st.get_mask(x)
pi = PI.n
az0 = [z3.Real(f"a{i}") for i in range(N - 1)] + [2 * pi]
pre = [pi > 3, pi < 4, az0[0] >= 0] + [az0[i] < az0[i + 1] for i in range(N - 1)]
t0 = time.time(); npaths = 0; nq = 0
for pc, (az, el, x, y) in explore(run, pre):
    npaths += 1
    # oracle: piecewise linear with wrap: reduced azimuth r in [0,2pi): find segment
    r = [c for c in CTX.cons]  # mod constraint included
    # reference value under each segment hypothesis
    red = None
    for c in CTX.cons:
        pass
    # the reduced azimuth is the 'mod' aux var: last fresh var named mod!
    modv = [v for v in (z3.Real(f"mod!{i}") for i in range(1, CTX.n + 2)) ]
    rv = None
    for i in range(1, CTX.n + 2):
        if any(f"mod!{i}" in str(c) for c in CTX.cons): rv = z3.Real(f"mod!{i}")
    goals = []
    xs = [z3.RealVal(0)] + [a.n for a in az]; ys = [el[-1].n] + [e.n for e in el]
    for j in range(N):
        x0, x1, y0, y1 = xs[j], xs[j + 1], ys[j], ys[j + 1]
        seg = z3.And(rv >= x0, rv < x1, x1 > x0)
        yr = y0 * (x1 - x0) + (y1 - y0) * (rv - x0)     # = y_ref * (x1-x0)
        goals.append(z3.And(seg, y.n * (x1 - x0) != yr * y.d))
    so = z3.Solver(); so.set("timeout", 60000)
    for c in pre + pc + CTX.cons: so.add(c)
    for c in CTX.nz: so.add(c != 0)
    so.add(z3.Or(goals)); res = so.check(); nq += 1
    print("path", npaths, len(pc), "decisions ->", res, flush=True)
    if str(res) == "sat": print(so.model())
print("N", N, "paths", npaths, "time", round(time.time() - t0, 1))
