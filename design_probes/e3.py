import itertools, sys
sys.path.insert(0, "/repo")
from beyond.utils.node import Node
def bfs(adj, n, s):
    dist = {s: 0}; q = [s]
    while q:
        u = q.pop(0)
        for v in range(n):
            if adj[u][v] and v not in dist:
                dist[v] = dist[u] + 1; q.append(v)
    return dist
def run(n, edges):
    nodes = [Node(str(i)) for i in range(n)]
    adj = [[False]*n for _ in range(n)]
    for a, b in edges:
        nodes[a] + nodes[b]; adj[a][b] = adj[b][a] = True
    bad = []
    for s in range(n):
        d = bfs(adj, n, s)
        for t in range(n):
            if t == s: continue
            if t not in d:
                if str(t) in nodes[s].routes: bad.append((s,t,"phantom"))
                continue
            try:
                # guard against infinite loops
                obj = nodes[s]; steps = 0
                while obj.name != str(t):
                    obj = obj.routes[str(t)].direction; steps += 1
                    if steps > 2*n: raise RuntimeError("loop")
            except KeyError: bad.append((s,t,"missing")); continue
            except RuntimeError: bad.append((s,t,"loop")); continue
            if steps != d[t]: bad.append((s,t,f"len {steps} vs {d[t]}"))
    return bad
for n in (3,4,5):
    pairs = list(itertools.combinations(range(n), 2))
    cnt = 0; nbad = 0; first = None
    for m in range(1, len(pairs)+1):
        for es in itertools.combinations(pairs, m):
            for order in itertools.permutations(es):
                if n == 5 and m > 5: continue
                for fl in itertools.product([0,1], repeat=m):
                    edges = [(b,a) if f else (a,b) for (a,b),f in zip(order, fl)]
                    cnt += 1
                    bad = run(n, edges)
                    if bad:
                        nbad += 1
                        if first is None: first = (edges, bad)
    print(n, "cases", cnt, "bad", nbad, first)
