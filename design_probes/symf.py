"""Probe v3: factor-multiset rational functions. value = coef * prod(f^e), e in Z (negative = denominator)."""
import z3, time
from fractions import Fraction as Fr
import numpy as np

class Ctx:
    def __init__(self): self.reset()
    def reset(self):
        self.cons = []; self.n = 0; self.atoms = {}; self.nz = {}; self.roots = {}; self.hints = []; self.pre = []; self.signs = {}
    def fresh(self, p="t"):
        self.n += 1; return z3.Real(f"{p}!{self.n}")
    def atom(self, name):
        if name not in self.atoms:
            c, s = z3.Real(f"c_{name}"), z3.Real(f"s_{name}")
            self.atoms[name] = (R.of(c), R.of(s))
            self.cons.append(c * c + s * s == 1)
        return self.atoms[name]
CTX = Ctx()

def key(t): return t.get_id()

class R:
    """coef (Fraction) * product of atomic z3 terms with integer exponents"""
    __slots__ = ("coef", "f", "lin", "rad")
    def __init__(self, coef, f, lin=None):
        self.coef, self.f, self.lin, self.rad = coef, f, lin, None
    @staticmethod
    def of(t):
        if z3.is_rational_value(t): return R(t.as_fraction(), {})
        return R(Fr(1), {key(t): (t, 1)})
    @staticmethod
    def const(x):
        if isinstance(x, np.generic): x = x.item()
        if isinstance(x, bool): raise TypeError
        if isinstance(x, (int, Fr)): return R(Fr(x), {})
        if isinstance(x, float): return R(Fr(x), {})
        raise TypeError(type(x))
    @staticmethod
    def lift(x): return x if isinstance(x, R) else R.const(x)
    @staticmethod
    def angle(name):
        CTX.atom(name)
        r = R.of(z3.Real(f"val_{name}")); r.lin = ({name: Fr(1)}, Fr(0)); return r
    # ---- term views
    def num_den(s):
        n = z3.RealVal(s.coef.numerator); d = z3.RealVal(s.coef.denominator)
        one = True
        for t, e in s.f.values():
            for _ in range(abs(e)):
                if e > 0: n = n * t
                else: d = d * t
        return z3.simplify(n), z3.simplify(d)
    @property
    def n(s): return s.num_den()[0]
    @property
    def d(s): return s.num_den()[1]
    def den_factors(s): return [t for t, e in s.f.values() if e < 0]
    # ---- arithmetic
    def __mul__(s, o):
        if isinstance(o, np.ndarray): return NotImplemented
        o = R.lift(o)
        if s.rad is not None and o.rad is not None and s.f.keys() == o.f.keys() and s.coef == o.coef == 1:
            return s.rad
        f = dict(s.f)
        for k, (t, e) in o.f.items():
            if k in f:
                ne = f[k][1] + e
                if ne == 0: del f[k]
                else: f[k] = (t, ne)
            else: f[k] = (t, e)
        lin = None
        if s.lin is not None and not o.f: lin = s._scale(o.coef)
        elif o.lin is not None and not s.f: lin = o._scale(s.coef)
        return R(s.coef * o.coef, f, lin)
    __rmul__ = __mul__
    def inv(s):
        for t, e in s.f.values():
            if e > 0: CTX.nz[key(t)] = t
        return R(1 / s.coef, {k: (t, -e) for k, (t, e) in s.f.items()})
    def __truediv__(s, o):
        if isinstance(o, np.ndarray): return NotImplemented
        o = R.lift(o); return s * o.inv()
    def __rtruediv__(s, o):
        if isinstance(o, np.ndarray): return NotImplemented
        return R.lift(o) * s.inv()
    def __neg__(s): return R(-s.coef, dict(s.f), s._scale(Fr(-1)))
    def _scale(s, k):
        if s.lin is None: return None
        return ({a: v * k for a, v in s.lin[0].items()}, s.lin[1] * k)
    def _comb(s, o, sign):
        if s.lin is None or o.lin is None: return None
        d = dict(s.lin[0])
        for k, v in o.lin[0].items():
            d[k] = d.get(k, 0) + sign * v
            if d[k] == 0: del d[k]
        return (d, s.lin[1] + sign * o.lin[1])
    def __add__(s, o, sign=1):
        if isinstance(o, np.ndarray): return NotImplemented
        o = R.lift(o)
        lin = s._comb(o, sign)
        if s.coef == 0:
            r = R(o.coef * sign, dict(o.f)); return r
        if o.coef == 0: return R(s.coef, dict(s.f), s.lin)
        # common factors: min exponent per key (treat missing as 0) -> for denominators this is the lcm
        keys = set(s.f) | set(o.f)
        common = {}; ra = {}; rb = {}
        for k in keys:
            ta, ea = s.f.get(k, (None, 0)); tb, eb = o.f.get(k, (None, 0))
            t = ta if ta is not None else tb
            m = min(ea, eb)
            if m != 0: common[k] = (t, m)
            if ea - m: ra[k] = (t, ea - m)
            if eb - m: rb[k] = (t, eb - m)
        # ra, rb now have only non-negative exponents
        def prod(c, fs):
            t = z3.RealVal(c.numerator) / z3.RealVal(c.denominator) if c.denominator != 1 else z3.RealVal(c.numerator)
            first = (c == 1)
            out = None if first else t
            for tt, e in fs.values():
                for _ in range(e): out = tt if out is None else out * tt
            return z3.RealVal(1) if out is None else out
        if not ra and not rb:
            c = s.coef + sign * o.coef
            return R(c, common, lin) if c != 0 else R(Fr(0), {})
        ssum = prod(s.coef, ra) + prod(o.coef * sign, rb)
        ssum = z3.simplify(ssum)
        if z3.is_rational_value(ssum):
            c = ssum.as_fraction()
            return R(c, common, lin) if c != 0 else R(Fr(0), {})
        f = dict(common)
        k = key(ssum)
        if k in f:
            ne = f[k][1] + 1
            if ne: f[k] = (ssum, ne)
            else: del f[k]
        else: f[k] = (ssum, 1)
        return R(Fr(1), f, lin)
    def __radd__(s, o): return s.__add__(o)
    def __sub__(s, o):
        if isinstance(o, np.ndarray): return NotImplemented
        return s.__add__(o, -1)
    def __rsub__(s, o):
        if isinstance(o, np.ndarray): return NotImplemented
        return (-s).__add__(o)
    def __pow__(s, k):
        if isinstance(k, int):
            if k == 2 and s.rad is not None: return s.rad
            if k < 0: return (s ** (-k)).inv()
            return R(s.coef ** k, {kk: (t, e * k) for kk, (t, e) in s.f.items()})
        raise NotImplementedError(k)
    def __mod__(s, o):
        if isinstance(o, R) and o.lin == ({}, Fr(2)) and s.lin is not None:
            r = R.of(CTX.fresh("mod")); r.lin = s.lin; return r
        raise NotImplementedError
    # ---- roots
    def sqrt(s):
        # hints against the whole radicand first
        for cand in CTX.hints:
            g1 = neq(cand * cand, s); g2 = (cand.n * cand.d < 0)
            so = z3.Solver(); so.set("timeout", 30000)
            for c in sliced([g1, g2], CTX.pre) + list(CTX.pre): so.add(c)
            so.add(z3.Or(g1, g2))
            if str(so.check()) == "unsat":
                print("   sqrt hint used (whole):", str(cand.n)[:60].replace(chr(10), " "), flush=True); return cand
        # pull even powers out of the root: sqrt(c * prod f^e)
        out = {}; rest = {}
        sgn = 1
        for k, (t, e) in s.f.items():
            q, r = divmod(e, 2)
            sg = proved_sign(t) if q else 0
            if q and sg != 0:
                out[k] = (t, q)
                if sg < 0 and q % 2: sgn = -sgn
                if r: rest[k] = (t, 1)
            else:
                rest[k] = (t, e)
        inner = R(s.coef, rest)
        outer = R(Fr(sgn), out)
        if not rest and s.coef >= 0:
            import math
            c = s.coef
            rn, rd = math.isqrt(c.numerator), math.isqrt(c.denominator)
            if rn * rn == c.numerator and rd * rd == c.denominator:
                r = outer * R(Fr(rn, rd), {}); r._abs = True; return r
        n, d = inner.num_den()
        kk = z3.simplify(n * z3.Real("__k1") - d * z3.Real("__k2"), som=True).sexpr()
        if kk in CTX.roots: return outer * CTX.roots[kk]
        r = None
        for cand in CTX.hints:
            g1 = neq(cand * cand, inner); g2 = (cand.n * cand.d < 0)
            so = z3.Solver(); so.set("timeout", 30000)
            for c in sliced([g1, g2], CTX.pre) + list(CTX.pre): so.add(c)
            so.add(z3.Or(g1, g2))
            if str(so.check()) == "unsat":
                print("   sqrt hint used:", str(cand.n)[:60], flush=True); r = cand; break
        if r is None:
            q = CTX.fresh("sq")
            CTX.cons.append(q * q * d == n); CTX.cons.append(q >= 0)
            r = R.of(q); r.rad = inner
        CTX.roots[kk] = r
        return outer * r
    # ---- trig
    def _cs(s):
        if s.lin is None: raise NotImplementedError(f"cos/sin of non-angle")
        d, p = s.lin
        q = p * 2; assert q.denominator == 1, p
        c, sn = [(1, 0), (0, 1), (-1, 0), (0, -1)][int(q) % 4]
        c, sn = R.const(c), R.const(sn)
        for a, v in sorted(d.items()):
            assert v.denominator == 1, (a, v)
            ca, sa = CTX.atom(a); n = int(v)
            if n < 0: sa = -sa; n = -n
            for _ in range(n):
                c, sn = c * ca - sn * sa, sn * ca + c * sa
        return c, sn
    def cos(s): return s._cs()[0]
    def sin(s): return s._cs()[1]
    def tan(s):
        c, sn = s._cs(); return sn / c
    def _newatom(s, kind, c, sn):
        nm = f"{kind}{CTX.n}"; CTX.n += 1
        CTX.atoms[nm] = (c, sn)
        r = R.of(z3.Real(f"val_{nm}")); r.lin = ({nm: Fr(1)}, Fr(0)); return r
    def arccos(s): return s._newatom("acos", s, (1 - s * s).sqrt())
    def arcsin(s): return s._newatom("asin", (1 - s * s).sqrt(), s)
    def arctan2(y, x):
        x = R.lift(x)
        rho = (x * x + y * y).sqrt()
        return y._newatom("atan2_", x / rho, y / rho)
    def __repr__(s): return f"R({s.coef} * {[(str(t)[:30], e) for t, e in s.f.values()]})"

PI = R.of(z3.Real("PI")); PI.lin = ({}, Fr(1))
def var(name): return R.of(z3.Real(name))
_SIGN = {}
def proved_sign(t):
    """+1 / -1 if the solver proves the sign of t under CTX.pre and the defining constraints, else 0"""
    k = key(t)
    if k in _SIGN: return _SIGN[k]
    res = 0
    for sg, bad in ((1, t <= 0), (-1, t >= 0)):
        so = z3.Solver(); so.set("timeout", 10000)
        for c in sliced([bad], CTX.pre) + list(CTX.pre): so.add(c)
        so.add(bad)
        if str(so.check()) == "unsat": res = sg; break
    _SIGN[k] = res
    return res
def neq(a, b):
    d = R.lift(a) - R.lift(b)
    if d.coef == 0: return z3.BoolVal(False)
    # a - b != 0  <=> numerator != 0 (denominators nonzero by side conditions)
    n = z3.RealVal(d.coef.numerator)
    for t, e in d.f.values():
        if e > 0:
            for _ in range(e): n = n * t
    return n != 0

def _vars(t, acc=None):
    acc = set() if acc is None else acc
    stack = [t]; seen = set()
    while stack:
        u = stack.pop()
        if u.get_id() in seen: continue
        seen.add(u.get_id())
        if z3.is_const(u) and u.decl().kind() == z3.Z3_OP_UNINTERPRETED: acc.add(str(u))
        stack.extend(u.children())
    return acc
import re
def _aux(v): return "!" in v
def _num(v):
    m = re.search(r"(\d+)$", v); return int(m.group(1)) if m else -1
def sliced(goals, extra):
    need = set()
    for g in list(goals) + list(extra): _vars(g, need)
    cons = []
    for c in CTX.cons:
        vs = _vars(c); aux = [v for v in vs if _aux(v)]
        df = {max(aux, key=_num)} if aux else set()
        cons.append((c, vs, df))
    used = [False] * len(cons); changed = True
    while changed:
        changed = False
        for k, (c, vs, df) in enumerate(cons):
            if used[k]: continue
            if (df & need) or (not df and vs <= need):
                used[k] = True; need |= vs; changed = True
    out = [c for k, (c, vs, df) in enumerate(cons) if used[k]]
    out += [t != 0 for t in CTX.nz.values() if _vars(t) <= need]
    return out
def prove2(goals, extra=(), timeout=60000, name=""):
    s = z3.Solver(); s.set("timeout", timeout)
    extra = list(extra) + [t > 0 for t in CTX.signs.values()]
    cs = sliced(goals, extra)
    for c in cs: s.add(c)
    for c in extra: s.add(c)
    s.add(z3.Or(list(goals)))
    t0 = time.time(); r = s.check()
    print(f"{name}: {r} in {time.time()-t0:.2f}s  ({len(cs)} sliced cons)", flush=True)
    return r, s
