import warnings; warnings.filterwarnings("ignore")
import numpy as np
from beyond.config import config
config.set("eop", "missing_policy", "pass"); config.set("eop","folder","/repo/tests/data/pole")
from beyond.dates import Date, timedelta
from beyond.io.tle import Tle
from beyond.propagators.kepler import Kepler
from beyond.propagators.keplernum import KeplerNum
from beyond.env.solarsystem import get_body
tle = Tle("""ISS (ZARYA)
1 25544U 98067A   16124.55610684  .00001524  00000-0  30197-4 0  9995
2 25544  51.6421 236.2139 0003381  47.8509  47.6767 15.54198229111731""")
orb = tle.orbit()
d_utc = Date(2016, 5, 5, 12, 0, 0)
d_tai = d_utc.change_scale("TAI")
print("same instant:", d_utc == d_tai, d_utc, d_tai, d_utc.eop.tai_utc)
a = orb.propagate(d_utc); b = orb.propagate(d_tai)
print("C04 sgp4 diff [m]:", np.linalg.norm(np.array(a[:3]) - np.array(b[:3])))
orb2 = orb.copy(); orb2.date = orb.date.change_scale("TAI")
t2 = Tle.from_orbit(orb2)
print("C04 tle epoch diff [s]:", (t2.epoch - tle.epoch).total_seconds())
from beyond.propagators.sgp4beta import Sgp4Beta
pb = Sgp4Beta(); pb.orbit = tle.orbit()
a = pb.propagate(d_utc); b = pb.propagate(d_tai)
print("C04 sgp4beta diff [m]:", np.linalg.norm(np.array(a[:3]) - np.array(b[:3])))
# frames
sv = a.copy(frame="EME2000")
sv_t = sv.copy(); sv_t.date = sv.date.change_scale("TT")
print("C04 frame ITRF diff:", np.linalg.norm(np.array(sv.copy(frame="ITRF")[:3]) - np.array(sv_t.copy(frame="ITRF")[:3])))
# ccsds
from beyond.io import ccsds
txt = ccsds.dumps(sv_t)
back = ccsds.loads(txt)
print("C04/C13 ccsds date roundtrip:", back.date == sv.date, back.date, sv_t.date)
# C08 numerical backward range
k = sv.as_orbit(KeplerNum(timedelta(seconds=60), get_body("Earth")))
try:
    L = list(k.iter(start=sv.date, stop=sv.date - timedelta(minutes=10), step=timedelta(minutes=1)))
    print("C08 backward numerical iter:", len(L), [str(x.date) for x in L[:3]])
except Exception as e:
    print("C08 backward numerical iter raised", type(e), e)
try:
    L = list(k.iter(start=sv.date - timedelta(minutes=30), stop=sv.date - timedelta(minutes=20), step=timedelta(minutes=1)))
    print("C08 before-epoch forward numerical iter:", len(L), L[0].date, L[-1].date)
except Exception as e:
    print("C08 raised", type(e), e)
ka = sv.as_orbit(Kepler())
L = list(ka.iter(start=sv.date, stop=sv.date - timedelta(minutes=10), step=timedelta(minutes=3)))
print("C08 analytical backward:", [str(x.date) for x in L])
L = list(ka.iter(start=sv.date, stop=timedelta(minutes=10), step=timedelta(minutes=3)))
print("C08 analytical fwd non-dividing:", [str(x.date) for x in L])
