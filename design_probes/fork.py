import z3
from symq import R, nd, mul, CTX, ONE
class Path(Exception): pass
class Driver:
    def __init__(s): s.prefix = []; s.trace = []; s.pc = []; s.pre = []
DRV = Driver()
class SB:
    def __init__(s, t): s.t = t
    def __bool__(s):
        d = DRV
        i = len(d.trace)
        if i < len(d.prefix):
            v = d.prefix[i]
        else:
            # choose True if feasible else False
            so = z3.Solver(); so.set("timeout", 10000)
            for c in d.pre + d.pc + CTX.cons: so.add(c)
            so.add(s.t)
            v = str(so.check()) != "unsat"
        d.trace.append(v); d.pc.append(s.t if v else z3.Not(s.t))
        return v
    def __and__(s, o): return SB(z3.And(s.t, o.t))
    def __invert__(s): return SB(z3.Not(s.t))
def _cmp(op):
    def f(s, o):
        import numpy as np
        if isinstance(o, np.ndarray): return NotImplemented
        an, ad = nd(s); bn, bd = nd(o)
        # assume positive denominators in this probe
        return SB(op(mul(an, bd), mul(bn, ad)))
    return f
R.__lt__ = _cmp(lambda a, b: a < b); R.__le__ = _cmp(lambda a, b: a <= b)
R.__gt__ = _cmp(lambda a, b: a > b); R.__ge__ = _cmp(lambda a, b: a >= b)
R.__eq__ = _cmp(lambda a, b: a == b); R.__ne__ = _cmp(lambda a, b: a != b)
R.__hash__ = lambda s: id(s)
def explore(fn, pre, maxpaths=500):
    """yield (path condition, result) for each feasible path"""
    stack = [[]]; n = 0
    while stack:
        prefix = stack.pop()
        DRV.prefix = prefix; DRV.trace = []; DRV.pc = []; DRV.pre = pre
        CTX.reset()
        res = fn()
        n += 1
        # schedule siblings: for each decision beyond prefix taken as True-by-default, try flipping
        for i in range(len(prefix), len(DRV.trace)):
            alt = DRV.trace[:i] + [not DRV.trace[i]]
            so = z3.Solver(); so.set("timeout", 10000)
            for c in pre + DRV.pc[:i] + CTX.cons: so.add(c)
            so.add(z3.Not(DRV.pc[i]) if True else None)
            if str(so.check()) != "unsat": stack.append(alt)
        yield list(DRV.pc), res
        if n >= maxpaths: raise RuntimeError("path bound exceeded")
