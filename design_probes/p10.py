"""C16 probe: run the real ClohessyWiltshire._propagate on symbolic scalars; check Hill ODE + composition."""
import numpy as np, z3, sys, time
from symq import *
from npx import patch, npx
import warnings; warnings.filterwarnings("ignore")
import beyond.propagators.cw as CW
patch(CW)
CW.np = npx

# time/angle atoms: nt is an angle atom th with value variable; t = th/n
n = var("n")
class TD:
    def __init__(s, secs): s.secs = secs
    def total_seconds(s): return s.secs
class SD:      # symbolic date: seconds value
    def __init__(s, t): s.t = t
    def __sub__(s, o): return TD(s.t if o.t is None else s.t - o.t)
    def __add__(s, td): return SD(td.secs if s.t is None else s.t + td.secs)
class St(np.ndarray):
    pass
def state(vals, date):
    a = np.empty(6, dtype=object); a[:] = vals
    a = a.view(St); a.date = date; return a

# make n*t an angle: t is R with angle-view lin over atom "th" scaled by 1/n -> emulate by special class
class T(R):
    pass
def mk_time(name):
    th = R.angle(name)                 # angle atom, value var val_name
    t = R(th.n, n.n)                   # t = th / n  (value)
    t.lin_th = th
    return t, th
# patch R.__mul__ so that n * t  -> th (angle view)
_old_mul = R.__mul__
def _mul(s, o):
    for a, b in ((s, o), (o, s)):
        if isinstance(a, R) and isinstance(b, R) and z3.eq(a.n, n.n) and is1(a.d) and getattr(b, "lin_th", None) is not None:
            return b.lin_th
    return _old_mul(s, o)
R.__mul__ = _mul; R.__rmul__ = _mul

prop = CW.ClohessyWiltshire.__new__(CW.ClohessyWiltshire)
prop.sma = var("sma"); prop._n = n
class Fr_: orientation = "QSW"
prop.frame = Fr_()

def run(tname, x0, accel=None):
    CTX.reset()
    t, th = mk_time(tname)
    orb = state(x0, SD(None))
    out = prop._propagate(SD(t), orb, accel)
    return out, t, th

x0 = [var(k) for k in "x y z vx vy vz".split()]
acc = np.array([var(k) for k in "ax ay az".split()], dtype=object)
out, t, th = run("th", x0, acc)
c, s = CTX.atom("th"); thv = th.n
print("propagate ok:", out.dtype, out.shape, len(CTX.cons), flush=True)
# derivative wrt t by hand-rolled differentiation of z3 terms: d th/dt = n, dc = -s n, ds = c n
def ddt(e):
    # e is z3 polynomial term in thv, c, s and constants; differentiate symbolically
    if z3.is_rational_value(e): return z3.RealVal(0)
    if z3.is_const(e):
        if z3.eq(e, thv): return n.n
        if z3.eq(e, c): return -s * n.n
        if z3.eq(e, s): return c * n.n
        return z3.RealVal(0)
    k = e.decl().kind(); ch = e.children()
    if k == z3.Z3_OP_ADD: return z3.Sum([ddt(x) for x in ch])
    if k == z3.Z3_OP_SUB: 
        r = ddt(ch[0])
        for x in ch[1:]: r = r - ddt(x)
        return r
    if k == z3.Z3_OP_UMINUS: return -ddt(ch[0])
    if k == z3.Z3_OP_MUL:
        tot = z3.RealVal(0)
        for i in range(len(ch)):
            term = ddt(ch[i])
            for j in range(len(ch)):
                if j != i: term = term * ch[j]
            tot = tot + term
        return tot
    raise NotImplementedError(e.decl())
def dR(r):  # quotient rule; denominators here are polynomials in n only
    return R(ddt(r.n) * r.d - r.n * ddt(r.d), r.d * r.d)
# Hill: xdd = 3n^2 x + 2n vy + ax ; ydd = -2n vx + ay ; zdd = -n^2 z + az   (QSW: x radial, y along-track)
X, Y, Z, VX, VY, VZ = out
ax, ay, az = acc
pre = [n.n > 0]
obl = {
 "dx=vx": neq(dR(X), VX), "dy=vy": neq(dR(Y), VY), "dz=vz": neq(dR(Z), VZ),
 "dvx": neq(dR(VX), 3*n*n*X + 2*n*VY + ax),
 "dvy": neq(dR(VY), -2*n*VX + ay),
 "dvz": neq(dR(VZ), -1*n*n*Z + az),
}
for k, g in obl.items(): prove2([g], pre, name="Hill " + k)
# initial condition at t=0: th=0, c=1, s=0
sub = [(thv, z3.RealVal(0)), (c, z3.RealVal(1)), (s, z3.RealVal(0))]
for k in range(6):
    g = z3.substitute(neq(out[k], x0[k]), *sub)
    so = z3.Solver(); so.add(n.n > 0, g); print("IC", k, so.check())
