import numpy as np, z3, sys
from symf import *
from npxf import patch, npx
import beyond.orbits.forms as F
patch(F)
Form = F.Form
class Body: pass
body = Body(); mu = var("mu"); body.µ = mu; body.mu = mu
a, e = var("a"), var("e")
i, Om, om, nu = [R.angle(n) for n in "i Om om nu".split()]
(ci, si), (cnu, snu) = CTX.atom("i"), CTX.atom("nu")
CTX.pre = [mu.n > 0, a.n > 0, e.n > 0, e.n < 1, si.n > 0, (1 + e*cnu).n > 0]
k0 = np.array([a, e, i, Om, om, nu], dtype=object)
cart = Form._keplerian_to_cartesian(k0, body)
print("k2c cons", len(CTX.cons), "signs", list(CTX.signs), flush=True)
H = (mu * (a * (1 - e ** 2))).sqrt()
rk = a*(1-e*e)/(1+e*cnu)
CTX.hints = [rk, e, H*si, H/mu, e*rk, rk*si, si, H]
k1 = Form._cartesian_to_keplerian(cart, body)
print("c2k done; cons:", len(CTX.cons), "signs", list(CTX.signs)[:10], flush=True)
for c in CTX.cons: print("    ", str(c)[:200].replace("\n"," "))
pre = CTX.pre
prove2([neq(k1[0], k0[0])], pre, name="a", timeout=120000)
prove2([neq(k1[1], k0[1])], pre, name="e", timeout=120000)
for k,n in ((2,"i"),(3,"Om"),(4,"om"),(5,"nu")):
    prove2([neq(k1[k].cos(), k0[k].cos())], pre, name=f"cos {n}", timeout=120000)
    prove2([neq(k1[k].sin(), k0[k].sin())], pre, name=f"sin {n}", timeout=120000)
print("--- vacuity twins (expect sat)")
def twin(goal, name):
    extra = list(pre) + [t > 0 for t in CTX.signs.values()]
    cs = sliced([goal], extra)
    s = z3.Solver(); s.set("timeout", 120000)
    for c in cs + extra: s.add(c)
    import time; t0 = time.time(); r = s.check()
    print(f"twin {name}: {r} in {time.time()-t0:.1f}s", flush=True)
    return s
s = twin(neq(k1[4].cos(), k0[4].cos()), "cos om")
twin(neq(k1[5].sin(), k0[5].sin()), "sin nu")
twin(neq(k1[0], k0[0]), "a")
