import warnings; warnings.filterwarnings("ignore")
import numpy as np
from beyond.config import config
config.set("eop", "missing_policy", "pass"); config.set("eop","folder","/repo/tests/data/pole")
from beyond.dates import Date, timedelta
from beyond.io.tle import Tle
from beyond.orbits import StateVector, Orbit
from beyond.orbits.cov import Cov
from beyond.frames.local import to_local

tle = Tle("""ISS (ZARYA)
1 25544U 98067A   18124.55610684  .00001524  00000-0  30197-4 0  9997
2 25544  51.6421 236.2139 0003381  47.8509  47.6767 15.54198229111731""")
orb = tle.orbit()
d_utc = Date(2018, 5, 5, 12, 0, 0)
d_tai = d_utc.change_scale("TAI")
print("same instant:", d_utc == d_tai, d_utc, d_tai)
a = orb.propagate(d_utc); b = orb.propagate(d_tai)
print("C04 sgp4 diff [m]:", np.linalg.norm(np.array(a[:3]) - np.array(b[:3])))
# TLE from orbit with TAI epoch
orb2 = orb.copy(); 
orb2.date = orb.date.change_scale("TAI")
t2 = Tle.from_orbit(orb2)
print("C04 tle epoch diff [s]:", (t2.epoch - tle.epoch).total_seconds())
# hash/eq
x = Date(57709, 1.0); y = Date(57709, 1.0000001)
print("C03 eq", x == y, "hash eq", hash(x) == hash(y))
u = Date(2018,5,5,12,0,0,123456); 
for sc in ["TAI","TT","GPS","UT1","TDB"]:
    v = u.change_scale(sc)
    print(sc, u == v, hash(u) == hash(v), u._s, v._s)
# C12 element number
t = Tle("""ISS (ZARYA)
1 25544U 98067A   18124.55610684  .00001524  00000-0  30197-4 0  9997
2 25544  51.6421 236.2139 0003381  47.8509  47.6767 15.54198229111731""")
print("C12 elnb:", t.element_nb, "text col 65-68:", t.text.splitlines()[0][64:68])
print(str(Tle.from_orbit(t.orbit())) == str(t))
print(Tle.from_orbit(t.orbit()))
# C14 chain
sv = orb.propagate(d_utc).copy(frame="EME2000")
C = np.diag([1e4, 4e4, 9e4, 1.0, 4.0, 9.0]) + 0.
from beyond.frames.frames import get_frame
sv.cov = Cov(sv, C, get_frame("EME2000"))
direct = sv.cov.copy(frame="QSW")
chain = sv.cov.copy(frame="ITRF"); chain.frame = "QSW"
print("C14 chain vs direct max abs diff:", np.abs(np.array(direct) - np.array(chain)).max())
chain2 = sv.cov.copy(frame="TOD"); chain2.frame = "QSW"
print("C14 chain via TOD:", np.abs(np.array(direct) - np.array(chain2)).max())
