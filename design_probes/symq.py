"""Probe v2: rational-function representation (num/den), angle atoms as (c,s) pairs."""
import z3, time
from fractions import Fraction as Fr
import numpy as np

class Ctx:
    def __init__(self): self.reset()
    def reset(self):
        self.cons = []; self.n = 0; self.atoms = {}; self.nz = []; self.defs = []
    def fresh(self, p="t"):
        self.n += 1; return z3.Real(f"{p}!{self.n}")
    def atom(self, name):
        if name not in self.atoms:
            c, s = z3.Real(f"c_{name}"), z3.Real(f"s_{name}")
            self.atoms[name] = (c, s)
            self.cons.append(c * c + s * s == 1)
        return self.atoms[name]
CTX = Ctx()
CTX_K = z3.Real('__k1'); CTX_K2 = z3.Real('__k2')
ONE = z3.RealVal(1)
def const(x):
    if isinstance(x, np.generic): x = x.item()
    if isinstance(x, bool): raise TypeError
    if isinstance(x, int): return z3.RealVal(x), ONE
    if isinstance(x, float):
        f = Fr(x)  # exact binary value of the double
        return z3.RealVal(f.numerator), z3.RealVal(f.denominator)
    raise TypeError(type(x))
def nd(x):
    if isinstance(x, R): return x.n, x.d
    return const(x)
def is1(d): return z3.is_rational_value(d) and d.as_fraction() == 1
def mul(a, b):
    if is1(a): return b
    if is1(b): return a
    return a * b

class R:
    rad = None
    def __init__(self, n, d=ONE, lin=None):
        self.n, self.d, self.lin = n, d, lin
    @property
    def t(self): return self.n / self.d if not is1(self.d) else self.n
    @staticmethod
    def angle(name):
        CTX.atom(name)
        return R(z3.Real(f"val_{name}"), ONE, ({name: Fr(1)}, Fr(0)))
    def _comb(s, o, sign):
        if s.lin is None or not isinstance(o, R) or o.lin is None: return None
        d = dict(s.lin[0])
        for k, v in o.lin[0].items():
            d[k] = d.get(k, 0) + sign * v
            if d[k] == 0: del d[k]
        return (d, s.lin[1] + sign * o.lin[1])
    def _addsub(s, o, sign, lin):
        n2, d2 = nd(o)
        if z3.eq(s.d, d2):
            return R(s.n + n2 if sign > 0 else s.n - n2, s.d, lin)
        a, b = mul(s.n, d2), mul(n2, s.d)
        return R(a + b if sign > 0 else a - b, mul(s.d, d2), lin)
    def __add__(s, o):
        if isinstance(o, np.ndarray): return NotImplemented
        return s._addsub(o, 1, s._comb(o, 1))
    def __radd__(s, o):
        if isinstance(o, np.ndarray): return NotImplemented
        return s._addsub(o, 1, None)
    def __sub__(s, o):
        if isinstance(o, np.ndarray): return NotImplemented
        return s._addsub(o, -1, s._comb(o, -1))
    def __rsub__(s, o):
        if isinstance(o, np.ndarray): return NotImplemented
        return (-s)._addsub(o, 1, None)
    def _scale(s, k):
        if s.lin is None: return None
        return ({a: v * k for a, v in s.lin[0].items()}, s.lin[1] * k)
    def __mul__(s, o):
        if isinstance(o, np.ndarray): return NotImplemented
        if isinstance(o, R) and s.rad is not None and o.rad is not None and z3.eq(s.n, o.n):
            return s.rad
        lin = s._scale(Fr(o)) if isinstance(o, int) and not isinstance(o, bool) else None
        n2, d2 = nd(o)
        return R(mul(s.n, n2), mul(s.d, d2), lin)
    __rmul__ = __mul__
    def __neg__(s): return R(-s.n, s.d, s._scale(Fr(-1)))
    def __truediv__(s, o):
        if isinstance(o, np.ndarray): return NotImplemented
        lin = s._scale(Fr(1, o)) if isinstance(o, int) and not isinstance(o, bool) else None
        n2, d2 = nd(o)
        if not z3.is_rational_value(n2): CTX.nz.append(n2)
        return R(mul(s.n, d2), mul(s.d, n2), lin)
    def __rtruediv__(s, o):
        if isinstance(o, np.ndarray): return NotImplemented
        n2, d2 = nd(o)
        CTX.nz.append(s.n)
        return R(mul(n2, s.d), mul(d2, s.n))
    def __pow__(s, k):
        if isinstance(k, int) and k >= 0:
            if k == 2: return s * s
            n, d = ONE, ONE
            for _ in range(k): n, d = mul(n, s.n), mul(d, s.d)
            return R(n, d)
        raise NotImplementedError(k)
    def __mod__(s, o):
        if isinstance(o, R) and o.lin == ({}, Fr(2)) and s.lin is not None:
            return R(CTX.fresh("mod"), ONE, s.lin)
        raise NotImplementedError
    def sqrt(s):
        key = z3.simplify(s.n * CTX_K - s.d * CTX_K2, som=True).sexpr()
        if key in CTX.atoms: return CTX.atoms[key]
        r = None
        for cand in getattr(CTX, "hints", []):
            g1 = neq(cand * cand, s)
            g2 = (cand.n * cand.d < 0)
            so = z3.Solver(); so.set("timeout", 60000)
            ex = list(getattr(CTX, "pre", []))
            for c in sliced2([g1, g2], ex) + ex: so.add(c)
            so.add(z3.Or(g1, g2))
            if str(so.check()) == "unsat":
                print("   sqrt hint used:", cand.n if len(str(cand.n))<60 else "...", flush=True)
                r = cand; break
        if r is None: r = s._sqrt()
        CTX.atoms[key] = r; return r
    def _sqrt(s):
        q = CTX.fresh("sq")
        CTX.cons.append(q * q * s.d == s.n); CTX.cons.append(q >= 0)
        r = R(q); r.rad = R(s.n, s.d); return r
    def _cs(s):
        if s.lin is None: raise NotImplementedError(f"cos/sin of non-angle {s.t}")
        d, p = s.lin
        q = p * 2; assert q.denominator == 1, p
        c, sn = [(1, 0), (0, 1), (-1, 0), (0, -1)][int(q) % 4]
        c, sn = R(z3.RealVal(c)), R(z3.RealVal(sn))
        for a, v in sorted(d.items()):
            assert v.denominator == 1, (a, v)
            ca, sa = CTX.atom(a); n = int(v)
            ca = ca if isinstance(ca, R) else R(ca); sa = sa if isinstance(sa, R) else R(sa)
            if n < 0: sa = -sa; n = -n
            for _ in range(n):
                c, sn = c * ca - sn * sa, sn * ca + c * sa
        return c, sn
    def cos(s): return s._cs()[0]
    def sin(s): return s._cs()[1]
    def tan(s):
        c, sn = s._cs(); return sn / c
    def _newatom(s, kind, c, sn):
        nm = f"{kind}{CTX.n}"; CTX.n += 1
        CTX.atoms[nm] = (c, sn)
        return R(z3.Real(f"val_{nm}"), ONE, ({nm: Fr(1)}, Fr(0)))
    def arccos(s):
        return s._newatom("acos", s, (1 - s * s).sqrt())
    def arcsin(s):
        return s._newatom("asin", (1 - s * s).sqrt(), s)
    def arctan2(y, x):
        x = x if isinstance(x, R) else R(*const(x))
        rho = (x * x + y * y).sqrt()
        CTX.nz.append(rho.n)
        return y._newatom("atan2_", x / rho, y / rho)
    def __repr__(s): return f"R({s.n} / {s.d})"

PI = R(z3.Real("PI"), ONE, ({}, Fr(1)))
def var(name): return R(z3.Real(name))
def neq(a, b):
    """a != b as polynomial statement (cross-multiplied)"""
    an, ad = nd(a); bn, bd = nd(b)
    return mul(an, bd) != mul(bn, ad)
def prove(goals, extra=(), timeout=60000, name="", solver=None):
    s = solver or z3.Solver()
    s.set("timeout", timeout)
    for c in CTX.cons: s.add(c)
    for c in CTX.nz: s.add(c != 0)
    for c in extra: s.add(c)
    s.add(z3.Or(list(goals)))
    t0 = time.time(); r = s.check()
    print(f"{name}: {r} in {time.time()-t0:.2f}s", flush=True)
    return r, s

def _vars(t, acc=None):
    acc = set() if acc is None else acc
    stack = [t]; seen = set()
    while stack:
        u = stack.pop()
        if u.get_id() in seen: continue
        seen.add(u.get_id())
        if z3.is_const(u) and u.decl().kind() == z3.Z3_OP_UNINTERPRETED:
            acc.add(str(u))
        stack.extend(u.children())
    return acc

def is_aux(v): return "!" in v or v.startswith("c_a") or v.startswith("s_a")

def sliced(goals, extra):
    return sliced2(goals, extra)
def defined_by(c, vs):
    """aux vars defined by constraint c: the newest aux var(s) in it (creation order)"""
    aux = [v for v in vs if is_aux(v)]
    def key(v):
        import re
        m = re.search(r"(\d+)$", v); return int(m.group(1)) if m else -1
    if not aux: return set()
    mx = max(key(v) for v in aux)
    # atan2 atom N comes with rho!(N+2) ; treat same-batch (within 2) as co-defined
    return {v for v in aux if key(v) >= mx - 2 and (key(v) == mx or "rho" in v or "atan2" in v)}
def sliced2(goals, extra):
    need = set()
    for g in list(goals) + list(extra): _vars(g, need)
    cons = [(c, _vars(c)) for c in CTX.cons]
    cons = [(c, vs, defined_by(c, vs)) for c, vs in cons]
    used = [False] * len(cons)
    changed = True
    while changed:
        changed = False
        for k, (c, vs, df) in enumerate(cons):
            if used[k]: continue
            if (df & need) or (not df and vs <= need):
                used[k] = True; need |= vs; changed = True
    out = [c for k, (c, vs, df) in enumerate(cons) if used[k]]
    out += [c != 0 for c in CTX.nz if _vars(c) <= need]
    return out
def sliced_old(goals, extra):
    """cone of influence: keep only aux definitions reachable from the goal"""
    need = set()
    for g in list(goals) + list(extra): _vars(g, need)
    cons = [(c, _vars(c)) for c in CTX.cons]
    nz = [(c != 0, _vars(c)) for c in CTX.nz]
    used = [False] * len(cons)
    changed = True
    while changed:
        changed = False
        for k, (c, vs) in enumerate(cons):
            if used[k]: continue
            aux = {v for v in vs if is_aux(v)}
            # a defining constraint is relevant if it defines an aux var we need
            if aux & need:
                used[k] = True; need |= vs; changed = True
    out = [c for k, (c, vs) in enumerate(cons) if used[k]]
    out += [c for c, vs in nz if vs <= need]
    return out

def prove2(goals, extra=(), timeout=60000, name=""):
    s = z3.Solver(); s.set("timeout", timeout)
    cs = sliced(goals, extra)
    for c in cs: s.add(c)
    for c in extra: s.add(c)
    s.add(z3.Or(list(goals)))
    t0 = time.time(); r = s.check()
    print(f"{name}: {r} in {time.time()-t0:.2f}s  ({len(cs)} sliced cons)", flush=True)
    return r, s
