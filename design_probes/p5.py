import numpy as np, z3, sys
from symq import *
from npx import patch, npx
import beyond.orbits.forms as F
patch(F)
Form = F.Form
class Body: pass
body = Body(); body.µ = var("mu"); body.mu = body.µ
a, e = var("a"), var("e")
i, Om, om, nu = [R.angle(n) for n in "i Om om nu".split()]
k0 = np.array([a, e, i, Om, om, nu], dtype=object)
cart = Form._keplerian_to_cartesian(k0, body)
print("k2c cons", len(CTX.cons), len(CTX.nz), flush=True)
ci, si = CTX.atom("i"); cnu, snu = CTX.atom("nu"); cO, sO = CTX.atom("Om"); co, so = CTX.atom("om")
pre = [a.t > 0, e.t > 0, e.t < 1, body.mu.t > 0, si > 0]
prove([z3.BoolVal(True)], pre, name="vacuity (expect sat)")
r, v = cart[:3], cart[3:]
p = a*(1-e*e)
rr = r[0]*r[0]+r[1]*r[1]+r[2]*r[2]
rk = p/(1+e*R(cnu))
prove([neq(rr, rk*rk)], pre, name="lemma r^2")
vv = v[0]*v[0]+v[1]*v[1]+v[2]*v[2]
prove([neq(vv, body.mu*(2/rk - 1/a))], pre, name="lemma vis-viva")
h = np.cross(r, v)
sq = [c for c in CTX.cons if "sq!" in str(c)]
print(sq)
hn = R(z3.Real("sq!1"))
prove([neq(h[2], hn*R(ci))], pre, name="lemma hz")
prove([neq(h[0], hn*R(si)*R(sO))], pre, name="lemma hx")
prove([neq(h[1], -hn*R(si)*R(cO))], pre, name="lemma hy")
# reference perifocal formula
cu, su = (om+nu).cos(), (om+nu).sin()
prove([neq(r[2], rk*R(si)*su)], pre, name="rz ref")
rdot = hn/p*e*R(snu)          # sqrt(mu/p) e sin nu  = h/p e sin nu
rfd = hn/rk                    # r * nudot = h / r
# v = rdot * rhat + rfd * that ; rhat = r/|r| ; that = d rhat/du
rhat = [R(cO)*cu - R(sO)*su*R(ci), R(sO)*cu + R(cO)*su*R(ci), R(si)*su]
that = [-R(cO)*su - R(sO)*cu*R(ci), -R(sO)*su + R(cO)*cu*R(ci), R(si)*cu]
for k in range(3):
    prove([neq(r[k], rk*rhat[k])], pre, name=f"r[{k}] vs ref")
    prove([neq(v[k], rdot*rhat[k] + rfd*that[k])], pre, name=f"v[{k}] vs ref")
