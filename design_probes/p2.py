import numpy as np, z3, sys
from symr import *
from npx import patch, npx
import beyond.orbits.forms as F
patch(F)
Form = F.Form
class Body: pass
body = Body(); body.µ = var("mu"); body.mu = body.µ

def eqs(a, b):
    return [x.t != y.t for x, y in zip(a, b)]

which = sys.argv[1]
if which == "cyl":
    # cyl -> cart -> cyl
    r, z, rd, td, vz = [var(n) for n in "r z rd td vz".split()]
    th = R.angle("th")
    c0 = np.array([r, th, z, rd, td, vz], dtype=object)
    cart = Form._cylindrical_to_cartesian(c0, body)
    c1 = Form._cartesian_to_cylindrical(cart, body)
    pre = [r.t > 0]
    for k in (0, 2, 3, 4, 5):
        prove([c1[k].t != c0[k].t], pre, name=f"cyl rt [{k}]")
    prove([c1[1].cos().t != c0[1].cos().t], pre, name="cyl rt cos th")
    prove([c1[1].sin().t != c0[1].sin().t], pre, name="cyl rt sin th")
    # cart -> cyl -> cart
    CTX.reset()
    x0 = np.array([var(n) for n in "x y z vx vy vz".split()], dtype=object)
    cyl = Form._cartesian_to_cylindrical(x0, body)
    x1 = Form._cylindrical_to_cartesian(cyl, body)
    for k in range(6):
        prove([x1[k].t != x0[k].t], name=f"cart-cyl-cart [{k}]")
if which == "sph":
    CTX.reset()
    x0 = np.array([var(n) for n in "x y z vx vy vz".split()], dtype=object)
    s = Form._cartesian_to_spherical(x0, body)
    x1 = Form._spherical_to_cartesian(s, body)
    for k in range(6):
        prove([x1[k].t != x0[k].t], name=f"cart-sph-cart [{k}]")
    CTX.reset()
    r, rd, td, pd = [var(n) for n in "r rd td pd".split()]
    th, ph = R.angle("th"), R.angle("ph")
    s0 = np.array([r, th, ph, rd, td, pd], dtype=object)
    cart = Form._spherical_to_cartesian(s0, body)
    s1 = Form._cartesian_to_spherical(cart, body)
    pre = [r.t > 0, CTX.atom("ph")[0] > 0]
    for k in (0, 3, 4, 5):
        prove([s1[k].t != s0[k].t], pre, name=f"sph rt [{k}]")
    for k in (1, 2):
        prove([s1[k].cos().t != s0[k].cos().t], pre, name=f"sph rt cos [{k}]")
        prove([s1[k].sin().t != s0[k].sin().t], pre, name=f"sph rt sin [{k}]")
