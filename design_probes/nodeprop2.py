import importlib.util, sys, itertools
spec = importlib.util.spec_from_file_location("node", "/repo/beyond/utils/node.py")
node = importlib.util.module_from_spec(spec); spec.loader.exec_module(node)
Node = node.Node
PERMS = list(itertools.permutations(range(3)))

def _bfs(adj, n, s):
    dist = {s: 0}; q = [s]
    while q:
        u = q.pop(0)
        for v in range(n):
            if adj[u][v] and v not in dist:
                dist[v] = dist[u] + 1; q.append(v)
    return dist

def tree4(p2: int, p3: int, perm: int, f0: bool, f1: bool, f2: bool) -> bool:
    """
    pre: 0 <= p2 <= 1 and 0 <= p3 <= 2 and 0 <= perm < 6
    post: _ == True
    """
    n = 4
    parents = [0, p2, p3]; flips = [f0, f1, f2]
    order = PERMS[perm]
    nodes = [Node(str(i)) for i in range(n)]
    adj = [[False] * n for _ in range(n)]
    for k in order:
        a, b = k + 1, parents[k]
        if flips[k]:
            a, b = b, a
        nodes[a] + nodes[b]
        adj[a][b] = adj[b][a] = True
    for s in range(n):
        d = _bfs(adj, n, s)
        for t in range(n):
            if t == s: continue
            p = nodes[s].path(str(t))
            if len(p) - 1 != d[t]: return False
            for x, y in zip(p, p[1:]):
                if not adj[int(x.name)][int(y.name)]: return False
    return True
